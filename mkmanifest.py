#!/usr/bin/env python3
"""Writes MANIFEST.json from the table below (single source, keeps the file valid)."""
import json, os

BASELINE_OFF = ("for m in . ./staging/src/github.com/kubewharf/apiserver-runtime; do "
                "(cd /repo/$m && go test -mod=mod -json -vet=off -count=1 -timeout 25m ./...); done")

# id -> (technique, level text, level note, design ref)
CLAIMED = {
    "C01": (
        "property-based testing against a reference matcher (rapid) + metamorphic relations + bounded-exhaustive per-field list enumeration",
        "Generated-input search: MatchPolicies / RuleMatches / ClusterInfo.MatchAttributes are compared with an independent reference matcher written from docs/en/design.md on ~3e5 (quick) / ~3e7 (thorough) generated (policy list, request) pairs over tiny alphabets, plus order/permutation/fresh-instance metamorphic relations and a complete enumeration of every list of length <=3 over {a,-a,b,-b,*,''} for each field matcher. Exploration, not proof: absence of a counterexample within these bounds.",
        "Trusted: the reference matcher (harness/internal/refmodel/matcher.go), rapid v1.3.0, Go runtime. Globs only with one trailing '*'; '-' entries in nonResourceURLs are treated as never matching (documented as unsupported).",
        "DESIGN.md 4/C01",
    ),
    "C17": (
        "metamorphic property-based testing through the real admission plugin (rapid) + bounded-exhaustive per-field list enumeration",
        "Generated-input search: policies from the C01 rule generator are admitted by the real plugin (Admit, create/update); for every request of a 499-tuple probe set the gateway's own RuleMatches/MatchPolicies must agree before vs after normalisation, and Admit must be idempotent; plus every list of length <=3 over {a,-a,b,-b,*,''} in each of the seven list fields. Exploration within these bounds.",
        "Trusted: rapid, Go runtime; the oracle is the gateway's matcher itself on the un-normalised rule (independent of C01's correctness).",
        "DESIGN.md 4/C17",
    ),
    "C20": (
        "property-based testing of the registered REST strategies through rest.BeforeCreate/BeforeUpdate against the stated conventions (rapid)",
        "Generated-input search over (stored, submitted) object pairs with any subset of labels/annotations/spec/status/generation/other metadata re-drawn (including nothing), using the strategy objects the gateway's own NewRESTStorageProvider registers (taken out of the generic registry stores it builds), for UpstreamCluster, RateLimitCondition and RateLimitCondition under UpstreamCluster's strategies (non-empty status). Exploration.",
        "Trusted: k8s.io/apiserver rest.BeforeCreate/BeforeUpdate, apiequality.Semantic, rapid. etcd-backed storage is replaced by a never-used stub; nil-vs-empty collections are not generated (same object on the wire).",
        "DESIGN.md 4/C20",
    ),
    "C07": (
        "property-based testing of the allocation arithmetic against a validity predicate + model-based report histories on the real limiter (rapid state machine)",
        "Generated-input search: (a) calculateNextQuota (verif hook) on 2e5/3e6 numeric tuples biased to full / over-allocation, new instances and small limits; (b) state-machine histories (reports by honest instances, new instances, global-limit changes, reclaim) through the real UpdateRateLimitConditionStatus with local and API-backed write-through stores, checking every answer, the sum clauses, store contents and the recorded sum after every step. Concurrent overlap of reports (schedules) is not explored by this check. Exploration.",
        "Trusted: rapid, the fake gateway clientset, scripted elector / lister stubs, the validity predicate written from the statement. Instances are honest (echo the last answer).",
        "DESIGN.md 4/C07",
    ),
}

PENDING = {}

def main():
    here = os.path.dirname(os.path.abspath(__file__))
    props = [json.loads(l) for l in open(os.path.join(here, "properties.jsonl"))]
    hooks_commits = []
    hc = os.path.join(here, "hooks_commits.txt")
    if os.path.exists(hc):
        hooks_commits = [l.split()[0] for l in open(hc) if l.strip() and not l.startswith("#")]
    checks, na = [], []
    for p in props:
        pid = p["id"]
        if pid in CLAIMED:
            tech, text, note, ref = CLAIMED[pid]
            level = "fault_enumeration" if pid == "C19" else "exploration"
            checks.append({
                "property_id": pid,
                "quick_cmd": "./check run %s --tier quick" % pid,
                "thorough_cmd": "./check run %s --tier thorough" % pid,
                "evidence_file": "/verif/evidence/%s.json" % pid,
                "replay_cmd_template": "./check replay %s {path}" % pid,
                "engine": "harness/checks/%s" % pid.lower(),
                "level_claimed": {"category": level, "text": text, "design_ref": ref},
                "level_note": note,
                "technique": tech,
            })
        else:
            na.append({"property_id": pid, "reason": PENDING.get(pid, "no check registered yet: the property-based check for this property is still being built (see DESIGN.md section 4); nothing is claimed for it in this commit")})
    m = {
        "version": 1,
        "setup_cmd": "./check setup",
        "hooks": {
            "guard": "verif (Go build tag)",
            "enable": "go test -tags verif (the ./check driver builds every check package with -tags verif against /repo through a replace directive)",
            "baseline_off_cmd": BASELINE_OFF,
            "source_commits": hooks_commits,
            "add_only": True,
        },
        "engines": [
            {"name": "rapid-pbt", "path": "harness/checks", "serves_properties": sorted(CLAIMED), "kind_free_text": "pgregory.net/rapid v1.3.0 properties and state machines against explicit oracles; one Go test package per property, driven by ./check"},
        ],
        "checks": checks,
        "not_applicable": na,
        "notes": "All checks are generated-input searches (property-based testing / fuzzing) with explicit oracles; see DESIGN.md. Known findings: known_findings.json.",
    }
    with open(os.path.join(here, "MANIFEST.json"), "w") as f:
        json.dump(m, f, indent=1)
        f.write("\n")

if __name__ == "__main__":
    main()
