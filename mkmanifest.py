#!/usr/bin/env python3
"""Writes MANIFEST.json from the table below (single source, keeps the file valid)."""
import json, os

BASELINE_OFF = ("for m in . ./staging/src/github.com/kubewharf/apiserver-runtime; do "
                "(cd /repo/$m && GOFLAGS=-mod=mod go test -json -vet=off -count=1 -timeout 25m ./...) || exit 1; done")

# id -> (technique, level text, level note, design ref)
CLAIMED = {
    "C01": (
        "property-based testing against a reference matcher (rapid) + metamorphic relations + bounded-exhaustive per-field list enumeration",
        "Generated-input search: MatchPolicies / RuleMatches / ClusterInfo.MatchAttributes are compared with an independent reference matcher written from docs/en/design.md on ~3e5 (quick) / ~3e7 (thorough) generated (policy list, request) pairs over tiny alphabets, plus order/permutation/fresh-instance metamorphic relations and a complete enumeration of every list of length <=3 over {a,-a,b,-b,*,''} for each field matcher. Exploration, not proof: absence of a counterexample within these bounds.",
        "Trusted: the reference matcher (harness/internal/refmodel/matcher.go), rapid v1.3.0, Go runtime. Globs only with one trailing '*'; '-' entries in nonResourceURLs are treated as never matching (documented as unsupported).",
        "DESIGN.md 4/C01",
    ),
}

PENDING = {}

def main():
    here = os.path.dirname(os.path.abspath(__file__))
    props = [json.loads(l) for l in open(os.path.join(here, "properties.jsonl"))]
    hooks_commits = []
    hc = os.path.join(here, "hooks_commits.txt")
    if os.path.exists(hc):
        hooks_commits = [l.split()[0] for l in open(hc) if l.strip() and not l.startswith("#")]
    checks, na = [], []
    for p in props:
        pid = p["id"]
        if pid in CLAIMED:
            tech, text, note, ref = CLAIMED[pid]
            level = "fault_enumeration" if pid == "C19" else "exploration"
            checks.append({
                "property_id": pid,
                "quick_cmd": "./check run %s --tier quick" % pid,
                "thorough_cmd": "./check run %s --tier thorough" % pid,
                "evidence_file": "/verif/evidence/%s.json" % pid,
                "replay_cmd_template": "./check replay %s {path}" % pid,
                "engine": "harness/checks/%s" % pid.lower(),
                "level_claimed": {"category": level, "text": text, "design_ref": ref},
                "level_note": note,
                "technique": tech,
            })
        else:
            na.append({"property_id": pid, "reason": PENDING.get(pid, "no check registered yet: the property-based check for this property is still being built (see DESIGN.md section 4); nothing is claimed for it in this commit")})
    m = {
        "version": 1,
        "setup_cmd": "./check setup",
        "hooks": {
            "guard": "verif (Go build tag)",
            "enable": "go test -tags verif (the ./check driver builds every check package with -tags verif against /repo through a replace directive)",
            "baseline_off_cmd": BASELINE_OFF,
            "source_commits": hooks_commits,
            "add_only": True,
        },
        "engines": [
            {"name": "rapid-pbt", "path": "harness/checks", "serves_properties": sorted(CLAIMED), "kind_free_text": "pgregory.net/rapid v1.3.0 properties and state machines against explicit oracles; one Go test package per property, driven by ./check"},
        ],
        "checks": checks,
        "not_applicable": na,
        "notes": "All checks are generated-input searches (property-based testing / fuzzing) with explicit oracles; see DESIGN.md. Known findings: known_findings.json.",
    }
    with open(os.path.join(here, "MANIFEST.json"), "w") as f:
        json.dump(m, f, indent=1)
        f.write("\n")

if __name__ == "__main__":
    main()
