#!/usr/bin/env python3
"""Writes MANIFEST.json from the table below (single source, keeps the file valid)."""
import json, os

BASELINE_OFF = ("for m in . ./staging/src/github.com/kubewharf/apiserver-runtime; do "
                "(cd /repo/$m && go test -mod=mod -json -vet=off -count=1 -timeout 25m ./...); done")

# id -> (technique, level text, level note, design ref)
CLAIMED = {
    "C01": (
        "property-based testing against a reference matcher (rapid) + metamorphic relations + bounded-exhaustive per-field list enumeration",
        "Generated-input search: MatchPolicies / RuleMatches / ClusterInfo.MatchAttributes are compared with an independent reference matcher written from docs/en/design.md on ~3e5 (quick) / ~3e7 (thorough) generated (policy list, request) pairs over tiny alphabets, plus order/permutation/fresh-instance metamorphic relations and a complete enumeration of every list of length <=3 over {a,-a,b,-b,*,''} for each field matcher. Exploration, not proof: absence of a counterexample within these bounds.",
        "Trusted: the reference matcher (harness/internal/refmodel/matcher.go), rapid v1.3.0, Go runtime. Globs only with one trailing '*'; '-' entries in nonResourceURLs are treated as never matching (documented as unsupported).",
        "DESIGN.md 4/C01",
    ),
    "C17": (
        "metamorphic property-based testing through the real admission plugin (rapid) + bounded-exhaustive per-field list enumeration",
        "Generated-input search: policies from the C01 rule generator are admitted by the real plugin (Admit, create/update); for every request of a 499-tuple probe set the gateway's own RuleMatches/MatchPolicies must agree before vs after normalisation, and Admit must be idempotent; plus every list of length <=3 over {a,-a,b,-b,*,''} in each of the seven list fields. Exploration within these bounds.",
        "Trusted: rapid, Go runtime; the oracle is the gateway's matcher itself on the un-normalised rule (independent of C01's correctness).",
        "DESIGN.md 4/C17",
    ),
    "C20": (
        "property-based testing of the registered REST strategies through rest.BeforeCreate/BeforeUpdate against the stated conventions (rapid)",
        "Generated-input search over (stored, submitted) object pairs with any subset of labels/annotations/spec/status/generation/other metadata re-drawn (including nothing), using the strategy objects the gateway's own NewRESTStorageProvider registers (taken out of the generic registry stores it builds), for UpstreamCluster, RateLimitCondition and RateLimitCondition under UpstreamCluster's strategies (non-empty status). Exploration.",
        "Trusted: k8s.io/apiserver rest.BeforeCreate/BeforeUpdate, apiequality.Semantic, rapid. etcd-backed storage is replaced by a never-used stub; nil-vs-empty collections are not generated (same object on the wire).",
        "DESIGN.md 4/C20",
    ),
    "C07": (
        "property-based testing of the allocation arithmetic against a validity predicate + model-based report histories on the real limiter (rapid state machine)",
        "Generated-input search: (a) calculateNextQuota (verif hook) on 2e5/3e6 numeric tuples biased to full / over-allocation, new instances and small limits; (b) state-machine histories (reports by honest instances, new instances, global-limit changes, reclaim) through the real UpdateRateLimitConditionStatus with local and API-backed write-through stores, checking every answer, the sum clauses, store contents and the recorded sum after every step. Concurrent overlap of reports (schedules) is not explored by this check. Exploration.",
        "Trusted: rapid, the fake gateway clientset, scripted elector / lister stubs, the validity predicate written from the statement. Instances are honest (echo the last answer).",
        "DESIGN.md 4/C07",
    ),
    "C05": (
        "model-based testing of acquire/release/reconfiguration histories on the real UpstreamLimiter (rapid state machine, ledger oracle)",
        "Generated-input search: histories of acquire (GetOrDefault+TryAcquire as the dispatcher does), release-exactly-once, reconfiguration (resize, type changes between max-in-flight / token bucket / exempt, delete, re-add) and drain+probe over two clusters x two schemas; a ledger of admitted-unfinished requests per schema incarnation is the oracle (admission only below M, exactly M after a drain, no cross-schema / cross-cluster influence). Concurrent interleavings of the atomic bucket and the HTTP-level exit paths are not covered by this check yet. Exploration.",
        "Trusted: rapid, the ledger model. Operations are interleaved at call granularity, not at instruction granularity.",
        "DESIGN.md 4/C05",
    ),
    "C06": (
        "property-based testing of generated arrival plans with a timestamp-bracketed window oracle (rapid)",
        "Generated-input search: (qps, burst) and plans of bursts from 1-8 goroutines, pauses and reconfigurations are executed against the real limiter (GetOrDefault+TryAcquire); for every window inside one configuration admitted <= burst + qps*T with T measured from outer timestamps (can only loosen), and after a measured idle time the first min(burst, floor(qps*t)) calls are admitted. Exploration; time is a measured input, not controlled.",
        "Trusted: monotonic clock, rapid. A bound violation smaller than scheduling noise cannot be seen; the oracle cannot false-alarm because delays only enlarge T.",
        "DESIGN.md 4/C06",
    ),
    "C08": (
        "model-based testing of SetState/Resize/removal histories against an accounting model + generated DoAcquire sequences on the real limiter (rapid)",
        "Generated-input search: (a) sequential histories on NewGlobalFlowControl compared step by step with a model through DebugInfo (count == total == sum, details, returned counts, stale ids, decreases applied, sum <= max(limit, sum before)); (c) DoAcquire sequences for both schema types (negative asks refused, grant in {n,n/2,n/4,n/8}, window bound with bracketing timestamps, ledger == server total). Interleavings of racing reports/removals are not explored by this check yet. Exploration.",
        "Trusted: rapid, x/time/rate, the accounting model. A refused increase that would fit is counted, not alarmed.",
        "DESIGN.md 4/C08",
    ),
    "C09": (
        "model-based testing of the real gateway-side limiter against a scripted limiter server with hostile replies (rapid state machines, ledger and window oracles)",
        "Generated-input search: the real UpstreamLimiter in remote mode, driven synchronously by verif hooks, with a scripted server (readiness flips, client unavailable, allocate replies with quotas/bursts in {0,1,-1,-5,MinInt32,MaxInt32,around G,below G}, errors; for the count strategy arbitrary accept/limit/error answers with stale and reordered request times delivered to SetLimit - max-in-flight and, driving the token protocol round by round as the counter worker does, token bucket - plus real-time outage scenarios (replies without result / failing calls for 7 s, then recovery) with the real counter worker and watchdog). Oracles: in-flight ledger <= G at every admission, exact local fallback (L admitted from empty), granted quota takes effect (again after a recovery), token-bucket windows per limiter segment. One listed open finding (local and remote counters are independent) relaxes the bound to G+L only for histories matching its signature. Exploration.",
        "Trusted: rapid, fake gateway clientset, stub ClientSets. The 2 s reconcile loop, the counter worker and real heartbeats are replaced by synchronous hook calls; replies keep the schema's type.",
        "DESIGN.md 4/C09",
    ),
    "C13": (
        "property-based testing against an independent FNV-1a reference + model-based leadership histories + end-to-end routing through real client set and server handlers (rapid)",
        "Generated-input search: (a) GetShardID vs an independent FNV-1a-32 for arbitrary names and N up to 2^20; the real gateway-side client set (hook-built, synced from real /ratelimit/endpoints replies) maps names to the same shard and addresses exactly the announced leader; (b) state-machine histories of leadership gain/loss/foreign leader with allocate/acquire/cluster-update calls on the real limiter (local and API-backed store) against a model of led shards; (d) 2-3 real limiter server handlers + real client set end to end. Exploration.",
        "Trusted: rapid, net/http loopback, scripted elector (real lease election not exercised).",
        "DESIGN.md 4/C13",
    ),
    "C18": (
        "model-based testing of join/report/acquire/silence/cleanup/comeback histories on the real limiter (rapid state machine)",
        "Generated-input search: histories over 4 instance identities (one of them 'ip:port'), 3 upstreams on 2 shards, local and API-backed store; after every cleanup pass (both periodic cleanups, driven by hook) the stores and global flow controls must hold exactly the state of the instances with a fresh heartbeat; recorded sums after the next report exclude reclaimed instances; freed in-flight capacity is grantable. Exploration; 'within the cleanup period' is checked as 'after one pass'.",
        "Trusted: rapid, wall clock only to discard cases slower than 2.5 s (inconclusive, never a violation).",
        "DESIGN.md 4/C18",
    ),
    "C19": (
        "model-based testing with exhaustive crash-point enumeration per generated history and API fault injection by call index (rapid + fake API tracker)",
        "Fault enumeration: for every generated history of save/delete/deleteUpstream/flush (+ foreign-shard saves) and injected API faults (conflict, transient failure, applied-but-reply-lost) the history is re-executed once per API call k with the store abandoned after call k, followed by a takeover (new store + Load); the model of acknowledged state decides what the new holder may find; write-through acknowledgements are checked against the API at once; periodic mode is checked for flush/stop. The crash index space is enumerated completely per history; histories are sampled.",
        "Trusted: client-go object tracker as the API server (wrapped to behave like the real client on errors), rapid. Real etcd / process death are replaced by abandoning the store.",
        "DESIGN.md 4/C19",
    ),
    "C10": (
        "model-based testing of create/update/delete histories on the real controller against a reference ownership map (rapid state machine)",
        "Generated-input search: histories of cluster create/update (server names drawn from a pool with case variants, keeping the admission invariant), delete and duplicate deliveries on the real UpstreamClusterController; after every event every pool name x {as is, upper case, with port} must resolve (Manager.Get, tls.Config for a ClientHello with that SNI, SNIVerifyOptions) to the model's owner or nobody. Exploration.",
        "Trusted: rapid, ECDSA test PKI, the ownership model. Real TLS handshakes and informer goroutines are replaced by library-level calls and direct event delivery.",
        "DESIGN.md 4/C10",
    ),
    "C11": (
        "differential testing against a fresh gateway over generated object-version histories incl. admission-race retries (rapid)",
        "Generated-input search: histories of valid object versions for two clusters (fields and annotations added, changed, removed, restored; deletes; duplicates) optionally followed by an admission-race episode in which a failed version is re-delivered after newer versions; the fingerprint of the live gateway (public accessors) must equal that of a fresh controller given only the latest objects. Exploration.",
        "Trusted: rapid, the fingerprint (it covers endpoints, disabled flags, routing on a probe set, schemas incl. behavioural limits, gates, logging, TLS material, server names, name resolution).",
        "DESIGN.md 4/C11",
    ),
    "C16": (
        "property-based testing of near-valid objects: totality under recover + accepted-implies-applicable through the real data plane + must-reject predicate (rapid)",
        "Generated-input search: valid objects with 0-4 random edits (junk and plausible) are validated by the real admission plugin and ValidateUpstreamCluster; a panic is a violation; every accepted object is applied (CreateClusterInfo, Sync over a previous accepted object, fresh controller sync, smoke run, limiter server handler, gateway-side remote reconcile for global strategies) and must not fail or panic; accepted objects must not fall in the must-reject classes named by the statement. Exploration.",
        "Trusted: rapid; the must-reject predicate is written from the statement's list only. Byte-level decoding is not fuzzed in the quick tier.",
        "DESIGN.md 4/C16",
    ),
    "C12": (
        "model-based testing of request sequences over hosts against per-cluster answer tables (rapid), with invocation logging per cluster; the real token-review authenticator inside the real handler chain in front of stub API servers with their own token tables",
        "Generated-input search: the real multi-cluster token-review authenticator and SAR authorizer over a stub ClientProvider with per-cluster fake kube clientsets whose answers differ for the same token / (user, attributes); sequences alternate hosts, toggle 'cannot be asked', stop+recreate clusters with new tables and re-home aliases, under cache TTLs {0, 50 ms, 10 min}; every result must be the own cluster's answer (the user name / reason carries the cluster id) and only the own cluster's API may be invoked. Exploration.",
        "Trusted: rapid, client-go fake clientset, the stub provider. Non-retried review errors only. In reviews-follow-routing a TLS handshake server name is emulated by setting req.TLS.ServerName on a loopback HTTP request (no real TLS listener).",
        "DESIGN.md 4/C12",
    ),
    "C14": (
        "property-based testing of pick sequences with a strict window oracle (explicit subset) and a bounded-deviation oracle (no subset), sequential and concurrent (rapid) + rapid-drawn schedules of concurrent pickers on a deterministic scheduler",
        "Generated-input search: k in 1..12 endpoints with scripted healthy/unhealthy/disabled states, explicit subsets in any order: every window of N consecutive picks (MatchAttributes+Pop per pick) gives each ready endpoint floor/ceil(N/r), totals with 2-8 concurrent pickers stay balanced, only ready subset members are picked; without subset 4e5 picks from 4 goroutines deviate from N/r by <= 64; pick-schedules: 2-3 logical pickers on clusterinfo.go rewritten with schedule points, 0-5 rapid-drawn pre-emptions, totals floor/ceil whatever the interleaving; picks-racing-rotation-resets: a stress plan in a child process (pickers + flapping readiness + alternating server lists) that must neither crash nor wedge. Exploration; outside pick-schedules the interleavings of the cursor update are those the Go scheduler happens to produce.",
        "Trusted: rapid, Go scheduler for the concurrent part, the constant 64 for the no-subset case (see DESIGN.md).",
        "DESIGN.md 4/C14",
    ),
    "C02": (
        "property-based testing through the real handler chain on loopback HTTP against reference impersonation semantics (rapid, round trip through a stub upstream)",
        "Generated-input search: authenticated identities with awkward bytes, every combination and casing of client Authorization / Impersonate-User / -Group / -Extra-* / other Impersonate-* headers written byte by byte on a real HTTP/1.1 connection, and authorizer deny sets; the reference semantics decide 401 / malformed / 403 / forwarded and the identity decoded by the stub upstream (as a kube-apiserver decodes it) must equal the effective identity; Authorization must be exactly the gateway credential; no other Impersonate-* header may arrive. Exploration.",
        "Trusted: rapid, net/http, the reference decoder of the impersonation protocol (case folding of extra keys, implied groups). The authenticator/authorizer are scripted stubs injected through genericapiserver.Config.",
        "DESIGN.md 4/C02",
    ),
    "C03": (
        "model-based testing of spec/health/request histories through the real chain + controller + health checks with stub upstreams that log every request and probe (rapid state machine)",
        "Generated-input search: histories of spec updates (servers, disabled flags, subsets), scripted health flips (trigger + wait), sequential requests, bursts racing with an update, triggers on disabled endpoints; every forwarded request must have reached an endpoint eligible under the model (before/after/mixed states for racing requests) and been answered by it; empty eligible set => 503 and nothing forwarded; disabled endpoints get no probe later than 300 ms after the disabling sync (probe period shortened to 20 ms by hook). Exploration.",
        "Trusted: rapid, net/http loopback, the eligibility model (health = result of the gateway's last processed probe). Connection-reset probe answers are not scripted (client-go retries them inside one probe).",
        "DESIGN.md 4/C03",
    ),
    "C04": (
        "round-trip property-based testing through the real chain + dispatcher + reverse proxy (rapid), requests written byte by byte; Status well-formedness for terminated requests",
        "Generated-input search: methods, k8s-shaped paths with escaped / unusual bytes, queries with repeated / malformed pairs, multi-valued and hop-by-hop headers, bodies up to 1 MiB (content-length / chunked) and scripted upstream replies (status 200-599, headers, bodies in flushed chunks); what the stub received must equal what was sent and what the client received must equal what the stub sent, modulo the stated allow-lists; answers of unknown length are relayed as they come (status and headers before any body byte exists, every flushed chunk before the next is sent, within 2 s); seven termination classes must yield a decodable meta/v1 Status (JSON or protobuf as negotiated) with code == HTTP status, Retry-After where stated, and no forwarding. Exploration.",
        "Trusted: rapid, net/http. Decoded-path equality; Upgrade requests, CORS headers and HTTP/2 are outside the generated domain.",
        "DESIGN.md 4/C04",
    ),
    "C15": (
        "property-based testing of removal timing plans through the real chain with streaming stub upstreams (rapid), interval oracle with generous thresholds",
        "Generated-input search: plans (remove cluster / endpoint; before the target is sent, while it waits in the authenticator between cluster resolution and dispatch, while the stub delays headers, after j streamed chunks; 0-3 bystander streams / held requests on other endpoints and clusters); the target must end at the client and at the stub within 2 s of the removal, new requests get 503 / never the removed endpoint, bystanders keep streaming for 300 ms and finish normally. Exploration; timing thresholds are an order of magnitude away from the measured behaviour (cut after < 1 ms).",
        "Trusted: rapid, net/http loopback, wall clock for the 2 s / 300 ms thresholds (harness-side timeouts are inconclusive). One listed open finding (upgraded connections are not cut): its witness prints KNOWN-FINDING; the generated targets are never upgraded connections, nothing of the search is relaxed.",
        "DESIGN.md 4/C15",
    ),
}

PENDING = {}

def main():
    here = os.path.dirname(os.path.abspath(__file__))
    props = [json.loads(l) for l in open(os.path.join(here, "properties.jsonl"))]
    hooks_commits = []
    hc = os.path.join(here, "hooks_commits.txt")
    if os.path.exists(hc):
        hooks_commits = [l.split()[0] for l in open(hc) if l.strip() and not l.startswith("#")]
    checks, na = [], []
    for p in props:
        pid = p["id"]
        if pid in CLAIMED:
            tech, text, note, ref = CLAIMED[pid]
            level = "fault_enumeration" if pid == "C19" else "exploration"
            checks.append({
                "property_id": pid,
                "quick_cmd": "./check run %s --tier quick" % pid,
                "thorough_cmd": "./check run %s --tier thorough" % pid,
                "evidence_file": "/verif/evidence/%s.json" % pid,
                "replay_cmd_template": "./check replay %s {path}" % pid,
                "engine": "harness/checks/%s" % pid.lower(),
                "level_claimed": {"category": level, "text": text, "design_ref": ref},
                "level_note": note,
                "technique": tech,
            })
        else:
            na.append({"property_id": pid, "reason": PENDING.get(pid, "no check registered yet: the property-based check for this property is still being built (see DESIGN.md section 4); nothing is claimed for it in this commit")})
    m = {
        "version": 1,
        "setup_cmd": "./check setup",
        "hooks": {
            "guard": "verif (Go build tag)",
            "enable": "go test -tags verif (the ./check driver builds every check package with -tags verif against /repo through a replace directive)",
            "baseline_off_cmd": BASELINE_OFF,
            "source_commits": hooks_commits,
            "add_only": True,
        },
        "engines": [
            {"name": "rapid-pbt", "path": "harness/checks", "serves_properties": sorted(CLAIMED), "kind_free_text": "pgregory.net/rapid v1.3.0 properties and state machines against explicit oracles; one Go test package per property, driven by ./check"},
        ],
        "checks": checks,
        "not_applicable": na,
        "notes": "All checks are generated-input searches (property-based testing / fuzzing) with explicit oracles; see DESIGN.md. Known findings: known_findings.json.",
    }
    with open(os.path.join(here, "MANIFEST.json"), "w") as f:
        json.dump(m, f, indent=1)
        f.write("\n")

if __name__ == "__main__":
    main()
