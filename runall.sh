#!/bin/bash
# development helper: run every check of a tier sequentially, print exit codes
tier=${1:-quick}
for id in $(python3 -c "import json;print(' '.join(c['property_id'] for c in json.load(open('/verif/MANIFEST.json'))['checks']))"); do
  s=$(date +%s)
  ./check run $id --tier $tier > /tmp/runall.$id.log 2>&1
  rc=$?
  echo "$id exit=$rc $(( $(date +%s) - s ))s $(grep -c '^KNOWN-FINDING' /tmp/runall.$id.log) known $(grep -c '^VIOLATION' /tmp/runall.$id.log) viol"
done
