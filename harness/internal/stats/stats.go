// Package stats collects what a check run actually covered (evaluations,
// distinct non-trivial cases, class distribution, samples) and writes it as a
// partial evidence file that the ./check driver merges across shards.
package stats

import (
	"encoding/binary"
	"encoding/json"
	"flag"
	"fmt"
	"hash/fnv"
	"io"
	"os"
	"sort"
	"strconv"
	"sync"
	"testing"
	"time"

	"k8s.io/klog"
	"pgregory.net/rapid"
)

const maxSamples = 4

// Sub is one sub-check of a property (one oracle over one generator).
type Sub struct {
	mu         sync.Mutex
	Name       string
	Rule       string
	Evals      int64
	hashes     map[uint64]struct{}
	Classes    map[string]int64
	Samples    []interface{}
	Excluded   int64
	Exhaustive bool
	Inconcl    int64
	Notes      []string
}

type registry struct {
	mu          sync.Mutex
	property    string
	subs        []*Sub
	assumptions []string
	known       []string // KNOWN-FINDING lines printed
}

var reg = &registry{}

// Property sets the property id of this test binary.
func Property(id string) { reg.property = id }

// Assume records an assumption / trusted-base item for the evidence file.
func Assume(s ...string) {
	reg.mu.Lock()
	defer reg.mu.Unlock()
	for _, x := range s {
		dup := false
		for _, y := range reg.assumptions {
			if x == y {
				dup = true
			}
		}
		if !dup {
			reg.assumptions = append(reg.assumptions, x)
		}
	}
}

// NewSub registers a sub-check.
func NewSub(name, rule string) *Sub {
	reg.mu.Lock()
	defer reg.mu.Unlock()
	for _, s := range reg.subs {
		if s.Name == name {
			return s
		}
	}
	s := &Sub{Name: name, Rule: rule, hashes: map[uint64]struct{}{}, Classes: map[string]int64{}}
	reg.subs = append(reg.subs, s)
	return s
}

// Eval counts one generated and executed case.
func (s *Sub) Eval() { s.mu.Lock(); s.Evals++; s.mu.Unlock() }

// EvalN counts n executed cases.
func (s *Sub) EvalN(n int) { s.mu.Lock(); s.Evals += int64(n); s.mu.Unlock() }

// NonTrivial records the hash of a case that is non-trivial by the stated rule.
func (s *Sub) NonTrivial(h uint64) {
	s.mu.Lock()
	if len(s.hashes) < 1_000_000 {
		s.hashes[h] = struct{}{}
	}
	s.mu.Unlock()
}

// Class increments a class counter (the distribution of generated cases).
func (s *Sub) Class(name string) { s.mu.Lock(); s.Classes[name]++; s.mu.Unlock() }

// ClassN adds n to a class counter.
func (s *Sub) ClassN(name string, n int) { s.mu.Lock(); s.Classes[name] += int64(n); s.mu.Unlock() }

// ExcludedByKnownFinding counts a case steered away from / relaxed because of a listed open finding.
func (s *Sub) ExcludedByKnownFinding() { s.mu.Lock(); s.Excluded++; s.mu.Unlock() }

// Inconclusive counts a case discarded for a harness-side reason (never a violation).
func (s *Sub) Inconclusive() { s.mu.Lock(); s.Inconcl++; s.mu.Unlock() }

// SetExhaustive marks the sub-space as completely enumerated.
func (s *Sub) SetExhaustive() { s.mu.Lock(); s.Exhaustive = true; s.mu.Unlock() }

// Note adds a free-text note (measured values etc.).
func (s *Sub) Note(format string, a ...interface{}) {
	s.mu.Lock()
	if len(s.Notes) < 20 {
		s.Notes = append(s.Notes, fmt.Sprintf(format, a...))
	}
	s.mu.Unlock()
}

// WantSample says whether another literal sample should be recorded.
func (s *Sub) WantSample() bool {
	s.mu.Lock()
	defer s.mu.Unlock()
	return len(s.Samples) < maxSamples
}

// Sample records one literal case (kept only while fewer than maxSamples are stored).
func (s *Sub) Sample(v interface{}) {
	s.mu.Lock()
	if len(s.Samples) < maxSamples {
		s.Samples = append(s.Samples, v)
	}
	s.mu.Unlock()
}

// Hash hashes a printable rendering of the values (FNV-1a 64).
func Hash(vs ...interface{}) uint64 {
	h := fnv.New64a()
	for _, v := range vs {
		fmt.Fprintf(h, "%#v|", v)
	}
	return h.Sum64()
}

// HashString hashes a string (FNV-1a 64).
func HashString(s string) uint64 {
	h := fnv.New64a()
	h.Write([]byte(s))
	return h.Sum64()
}

// Tier returns "quick" or "thorough".
func Tier() string {
	if os.Getenv("VERIF_TIER") == "thorough" {
		return "thorough"
	}
	return "quick"
}

// Thorough reports whether this is the thorough tier.
func Thorough() bool { return Tier() == "thorough" }

// N picks the case count for the current tier. VERIF_SCALE (float) scales it (development only).
func N(quick, thorough int) int {
	n := quick
	if Thorough() {
		n = thorough
	}
	if sc := os.Getenv("VERIF_SCALE"); sc != "" {
		if f, err := strconv.ParseFloat(sc, 64); err == nil && f > 0 {
			n = int(float64(n) * f)
			if n < 1 {
				n = 1
			}
		}
	}
	return n
}

// Shard returns (index, count) of this process among the shards of the run.
func Shard() (int, int) {
	i, _ := strconv.Atoi(os.Getenv("VERIF_SHARD"))
	n, _ := strconv.Atoi(os.Getenv("VERIF_NSHARDS"))
	if n < 1 {
		n = 1
	}
	return i, n
}

// Check runs a rapid property with n cases (sets -rapid.checks for this call).
func Check(t *testing.T, n int, prop func(*rapid.T)) {
	t.Helper()
	if os.Getenv("VERIF_REPLAY_ONLY") != "" {
		n = 1
	}
	if err := flag.Set("rapid.checks", strconv.Itoa(n)); err != nil {
		t.Fatalf("cannot set rapid.checks: %v", err)
	}
	rapid.Check(t, prop)
}

// KnownFinding prints the line the interface requires for a listed open finding whose witness still fails.
func KnownFinding(property, what string) {
	line := fmt.Sprintf("KNOWN-FINDING: property=%s %s", property, what)
	fmt.Println(line)
	reg.mu.Lock()
	reg.known = append(reg.known, line)
	reg.mu.Unlock()
}

type subOut struct {
	Name       string           `json:"name"`
	Rule       string           `json:"rule"`
	Evals      int64            `json:"evaluations"`
	Distinct   int              `json:"distinct_nontrivial"`
	Classes    map[string]int64 `json:"classes,omitempty"`
	Samples    []interface{}    `json:"samples,omitempty"`
	Excluded   int64            `json:"excluded_by_known_finding"`
	Exhaustive bool             `json:"exhaustive,omitempty"`
	Inconcl    int64            `json:"inconclusive,omitempty"`
	Notes      []string         `json:"notes,omitempty"`
	HashFile   string           `json:"hash_file,omitempty"`
}

type partial struct {
	Property    string   `json:"property_id"`
	Tier        string   `json:"tier"`
	Shard       int      `json:"shard"`
	WallS       float64  `json:"wall_s"`
	Subs        []subOut `json:"subs"`
	Assumptions []string `json:"assumptions"`
	Known       []string `json:"known_findings_printed,omitempty"`
	ExitCode    int      `json:"exit_code"`
}

// Main is called from TestMain of every check package.
func Main(m *testing.M) {
	start := time.Now()
	if os.Getenv("VERIF_KLOG") == "" {
		fs := flag.NewFlagSet("klog", flag.ContinueOnError)
		klog.InitFlags(fs)
		_ = fs.Set("logtostderr", "false")
		_ = fs.Set("alsologtostderr", "false")
		_ = fs.Set("stderrthreshold", "FATAL")
		klog.SetOutput(io.Discard)
	}
	code := m.Run()
	flush(code, time.Since(start))
	os.Exit(code)
}

func flush(code int, wall time.Duration) {
	out := os.Getenv("VERIF_PARTIAL")
	if out == "" {
		return
	}
	shard, _ := Shard()
	p := partial{Property: reg.property, Tier: Tier(), Shard: shard, WallS: wall.Seconds(), Assumptions: reg.assumptions, Known: reg.known, ExitCode: code}
	for i, s := range reg.subs {
		s.mu.Lock()
		so := subOut{Name: s.Name, Rule: s.Rule, Evals: s.Evals, Distinct: len(s.hashes), Classes: s.Classes, Samples: s.Samples,
			Excluded: s.Excluded, Exhaustive: s.Exhaustive, Inconcl: s.Inconcl, Notes: s.Notes}
		hs := make([]uint64, 0, len(s.hashes))
		for h := range s.hashes {
			hs = append(hs, h)
		}
		s.mu.Unlock()
		sort.Slice(hs, func(a, b int) bool { return hs[a] < hs[b] })
		hf := fmt.Sprintf("%s.sub%d.hashes", out, i)
		buf := make([]byte, 8*len(hs))
		for j, h := range hs {
			binary.LittleEndian.PutUint64(buf[8*j:], h)
		}
		if err := os.WriteFile(hf, buf, 0o644); err == nil {
			so.HashFile = hf
		}
		p.Subs = append(p.Subs, so)
	}
	b, _ := json.MarshalIndent(p, "", " ")
	_ = os.WriteFile(out, b, 0o644)
}
