//go:build verif

// Package ctlbox runs the real UpstreamClusterController without informer goroutines: objects are
// written into the informer's indexer (what the lister reads) and events are delivered through the
// verif hook VerifSync.
package ctlbox

import (
	"crypto/tls"
	"fmt"
	"sort"
	"strings"

	metav1 "k8s.io/apimachinery/pkg/apis/meta/v1"
	"k8s.io/apimachinery/pkg/types"
	"k8s.io/client-go/tools/cache"
	"k8s.io/component-base/featuregate"

	proxyv1alpha1 "github.com/kubewharf/kubegateway/pkg/apis/proxy/v1alpha1"
	gwinformers "github.com/kubewharf/kubegateway/pkg/client/informers"
	gwfake "github.com/kubewharf/kubegateway/pkg/client/kubernetes/fake"
	"github.com/kubewharf/kubegateway/pkg/clusters"
	"github.com/kubewharf/kubegateway/pkg/clusters/features"
	"github.com/kubewharf/kubegateway/pkg/gateway/controllers"
	proxyoptions "github.com/kubewharf/kubegateway/pkg/gateway/proxy/options"
	"github.com/kubewharf/kubegateway/pkg/syncqueue"
	"verifharness/internal/gen"
)

// Box is a controller with direct access to its lister's store.
type Box struct {
	Controller *controllers.UpstreamClusterController
	Indexer    cache.Indexer
	names      map[string]bool
	// uids: metadata.uid per stored name, assigned the way an API server does it: an object keeps its uid across
	// updates, an object created again after a deletion gets a new one
	uids    map[string]string
	nextUID int
}

// New builds a fresh controller (no goroutines are started).
func New() *Box {
	f := gwinformers.NewSharedInformerFactory(gwfake.NewSimpleClientset(), 0)
	inf := f.Proxy().V1alpha1().UpstreamClusters()
	c := controllers.NewUpstreamClusterController(inf, &proxyoptions.RateLimiterOptions{})
	return &Box{Controller: c, Indexer: inf.Informer().GetIndexer(), names: map[string]bool{}, uids: map[string]string{}}
}

// Store writes the object into the lister's store without delivering an event.
func (b *Box) Store(obj *proxyv1alpha1.UpstreamCluster) {
	if obj.UID == "" {
		if b.uids[obj.Name] == "" {
			b.nextUID++
			b.uids[obj.Name] = fmt.Sprintf("uid-%d", b.nextUID)
		}
		obj.UID = types.UID(b.uids[obj.Name])
	}
	if err := b.Indexer.Update(obj); err != nil {
		panic(err)
	}
	b.names[strings.ToLower(obj.Name)] = true
}

// Remove removes the object from the lister's store without delivering an event.
func (b *Box) Remove(obj *proxyv1alpha1.UpstreamCluster) {
	_ = b.Indexer.Delete(obj)
	delete(b.uids, obj.Name)
}

// Deliver hands an event object to the controller's sync handler.
func (b *Box) Deliver(obj *proxyv1alpha1.UpstreamCluster) (syncqueue.Result, error) {
	b.names[strings.ToLower(obj.Name)] = true
	return b.Controller.VerifSync(obj)
}

// Apply = Store + Deliver (add/update event).
func (b *Box) Apply(obj *proxyv1alpha1.UpstreamCluster) (syncqueue.Result, error) {
	b.Store(obj)
	return b.Deliver(obj)
}

// Delete = Remove + Deliver (delete event).
func (b *Box) Delete(obj *proxyv1alpha1.UpstreamCluster) (syncqueue.Result, error) {
	b.Remove(obj)
	return b.Deliver(obj)
}

// Close stops every cluster the controller still holds (probe goroutines, meters).
func (b *Box) Close() {
	for n := range b.names {
		if ci, ok := b.Controller.Get(n); ok {
			_ = ci.Sync(&proxyv1alpha1.UpstreamCluster{ObjectMeta: metav1.ObjectMeta{Name: ci.Cluster}}) // drops schemas (stops meters) and endpoints
			b.Controller.DeleteForServerNames(n)
			ci.Stop()
		}
	}
}

// Owner returns the cluster a host resolves to ("" if none).
func (b *Box) Owner(host string) string {
	ci, ok := b.Controller.Get(host)
	if !ok {
		return ""
	}
	return ci.Cluster
}

// Fingerprint renders the effective configuration of a cluster through public accessors only.
func Fingerprint(ci *clusters.ClusterInfo, probes []gen.Request, schemaNames []string) string {
	var sb strings.Builder
	eps := ci.AllEndpoints()
	sort.Strings(eps)
	for _, e := range eps {
		info, _ := ci.Endpoints.Load(e)
		fmt.Fprintf(&sb, "ep %s disabled=%v\n", e, info.IstDisabled())
	}
	for _, p := range probes {
		picker, err := ci.MatchAttributes(p.Attributes())
		if err != nil {
			fmt.Fprintf(&sb, "probe %s -> %v\n", p, err == clusters.ErrNoRouterRuleMatches)
			continue
		}
		fmt.Fprintf(&sb, "probe %s -> fc=%s log=%v flow=%s\n", p, picker.FlowControlName(), picker.EnableLog(), picker.FlowControl().String())
	}
	for _, n := range schemaNames {
		fc := ci.GetFlowSchema(n)
		fmt.Fprintf(&sb, "schema %s: %s type=%s limit=%d\n", n, fc.String(), fc.Type(), behaviouralLimit(ci, n))
	}
	for _, g := range []featuregate.Feature{features.GlobalRateLimiter, features.DenyAllRequests, features.Tracing, features.CloseConnectionWhenIdle} {
		fmt.Fprintf(&sb, "gate %s=%v\n", g, ci.FeatureEnabled(g))
	}
	fmt.Fprintf(&sb, "serverNames %q\n", ci.LoadServerNames())
	if cfg, ok := ci.LoadTLSConfig(); ok {
		fmt.Fprintf(&sb, "tls %s\n", TLSFingerprint(cfg))
	} else {
		sb.WriteString("tls none\n")
	}
	if vo, ok := ci.LoadVerifyOptions(); ok {
		fmt.Fprintf(&sb, "verify roots=%q\n", vo.Roots.Subjects()) //nolint
	} else {
		sb.WriteString("verify none\n")
	}
	return sb.String()
}

// TLSFingerprint renders certificates and client-CA subjects of a tls.Config.
func TLSFingerprint(cfg *tls.Config) string {
	var parts []string
	for _, c := range cfg.Certificates {
		if len(c.Certificate) > 0 {
			parts = append(parts, fmt.Sprintf("cert:%x", c.Certificate[0][len(c.Certificate[0])-8:]))
		}
	}
	if cfg.ClientCAs != nil {
		parts = append(parts, fmt.Sprintf("clientCAs:%q", cfg.ClientCAs.Subjects())) //nolint
	}
	return strings.Join(parts, " ")
}

// behaviouralLimit counts how many acquisitions succeed from empty (capped), then releases them.
func behaviouralLimit(ci *clusters.ClusterInfo, schema string) int {
	fc := ci.GetFlowSchema(schema)
	if fc.Type() != proxyv1alpha1.MaxRequestsInflight {
		return -1
	}
	n := 0
	for n < 64 && fc.TryAcquire() {
		n++
	}
	for i := 0; i < n; i++ {
		fc.Release()
	}
	return n
}
