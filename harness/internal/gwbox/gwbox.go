//go:build verif

// Package gwbox is the "gateway in a box": the real proxy handler chain (built by the verif hook from
// buildProxyHandlerChainFunc) on a loopback HTTP server, the real UpstreamClusterController and cluster
// manager, real per-endpoint transports and the real GatewayHealthCheck, in front of stub upstream servers
// that log every request / probe and answer from a script.
package gwbox

import (
	"bytes"
	"context"
	"crypto/sha256"
	"crypto/tls"
	"encoding/json"
	"fmt"
	"io"
	"net"
	"net/http"
	"net/http/httptest"
	"strings"
	"sync"
	"sync/atomic"
	"time"

	"github.com/kubewharf/apiserver-runtime/pkg/scheme"
	"k8s.io/apimachinery/pkg/util/sets"
	utilwaitgroup "k8s.io/apimachinery/pkg/util/waitgroup"
	"k8s.io/apiserver/pkg/authentication/authenticator"
	"k8s.io/apiserver/pkg/authentication/user"
	"k8s.io/apiserver/pkg/authorization/authorizer"
	apirequest "k8s.io/apiserver/pkg/endpoints/request"
	genericapiserver "k8s.io/apiserver/pkg/server"
	genericfilters "k8s.io/apiserver/pkg/server/filters"

	"github.com/kubewharf/kubegateway/cmd/kube-gateway/app"
	proxyv1alpha1 "github.com/kubewharf/kubegateway/pkg/apis/proxy/v1alpha1"
	tokenwebhook "github.com/kubewharf/kubegateway/pkg/gateway/authentication/token/webhook"
	_ "github.com/kubewharf/kubegateway/pkg/gateway/controlplane" // scheme
	"k8s.io/apiserver/pkg/authentication/request/bearertoken"
	"verifharness/internal/ctlbox"
)

// IDHeader carries the harness request id end to end.
const IDHeader = "X-Verif-Id"

// Seen is what a stub upstream recorded for one proxied request.
type Seen struct {
	Upstream   int
	ID         string
	Method     string
	Path       string // decoded
	RawPath    string // escaped form as received (EscapedPath)
	RawQuery   string
	Header     http.Header
	Host       string
	Body       []byte
	BodySHA    [32]byte
	At         time.Time
	CtxDoneAt  time.Time // when the request context died while the handler was still running (zero if not)
	FinishedAt time.Time
	UpgradeIn  []byte // bytes received on the connection after a 101 answer
}

// Reply scripts the answer of a stub upstream for one request id.
type Reply struct {
	Status int
	Header http.Header
	Body   []byte
	Chunks int           // >1: body is written in that many flushed chunks
	Hold   chan struct{} // if non-nil the handler waits for it (or for the request context) before answering
	Stream bool          // stream chunks every StreamEvery until Hold is closed or the context dies
	Every  time.Duration
	// Steps (with Stream): status and headers are written and flushed at once; then every value received from Steps
	// is written as one flushed chunk (the harness decides when the upstream sends what); closing Hold ends the stream
	Steps   chan []byte
	Reset   bool          // hijack and close the connection after writing headers + half the body
	Upgrade string        // non-empty: an upgrade request is answered 101 with this protocol; Body is sent first, then every byte received is echoed XOR 0x5a
	started chan struct{} // closed when the handler has started
}

// Upstream is one stub upstream API server.
type Upstream struct {
	Index   int
	Server  *httptest.Server
	URL     string
	healthy int32 // HTTP status of /healthz (0 = hang up)
	// healthBody: what /healthz answers with ("" = the text "ok"); e.g. a JSON Status object, as an apiserver
	// answers failed requests
	healthBody atomic.Value
	// healthHold: when it holds a channel, a /healthz probe is answered only after that channel is closed (the probe is
	// "on the wire" meanwhile), then with the status in force at that moment
	healthHold atomic.Value
	// tokens: what this upstream's API server answers to TokenReviews (token -> user name; absent = not authenticated)
	tokens  map[string]string
	reviews []string // tokens it was asked to review, in order
	mu      sync.Mutex
	seen    map[string]*Seen
	order   []string
	probes  []time.Time
	box     *Pool
}

// Pool is the process-wide set of stub upstreams.
type Pool struct {
	Upstreams []*Upstream
	mu        sync.Mutex
	replies   map[string]*Reply
}

// NewPool starts n stub upstreams.
func NewPool(n int) *Pool {
	p := &Pool{replies: map[string]*Reply{}}
	for i := 0; i < n; i++ {
		u := &Upstream{Index: i, seen: map[string]*Seen{}, healthy: 200, box: p}
		u.Server = httptest.NewServer(http.HandlerFunc(u.serve))
		u.URL = u.Server.URL
		p.Upstreams = append(p.Upstreams, u)
	}
	return p
}

// SetReply registers the scripted answer for a request id.
func (p *Pool) SetReply(id string, r *Reply) {
	r.started = make(chan struct{})
	p.mu.Lock()
	p.replies[id] = r
	p.mu.Unlock()
}

// Forget drops the script and records of a request id.
func (p *Pool) Forget(id string) {
	p.mu.Lock()
	delete(p.replies, id)
	p.mu.Unlock()
	for _, u := range p.Upstreams {
		u.mu.Lock()
		delete(u.seen, id)
		u.mu.Unlock()
	}
}

// Started returns a channel closed when some upstream started handling the id.
func (p *Pool) Started(id string) <-chan struct{} {
	p.mu.Lock()
	defer p.mu.Unlock()
	if r := p.replies[id]; r != nil {
		return r.started
	}
	return nil
}

// Find returns which upstreams saw the id.
func (p *Pool) Find(id string) []*Seen {
	var out []*Seen
	for _, u := range p.Upstreams {
		u.mu.Lock()
		if s, ok := u.seen[id]; ok {
			c := *s
			out = append(out, &c)
		}
		u.mu.Unlock()
	}
	return out
}

// SetHealth sets the /healthz status of an upstream (200 healthy, 500 unhealthy, 0 hang up, -1 accept and never answer, -2 answer 200 and stall in the body).
func (u *Upstream) SetHealth(status int) { atomic.StoreInt32(&u.healthy, int32(status)) }

// SetTokens sets the bearer tokens this upstream's API server accepts (token -> user name).
func (u *Upstream) SetTokens(t map[string]string) {
	u.mu.Lock()
	u.tokens, u.reviews = t, nil
	u.mu.Unlock()
}

// Reviews returns the tokens this upstream was asked to review.
func (u *Upstream) Reviews() []string {
	u.mu.Lock()
	defer u.mu.Unlock()
	return append([]string{}, u.reviews...)
}

// SetHealthHold makes the stub keep probes unanswered until ch is closed (nil: answer at once).
func (u *Upstream) SetHealthHold(ch chan struct{}) { u.healthHold.Store(&ch) }

// SetHealthBody sets the body (and, when it starts with '{', the JSON content type) of the /healthz answers.
func (u *Upstream) SetHealthBody(body string) { u.healthBody.Store(body) }

// Probes returns the arrival times of /healthz probes.
func (u *Upstream) Probes() []time.Time {
	u.mu.Lock()
	defer u.mu.Unlock()
	return append([]time.Time{}, u.probes...)
}

// ProxiedIDs returns the ids of proxied requests in arrival order.
func (u *Upstream) ProxiedIDs() []string {
	u.mu.Lock()
	defer u.mu.Unlock()
	return append([]string{}, u.order...)
}

func (u *Upstream) serve(w http.ResponseWriter, r *http.Request) {
	if r.URL.Path == "/healthz" && r.Header.Get(IDHeader) == "" {
		u.mu.Lock()
		u.probes = append(u.probes, time.Now())
		u.mu.Unlock()
		if hp, _ := u.healthHold.Load().(*chan struct{}); hp != nil && *hp != nil {
			select {
			case <-*hp:
			case <-r.Context().Done():
				return
			}
		}
		st := int(atomic.LoadInt32(&u.healthy))
		if st == -2 {
			// the response starts (status line and headers reach the prober) and then the body stalls
			w.WriteHeader(200)
			if f, ok := w.(http.Flusher); ok {
				f.Flush()
			}
			<-r.Context().Done()
			return
		}
		if st < 0 {
			// the probe is accepted and never answered (a hung upstream): wait for the prober to give up
			<-r.Context().Done()
			return
		}
		if st == 0 {
			if hj, ok := w.(http.Hijacker); ok {
				c, _, _ := hj.Hijack()
				if c != nil {
					c.Close()
				}
			}
			return
		}
		body, _ := u.healthBody.Load().(string)
		if body == "" {
			body = "ok"
		} else if body[0] == '{' {
			w.Header().Set("Content-Type", "application/json")
		}
		w.WriteHeader(st)
		_, _ = w.Write([]byte(body))
		return
	}
	if r.Method == "POST" && strings.HasSuffix(r.URL.Path, "/tokenreviews") {
		// the API server's answer to a TokenReview (what the gateway's multi-cluster token authenticator asks)
		var tr struct {
			APIVersion string `json:"apiVersion"`
			Kind       string `json:"kind"`
			Spec       struct {
				Token string `json:"token"`
			} `json:"spec"`
			Status struct {
				Authenticated bool `json:"authenticated"`
				User          struct {
					Username string `json:"username"`
				} `json:"user"`
			} `json:"status"`
		}
		b, _ := io.ReadAll(r.Body)
		_ = json.Unmarshal(b, &tr)
		u.mu.Lock()
		u.reviews = append(u.reviews, tr.Spec.Token)
		name, ok := u.tokens[tr.Spec.Token]
		u.mu.Unlock()
		tr.Kind = "TokenReview"
		if tr.APIVersion == "" {
			tr.APIVersion = "authentication.k8s.io/v1"
		}
		tr.Status.Authenticated, tr.Status.User.Username = ok, name
		out, _ := json.Marshal(tr)
		w.Header().Set("Content-Type", "application/json")
		w.WriteHeader(201)
		_, _ = w.Write(out)
		return
	}
	id := r.Header.Get(IDHeader)
	body, _ := io.ReadAll(r.Body)
	s := &Seen{Upstream: u.Index, ID: id, Method: r.Method, Path: r.URL.Path, RawPath: r.URL.EscapedPath(), RawQuery: r.URL.RawQuery, Header: r.Header.Clone(), Host: r.Host, Body: body, BodySHA: sha256.Sum256(body), At: time.Now()}
	u.mu.Lock()
	u.seen[id] = s
	u.order = append(u.order, id)
	u.mu.Unlock()
	u.box.mu.Lock()
	rep := u.box.replies[id]
	u.box.mu.Unlock()
	defer func() {
		u.mu.Lock()
		s.FinishedAt = time.Now()
		u.mu.Unlock()
	}()
	if rep == nil {
		w.Header().Set("X-Verif-Upstream", fmt.Sprint(u.Index))
		w.WriteHeader(200)
		_, _ = w.Write([]byte("default-reply-from-" + fmt.Sprint(u.Index)))
		return
	}
	select {
	case <-rep.started:
	default:
		close(rep.started)
	}
	markDone := func() {
		u.mu.Lock()
		if s.CtxDoneAt.IsZero() {
			s.CtxDoneAt = time.Now()
		}
		u.mu.Unlock()
	}
	if rep.Upgrade != "" && r.Header.Get("Upgrade") != "" {
		hj, ok := w.(http.Hijacker)
		if !ok {
			w.WriteHeader(500)
			return
		}
		c, brw, err := hj.Hijack()
		if err != nil {
			return
		}
		defer c.Close()
		fmt.Fprintf(brw, "HTTP/1.1 101 Switching Protocols\r\nConnection: Upgrade\r\nUpgrade: %s\r\nX-Verif-Upstream: %d\r\n", rep.Upgrade, u.Index)
		for k, vv := range rep.Header {
			for _, v := range vv {
				fmt.Fprintf(brw, "%s: %s\r\n", k, v)
			}
		}
		brw.WriteString("\r\n")
		brw.Write(rep.Body)
		brw.Flush()
		buf := make([]byte, 4096)
		for {
			_ = c.SetReadDeadline(time.Now().Add(30 * time.Second))
			n, err := brw.Read(buf)
			if n > 0 {
				u.mu.Lock()
				s.UpgradeIn = append(s.UpgradeIn, buf[:n]...)
				u.mu.Unlock()
				out := make([]byte, n)
				for i := 0; i < n; i++ {
					out[i] = buf[i] ^ 0x5a
				}
				if _, werr := c.Write(out); werr != nil {
					markDone()
					return
				}
			}
			if err != nil {
				markDone()
				return
			}
		}
	}
	if rep.Hold != nil && !rep.Stream {
		select {
		case <-rep.Hold:
		case <-r.Context().Done():
			markDone()
			return
		}
	}
	for k, vv := range rep.Header {
		for _, v := range vv {
			w.Header().Add(k, v)
		}
	}
	w.Header().Set("X-Verif-Upstream", fmt.Sprint(u.Index))
	status := rep.Status
	if status == 0 {
		status = 200
	}
	if rep.Stream && rep.Steps != nil {
		w.WriteHeader(status)
		fl, _ := w.(http.Flusher)
		if fl != nil {
			fl.Flush()
		}
		for {
			select {
			case b := <-rep.Steps:
				if _, err := w.Write(b); err != nil {
					markDone()
					return
				}
				if fl != nil {
					fl.Flush()
				}
			case <-rep.Hold:
				return
			case <-r.Context().Done():
				markDone()
				return
			}
		}
	}
	if rep.Stream {
		w.WriteHeader(status)
		fl, _ := w.(http.Flusher)
		every := rep.Every
		if every == 0 {
			every = 20 * time.Millisecond
		}
		for i := 0; ; i++ {
			if _, err := fmt.Fprintf(w, "chunk-%d\n", i); err != nil {
				markDone()
				return
			}
			if fl != nil {
				fl.Flush()
			}
			select {
			case <-rep.Hold:
				return
			case <-r.Context().Done():
				markDone()
				return
			case <-time.After(every):
			}
		}
	}
	if rep.Reset {
		w.Header().Set("Content-Length", fmt.Sprint(len(rep.Body)+10))
		w.WriteHeader(status)
		_, _ = w.Write(rep.Body[:len(rep.Body)/2])
		if fl, ok := w.(http.Flusher); ok {
			fl.Flush()
		}
		if hj, ok := w.(http.Hijacker); ok {
			c, _, _ := hj.Hijack()
			if c != nil {
				c.Close()
			}
		}
		return
	}
	w.WriteHeader(status)
	if rep.Chunks > 1 && len(rep.Body) > rep.Chunks {
		fl, _ := w.(http.Flusher)
		step := len(rep.Body) / rep.Chunks
		for off := 0; off < len(rep.Body); off += step {
			end := off + step
			if end > len(rep.Body) {
				end = len(rep.Body)
			}
			_, _ = w.Write(rep.Body[off:end])
			if fl != nil {
				fl.Flush()
			}
		}
		return
	}
	_, _ = w.Write(rep.Body)
}

// ---- gateway -------------------------------------------------------------------------------------------

// Identity is what the scripted authenticator returns for a bearer token.
type Identity struct {
	Name   string
	Groups []string
	Extra  map[string][]string
}

// Gateway is the real handler chain on a loopback server.
type Gateway struct {
	Box    *ctlbox.Box
	Server *httptest.Server
	URL    string
	Addr   string

	mu     sync.Mutex
	tokens map[string]Identity
	// Authorize decides every authorizer call (impersonation checks); nil = allow everything.
	Authorize func(a authorizer.Attributes) (authorizer.Decision, string, error)
	// AuthzLog records the impersonation attribute records the authorizer was asked about.
	AuthzLog []authorizer.AttributesRecord
	// Outer wraps the chain (e.g. to inject a panic into the response writer); may be nil.
	Outer func(http.Handler) http.Handler
	// parks: requests (by harness id) that the authenticator holds until released (a slow token review)
	parks map[string]*park
}

type park struct {
	parked  chan struct{}
	release chan struct{}
	once    sync.Once
}

// ParkInAuthn makes the authenticator hold the request with the given harness id - the way a slow token-review webhook
// does - until release is called (or the request is cancelled). parked is closed when the request has arrived there.
func (g *Gateway) ParkInAuthn(id string) (parked <-chan struct{}, release func()) {
	p := &park{parked: make(chan struct{}), release: make(chan struct{})}
	g.mu.Lock()
	if g.parks == nil {
		g.parks = map[string]*park{}
	}
	g.parks[id] = p
	g.mu.Unlock()
	var once sync.Once
	return p.parked, func() { once.Do(func() { close(p.release) }) }
}

// SetToken maps a bearer token to an identity.
func (g *Gateway) SetToken(token string, id Identity) {
	g.mu.Lock()
	g.tokens[token] = id
	g.mu.Unlock()
}

type authn struct{ g *Gateway }

func (a authn) AuthenticateRequest(req *http.Request) (*authenticator.Response, bool, error) {
	if id := req.Header.Get(IDHeader); id != "" {
		a.g.mu.Lock()
		p := a.g.parks[id]
		a.g.mu.Unlock()
		if p != nil {
			p.once.Do(func() { close(p.parked) })
			select {
			case <-p.release:
			case <-req.Context().Done():
			}
		}
	}
	h := req.Header.Get("Authorization")
	if !strings.HasPrefix(h, "Bearer ") {
		return nil, false, nil
	}
	a.g.mu.Lock()
	id, ok := a.g.tokens[strings.TrimPrefix(h, "Bearer ")]
	a.g.mu.Unlock()
	if !ok {
		return nil, false, nil
	}
	return &authenticator.Response{User: &user.DefaultInfo{Name: id.Name, Groups: id.Groups, Extra: id.Extra}}, true, nil
}

type authz struct{ g *Gateway }

func (a authz) Authorize(ctx context.Context, attrs authorizer.Attributes) (authorizer.Decision, string, error) {
	rec := authorizer.AttributesRecord{User: attrs.GetUser(), Verb: attrs.GetVerb(), APIGroup: attrs.GetAPIGroup(), APIVersion: attrs.GetAPIVersion(), Namespace: attrs.GetNamespace(),
		Resource: attrs.GetResource(), Subresource: attrs.GetSubresource(), Name: attrs.GetName(), ResourceRequest: attrs.IsResourceRequest(), Path: attrs.GetPath()}
	a.g.mu.Lock()
	a.g.AuthzLog = append(a.g.AuthzLog, rec)
	f := a.g.Authorize
	a.g.mu.Unlock()
	if f == nil {
		return authorizer.DecisionAllow, "", nil
	}
	return f(attrs)
}

// SNIHeader: a request carrying this harness header is handed to the chain as if it had arrived on a TLS connection
// whose handshake named that server (req.TLS.ServerName); the header itself is removed.
const SNIHeader = "X-Verif-Sni"

// NewGatewayWithTokenReviews is NewGateway with the gateway's REAL multi-cluster token-review authenticator (no caching)
// instead of the scripted one: a bearer token is reviewed by the API server of the cluster the request's host names.
func NewGatewayWithTokenReviews() *Gateway { return newGateway(true) }

// NewGateway builds the chain around a fresh controller.
func NewGateway() *Gateway { return newGateway(false) }

func newGateway(realTokenReviews bool) *Gateway {
	g := &Gateway{Box: ctlbox.New(), tokens: map[string]Identity{}}
	cfg := &genericapiserver.Config{}
	cfg.Serializer = scheme.Codecs
	cfg.LongRunningFunc = genericfilters.BasicLongRunningRequestCheck(sets.NewString("watch", "proxy"), sets.NewString("attach", "exec", "proxy", "log", "portforward"))
	cfg.LegacyAPIGroupPrefixes = sets.NewString(genericapiserver.DefaultLegacyAPIPrefix)
	cfg.RequestInfoResolver = genericapiserver.NewRequestInfoResolver(cfg)
	cfg.HandlerChainWaitGroup = new(utilwaitgroup.SafeWaitGroup)
	cfg.Authentication.Authenticator = authn{g}
	if realTokenReviews {
		cfg.Authentication.Authenticator = bearertoken.New(tokenwebhook.NewMultiClusterTokenReviewAuthenticator(g.Box.Controller, 0, 0, nil))
	}
	cfg.Authorization.Authorizer = authz{g}
	apiHandler := http.HandlerFunc(func(w http.ResponseWriter, r *http.Request) {
		w.WriteHeader(http.StatusTeapot)
		_, _ = w.Write([]byte("fell through to the control plane handler"))
	})
	chain := app.VerifBuildProxyHandlerChain(apiHandler, cfg, g.Box.Controller, false)
	g.Server = httptest.NewUnstartedServer(http.HandlerFunc(func(w http.ResponseWriter, r *http.Request) {
		h := chain
		g.mu.Lock()
		outer := g.Outer
		g.mu.Unlock()
		if outer != nil {
			h = outer(chain)
		}
		if sni := r.Header.Get(SNIHeader); sni != "" {
			r.Header.Del(SNIHeader)
			r.TLS = &tls.ConnectionState{ServerName: sni, HandshakeComplete: true, Version: tls.VersionTLS12}
		}
		if r.Header.Get("X-Verif-Panic") != "" {
			// outermost harness wrapper: the response writer panics on the first body write, the way a broken
			// writer / handler bug would; net/http recovers the panic and closes the connection
			w = &panicWriter{ResponseWriter: w}
		}
		h.ServeHTTP(w, r)
	}))
	g.Server.Start()
	g.URL = g.Server.URL
	g.Addr = g.Server.Listener.Addr().String()
	return g
}

// Close stops the gateway and every cluster.
func (g *Gateway) Close() {
	g.Server.CloseClientConnections()
	g.Server.Close()
	g.Box.Close()
}

// ClusterObject builds a valid UpstreamCluster over stub upstreams (plain HTTP), one catch-all policy.
func ClusterObject(name string, token string, ups ...*Upstream) *proxyv1alpha1.UpstreamCluster {
	c := &proxyv1alpha1.UpstreamCluster{}
	c.Name = name
	for _, u := range ups {
		c.Spec.Servers = append(c.Spec.Servers, proxyv1alpha1.UpstreamClusterServer{Endpoint: u.URL})
	}
	c.Spec.ClientConfig.BearerToken = []byte(token)
	c.Spec.DispatchPolicies = []proxyv1alpha1.DispatchPolicy{{Strategy: proxyv1alpha1.RoundRobin, Rules: []proxyv1alpha1.DispatchPolicyRule{{Verbs: []string{"*"}, APIGroups: []string{"*"}, Resources: []string{"*"}, NonResourceURLs: []string{"*"}}}}}
	return c
}

// WaitReady triggers probes and waits until the readiness of every endpoint of the cluster equals want(endpoint).
func (g *Gateway) WaitReady(cluster string, want func(endpoint string) bool, d time.Duration) bool {
	deadline := time.Now().Add(d)
	for {
		ci, ok := g.Box.Controller.Get(cluster)
		if ok {
			all := true
			for _, e := range ci.AllEndpoints() {
				info, ok := ci.Endpoints.Load(e)
				if !ok {
					continue
				}
				if info.IsReady() != want(e) {
					all = false
					if !info.IstDisabled() {
						info.TriggerHealthCheck()
					}
				}
			}
			if all {
				return true
			}
		}
		if time.Now().After(deadline) {
			return false
		}
		time.Sleep(2 * time.Millisecond)
	}
}

// RawRequest describes a client request written byte by byte on a fresh connection.
type RawRequest struct {
	Method  string
	Target  string // request-target as written on the wire (path?query, already escaped)
	Host    string
	Headers [][2]string // in order, names as written
	Body    []byte
	Chunked bool
	// Upgrade: non-empty sends "Connection: Upgrade" + "Upgrade: <value>"; after a 101 answer the UpgradeWrites are
	// written one by one and UpgradeExpect bytes are read back
	Upgrade       string
	UpgradeWrites [][]byte
	UpgradeExpect int
}

// Response is what the client got.
type Response struct {
	Status   int
	Header   http.Header
	Body     []byte
	Err      error
	Upgraded []byte // bytes read after a 101 answer
}

// Do writes the request on a new TCP connection to the gateway and reads one response.
func (g *Gateway) Do(ctx context.Context, r RawRequest) Response {
	var d net.Dialer
	conn, err := d.DialContext(ctx, "tcp", g.Addr)
	if err != nil {
		return Response{Err: err}
	}
	defer conn.Close()
	if dl, ok := ctx.Deadline(); ok {
		_ = conn.SetDeadline(dl)
	} else {
		_ = conn.SetDeadline(time.Now().Add(30 * time.Second))
	}
	go func() {
		<-ctx.Done()
		conn.Close()
	}()
	var buf bytes.Buffer
	fmt.Fprintf(&buf, "%s %s HTTP/1.1\r\n", r.Method, r.Target)
	fmt.Fprintf(&buf, "Host: %s\r\n", r.Host)
	for _, h := range r.Headers {
		fmt.Fprintf(&buf, "%s: %s\r\n", h[0], h[1])
	}
	if r.Chunked {
		buf.WriteString("Transfer-Encoding: chunked\r\n")
	} else if len(r.Body) > 0 || r.Method == "POST" || r.Method == "PUT" || r.Method == "PATCH" {
		fmt.Fprintf(&buf, "Content-Length: %d\r\n", len(r.Body))
	}
	if r.Upgrade != "" {
		fmt.Fprintf(&buf, "Connection: Upgrade\r\nUpgrade: %s\r\n\r\n", r.Upgrade)
	} else {
		buf.WriteString("Connection: close\r\n\r\n")
	}
	if r.Chunked {
		for off := 0; off < len(r.Body); {
			n := 1000
			if off+n > len(r.Body) {
				n = len(r.Body) - off
			}
			fmt.Fprintf(&buf, "%x\r\n", n)
			buf.Write(r.Body[off : off+n])
			buf.WriteString("\r\n")
			off += n
		}
		buf.WriteString("0\r\n\r\n")
	} else {
		buf.Write(r.Body)
	}
	if _, err := conn.Write(buf.Bytes()); err != nil {
		return Response{Err: err}
	}
	br := newReader(conn)
	resp, err := http.ReadResponse(br, &http.Request{Method: r.Method})
	if err != nil {
		return Response{Err: err}
	}
	defer resp.Body.Close()
	if r.Upgrade != "" && resp.StatusCode == http.StatusSwitchingProtocols {
		out := Response{Status: resp.StatusCode, Header: resp.Header}
		werr := make(chan error, 1)
		go func() {
			for _, w := range r.UpgradeWrites {
				if _, err := conn.Write(w); err != nil {
					werr <- err
					return
				}
			}
			werr <- nil
		}()
		got := make([]byte, r.UpgradeExpect)
		n, rerr := io.ReadFull(br, got)
		out.Upgraded = got[:n]
		if rerr != nil {
			out.Err = rerr
		} else if e := <-werr; e != nil {
			out.Err = e
		}
		return out
	}
	body, rerr := io.ReadAll(resp.Body)
	return Response{Status: resp.StatusCode, Header: resp.Header, Body: body, Err: rerr}
}

var _ = apirequest.NewContext

type panicWriter struct{ http.ResponseWriter }

func (p *panicWriter) Write(b []byte) (int, error) { panic(http.ErrAbortHandler) }
