//go:build verif

package gwbox

import (
	"bufio"
	"io"
)

func newReader(r io.Reader) *bufio.Reader { return bufio.NewReaderSize(r, 64<<10) }
