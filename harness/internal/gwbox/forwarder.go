//go:build verif

package gwbox

import (
	"io"
	"net"
	"strings"
	"sync"
)

// Forwarder is a TCP forwarder in front of a stub upstream that can be made to REFUSE connections (its listener is
// closed) and to accept them again on the same port: an API server that has just died, or is back.
type Forwarder struct {
	addr   string
	target string
	mu     sync.Mutex
	ln     net.Listener
}

// NewForwarder listens on a loopback port and forwards to the upstream's address.
func NewForwarder(u *Upstream) *Forwarder {
	ln, err := net.Listen("tcp", "127.0.0.1:0")
	if err != nil {
		panic(err)
	}
	f := &Forwarder{addr: ln.Addr().String(), target: strings.TrimPrefix(u.URL, "http://"), ln: ln}
	go f.accept(ln)
	return f
}

// URL is the endpoint URL to put into a cluster's server list.
func (f *Forwarder) URL() string { return "http://" + f.addr }

func (f *Forwarder) accept(ln net.Listener) {
	for {
		c, err := ln.Accept()
		if err != nil {
			return
		}
		go func() {
			defer c.Close()
			t, err := net.Dial("tcp", f.target)
			if err != nil {
				return
			}
			defer t.Close()
			done := make(chan struct{}, 2)
			go func() { _, _ = io.Copy(t, c); done <- struct{}{} }()
			go func() { _, _ = io.Copy(c, t); done <- struct{}{} }()
			<-done
		}()
	}
}

// Refuse closes the listener (new connections are refused; established ones go on) or opens it again.
func (f *Forwarder) Refuse(on bool) {
	f.mu.Lock()
	defer f.mu.Unlock()
	if on && f.ln != nil {
		_ = f.ln.Close()
		f.ln = nil
		return
	}
	if !on && f.ln == nil {
		ln, err := net.Listen("tcp", f.addr)
		if err != nil {
			return
		}
		f.ln = ln
		go f.accept(ln)
	}
}

// Close stops the forwarder.
func (f *Forwarder) Close() { f.Refuse(true) }
