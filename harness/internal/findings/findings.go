// Package findings reads /verif/known_findings.json (never written at run time).
package findings

import (
	"encoding/json"
	"os"
	"sync"
)

// Finding is one entry of known_findings.json.
type Finding struct {
	ID        string `json:"id"`
	Property  string `json:"property"`
	Status    string `json:"status"` // "open" or "fixed"
	What      string `json:"what"`
	Signature string `json:"signature,omitempty"`
	Commit    string `json:"commit,omitempty"`
	Text      string `json:"text,omitempty"`
}

type file struct {
	Findings []Finding `json:"findings"`
}

var (
	once sync.Once
	all  []Finding
)

func load() {
	path := os.Getenv("VERIF_KNOWN_FINDINGS")
	if path == "" {
		path = "/verif/known_findings.json"
	}
	b, err := os.ReadFile(path)
	if err != nil {
		return
	}
	var f file
	if json.Unmarshal(b, &f) == nil {
		all = f.Findings
	}
}

// All returns every listed finding.
func All() []Finding { once.Do(load); return all }

// Open reports whether a finding with this id is listed as open.
func Open(id string) bool {
	for _, f := range All() {
		if f.ID == id && f.Status == "open" {
			return true
		}
	}
	return false
}

// Get returns the finding with the id, if listed.
func Get(id string) (Finding, bool) {
	for _, f := range All() {
		if f.ID == id {
			return f, true
		}
	}
	return Finding{}, false
}
