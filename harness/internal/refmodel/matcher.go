// Package refmodel holds the reference models the checks compare kubegateway with.
// They are written from docs/en/design.md and the property statements, not from the code.
package refmodel

import (
	"strings"

	proxyv1alpha1 "github.com/kubewharf/kubegateway/pkg/apis/proxy/v1alpha1"
	"verifharness/internal/gen"
)

// listMatch implements the documented list semantics over a per-entry positive
// match predicate:
//
//	'*' present                  -> true
//	at least one positive entry  -> some positive entry matches ('-' entries ignored)
//	only '-' entries             -> NOT (the corresponding positive list matches)
//	empty list                   -> emptyDefault
//
// invertible=false (nonResourceURLs): '-' entries are never used for matching.
func listMatch(list []string, emptyDefault bool, invertible bool, pos func(entry string) bool) bool {
	if len(list) == 0 {
		return emptyDefault
	}
	var positives, inverted []string
	for _, e := range list {
		if e == "*" {
			return true
		}
		if strings.HasPrefix(e, "-") {
			inverted = append(inverted, e[1:])
		} else {
			positives = append(positives, e)
		}
	}
	if len(positives) > 0 {
		for _, p := range positives {
			if pos(p) {
				return true
			}
		}
		return false
	}
	if !invertible {
		return false
	}
	// inverted only: complement of the corresponding positive list
	for _, q := range inverted {
		if q == "*" || pos(q) {
			return false
		}
	}
	return true
}

func globMatch(entry, s string) bool {
	if entry == s {
		return true
	}
	if strings.HasSuffix(entry, "*") {
		return strings.HasPrefix(s, strings.TrimRight(entry, "*"))
	}
	return false
}

// RuleMatches is the reference for one rule.
func RuleMatches(req gen.Request, r *proxyv1alpha1.DispatchPolicyRule) bool {
	eq := func(v string) func(string) bool { return func(e string) bool { return e == v } }

	if !listMatch(r.Verbs, false, true, eq(req.Verb)) {
		return false
	}
	// users / service accounts
	userOK := false
	if len(r.Users) == 0 && len(r.ServiceAccounts) == 0 {
		userOK = true
	} else {
		if listMatch(r.Users, false, true, func(e string) bool { return globMatch(e, req.User) }) {
			userOK = true
		}
		for _, sa := range r.ServiceAccounts {
			if sa.Namespace == "" || sa.Name == "" {
				continue
			}
			if "system:serviceaccount:"+sa.Namespace+":"+sa.Name == req.User {
				userOK = true
			}
		}
	}
	if !userOK {
		return false
	}
	if !listMatch(r.UserGroups, true, true, func(e string) bool {
		for _, g := range req.Groups {
			if g == e {
				return true
			}
		}
		return false
	}) {
		return false
	}

	if req.Resource {
		combined := req.Res
		if req.Subresource != "" {
			combined = req.Res + "/" + req.Subresource
		}
		return listMatch(r.APIGroups, false, true, eq(req.APIGroup)) &&
			listMatch(r.Resources, false, true, func(e string) bool {
				if e == combined {
					return true
				}
				return req.Subresource != "" && e == "*/"+req.Subresource
			}) &&
			listMatch(r.ResourceNames, true, true, eq(req.Name))
	}
	return listMatch(r.NonResourceURLs, false, false, func(e string) bool { return globMatch(e, req.Path) })
}

// MatchPolicies returns the index of the first policy with a matching rule, or -1.
func MatchPolicies(req gen.Request, policies []proxyv1alpha1.DispatchPolicy) int {
	for i := range policies {
		for j := range policies[i].Rules {
			if RuleMatches(req, &policies[i].Rules[j]) {
				return i
			}
		}
	}
	return -1
}

// ListShape classifies a rule field list (used for the non-trivial rule).
type ListShape struct {
	InvertedOnlyMulti bool // only '-' entries, at least two
	Mixed             bool // positive and '-' entries together
	Glob              bool // a trailing-'*' glob or '*/sub' entry
	StarAmongOthers   bool // '*' together with other entries
	Duplicates        bool
}

// Shape inspects one list.
func Shape(list []string) ListShape {
	var s ListShape
	pos, inv, star := 0, 0, 0
	seen := map[string]bool{}
	for _, e := range list {
		if seen[e] {
			s.Duplicates = true
		}
		seen[e] = true
		switch {
		case e == "*":
			star++
		case strings.HasPrefix(e, "-"):
			inv++
		default:
			pos++
		}
		b := strings.TrimPrefix(e, "-")
		if b != "*" && (strings.HasSuffix(b, "*") || strings.HasPrefix(b, "*/")) {
			s.Glob = true
		}
	}
	s.InvertedOnlyMulti = pos == 0 && star == 0 && inv >= 2
	s.Mixed = pos > 0 && inv > 0
	s.StarAmongOthers = star > 0 && len(list) > star
	return s
}

// RuleShape ORs the shapes of all list fields of a rule.
func RuleShape(r *proxyv1alpha1.DispatchPolicyRule) ListShape {
	var s ListShape
	for _, l := range [][]string{r.Verbs, r.APIGroups, r.Resources, r.ResourceNames, r.Users, r.UserGroups, r.NonResourceURLs} {
		x := Shape(l)
		s.InvertedOnlyMulti = s.InvertedOnlyMulti || x.InvertedOnlyMulti
		s.Mixed = s.Mixed || x.Mixed
		s.Glob = s.Glob || x.Glob
		s.StarAmongOthers = s.StarAmongOthers || x.StarAmongOthers
		s.Duplicates = s.Duplicates || x.Duplicates
	}
	return s
}
