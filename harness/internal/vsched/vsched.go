// Package vsched is a deterministic cooperative scheduler for code rewritten by cmd/instrument: logical
// threads are goroutines of which exactly one runs at a time; at every statement (VerifPoint) and at every
// blocking lock operation control returns to the caller of Run, which decides which thread runs next.
package vsched

import (
	"fmt"
	"sync"
)

type lockState struct {
	writer  *thread
	readers map[*thread]int
}

type thread struct {
	id      int
	resume  chan struct{}
	done    bool
	blocked interface{} // mutex the thread waits for
	wantW   bool
	steps   int
	panic   interface{}
}

// Sched runs one schedule.
type Sched struct {
	mu      sync.Mutex
	threads []*thread
	cur     *thread
	running bool
	yield   chan struct{}
	locks   map[interface{}]*lockState
	Trace   []int // thread id per step
	MaxStep int
}

// New creates a scheduler.
func New() *Sched {
	return &Sched{yield: make(chan struct{}), locks: map[interface{}]*lockState{}, MaxStep: 100000}
}

// Point is the hook for VerifPoint.
func (s *Sched) Point(line int) {
	if !s.running || s.cur == nil {
		return
	}
	t := s.cur
	t.steps++
	s.running = false
	s.yield <- struct{}{}
	<-t.resume
	s.running = true
}

func (s *Sched) lockOf(m interface{}) *lockState {
	l := s.locks[m]
	if l == nil {
		l = &lockState{readers: map[*thread]int{}}
		s.locks[m] = l
	}
	return l
}

func (s *Sched) available(m interface{}, t *thread, write bool) bool {
	l := s.lockOf(m)
	if write {
		return l.writer == nil && len(l.readers) == 0
	}
	return l.writer == nil
}

// LockHook is the hook for VerifLockHook. It returns false when the caller is not a managed thread.
func (s *Sched) LockHook(m interface{}, op string) bool {
	if !s.running || s.cur == nil {
		// between steps (oracle code running on the scheduler's goroutine): only allowed when nobody holds the lock
		l := s.lockOf(m)
		switch op {
		case "lock", "rlock":
			if l.writer != nil || (op == "lock" && len(l.readers) > 0) {
				panic("vsched: oracle code tried to take a lock held by a parked thread")
			}
		}
		return true // no thread runs concurrently with the oracle, the lock is not needed
	}
	t := s.cur
	l := s.lockOf(m)
	switch op {
	case "lock", "rlock":
		write := op == "lock"
		for !s.available(m, t, write) {
			t.blocked, t.wantW = m, write
			s.running = false
			s.yield <- struct{}{}
			<-t.resume
			s.running = true
		}
		t.blocked = nil
		if write {
			l.writer = t
		} else {
			l.readers[t]++
		}
	case "unlock":
		if l.writer != t {
			panic(fmt.Sprintf("vsched: thread %d unlocks a mutex it does not hold", t.id))
		}
		l.writer = nil
	case "runlock":
		if l.readers[t] == 0 {
			panic(fmt.Sprintf("vsched: thread %d read-unlocks a mutex it does not hold", t.id))
		}
		l.readers[t]--
		if l.readers[t] == 0 {
			delete(l.readers, t)
		}
	}
	return true
}

// Result of a run.
type Result struct {
	Deadlock bool
	Panic    interface{}
	Steps    int
	Overrun  bool
}

// Run executes the thread bodies under the schedule given by choose (called with the ids of the enabled
// threads, the running one first if it is enabled; returns an index into that slice).
func (s *Sched) Run(bodies []func(), choose func(enabled []int) int) Result {
	for i, b := range bodies {
		t := &thread{id: i, resume: make(chan struct{})}
		s.threads = append(s.threads, t)
		body := b
		go func() {
			<-t.resume
			s.running = true
			defer func() {
				if r := recover(); r != nil {
					t.panic = r
				}
				t.done = true
				s.running = false
				s.yield <- struct{}{}
			}()
			body()
		}()
	}
	res := Result{}
	var last *thread
	for {
		var enabled []*thread
		for _, t := range s.threads {
			if t.done {
				continue
			}
			if t.blocked != nil && !s.available(t.blocked, t, t.wantW) {
				continue
			}
			enabled = append(enabled, t)
		}
		if len(enabled) == 0 {
			for _, t := range s.threads {
				if !t.done {
					res.Deadlock = true
				}
			}
			break
		}
		// running thread first
		for i, t := range enabled {
			if t == last && i != 0 {
				enabled[0], enabled[i] = enabled[i], enabled[0]
			}
		}
		ids := make([]int, len(enabled))
		for i, t := range enabled {
			ids[i] = t.id
		}
		k := 0
		if len(enabled) > 1 {
			k = choose(ids)
			if k < 0 || k >= len(enabled) {
				k = 0
			}
		}
		t := enabled[k]
		last = t
		s.cur = t
		s.Trace = append(s.Trace, t.id)
		res.Steps++
		t.resume <- struct{}{}
		<-s.yield
		s.cur = nil
		if t.panic != nil {
			res.Panic = t.panic
			break
		}
		if res.Steps > s.MaxStep {
			res.Overrun = true
			break
		}
	}
	return res
}

// Preempt is one forced context switch: at scheduling decision number At, run the enabled thread number Pick
// (counted among the enabled threads other than the running one, modulo their number).
type Preempt struct {
	At   int
	Pick int
}

// PreemptionChooser returns a choose function for Run that lets the running thread continue except at the given
// preemption points (preemption-bounded scheduling).
func PreemptionChooser(ps []Preempt) func(enabled []int) int {
	decision := 0
	return func(enabled []int) int {
		d := decision
		decision++
		for _, p := range ps {
			if p.At == d && len(enabled) > 1 {
				return 1 + p.Pick%(len(enabled)-1)
			}
		}
		return 0
	}
}

// Switches counts the context switches of a trace that happen while the thread switched away from still has steps
// left later in the trace (i.e. real pre-emptions, not hand-overs at thread end).
func Switches(trace []int) int {
	last := map[int]int{}
	for i, t := range trace {
		last[t] = i
	}
	n := 0
	for i := 1; i < len(trace); i++ {
		if trace[i] != trace[i-1] && last[trace[i-1]] > i {
			n++
		}
	}
	return n
}
