// Package pki generates a small pool of CA / serving key pairs once per process.
package pki

import (
	"crypto/ecdsa"
	"crypto/elliptic"
	"crypto/rand"
	"crypto/x509"
	"crypto/x509/pkix"
	"encoding/pem"
	"fmt"
	"math/big"
	"sync"
	"time"
)

// Material is one CA with one serving certificate signed by it.
type Material struct {
	Name    string
	CAPEM   []byte
	CertPEM []byte
	KeyPEM  []byte
	CACert  *x509.Certificate
	Cert    *x509.Certificate
}

var (
	once sync.Once
	pool []*Material
)

// Pool returns n (<= 6) independent materials.
func Pool(n int) []*Material {
	once.Do(func() {
		for i := 0; i < 6; i++ {
			pool = append(pool, gen(fmt.Sprintf("ca-%d", i)))
		}
	})
	return pool[:n]
}

func gen(name string) *Material {
	caKey, err := ecdsa.GenerateKey(elliptic.P256(), rand.Reader)
	if err != nil {
		panic(err)
	}
	caTmpl := &x509.Certificate{SerialNumber: big.NewInt(1), Subject: pkix.Name{CommonName: name}, NotBefore: time.Now().Add(-time.Hour), NotAfter: time.Now().Add(240 * time.Hour),
		IsCA: true, KeyUsage: x509.KeyUsageCertSign | x509.KeyUsageDigitalSignature, BasicConstraintsValid: true}
	caDER, err := x509.CreateCertificate(rand.Reader, caTmpl, caTmpl, &caKey.PublicKey, caKey)
	if err != nil {
		panic(err)
	}
	caCert, _ := x509.ParseCertificate(caDER)
	key, err := ecdsa.GenerateKey(elliptic.P256(), rand.Reader)
	if err != nil {
		panic(err)
	}
	tmpl := &x509.Certificate{SerialNumber: big.NewInt(2), Subject: pkix.Name{CommonName: name + "-serving"}, NotBefore: time.Now().Add(-time.Hour), NotAfter: time.Now().Add(240 * time.Hour),
		KeyUsage: x509.KeyUsageDigitalSignature, ExtKeyUsage: []x509.ExtKeyUsage{x509.ExtKeyUsageServerAuth, x509.ExtKeyUsageClientAuth}, DNSNames: []string{"localhost"}}
	der, err := x509.CreateCertificate(rand.Reader, tmpl, caCert, &key.PublicKey, caKey)
	if err != nil {
		panic(err)
	}
	cert, _ := x509.ParseCertificate(der)
	kb, _ := x509.MarshalECPrivateKey(key)
	return &Material{
		Name:    name,
		CAPEM:   pem.EncodeToMemory(&pem.Block{Type: "CERTIFICATE", Bytes: caDER}),
		CertPEM: pem.EncodeToMemory(&pem.Block{Type: "CERTIFICATE", Bytes: der}),
		KeyPEM:  pem.EncodeToMemory(&pem.Block{Type: "EC PRIVATE KEY", Bytes: kb}),
		CACert:  caCert,
		Cert:    cert,
	}
}
