// Package pki generates a small pool of CA / serving key pairs once per process.
package pki

import (
	"crypto/ecdsa"
	"crypto/elliptic"
	"crypto/rand"
	"crypto/x509"
	"crypto/x509/pkix"
	"encoding/pem"
	"fmt"
	"math/big"
	"sync"
	"time"
)

// Material is one CA with one serving certificate signed by it.
type Material struct {
	Name    string
	CAPEM   []byte
	CertPEM []byte
	KeyPEM  []byte
	CACert  *x509.Certificate
	Cert    *x509.Certificate
}

var (
	once     sync.Once
	pool     []*Material
	renewals []*Material
)

// WithRenewals returns n materials, each followed by its renewal: a new serving certificate (other serial number)
// for the SAME private key, signed by the same CA - what a certificate rotation that keeps the key produces.
func WithRenewals(n int) []*Material {
	ms := Pool(n)
	var out []*Material
	for i, m := range ms {
		out = append(out, m, renewals[i])
	}
	return out
}

// Pool returns n (<= 6) independent materials.
func Pool(n int) []*Material {
	once.Do(func() {
		for i := 0; i < 6; i++ {
			m, r := gen(fmt.Sprintf("ca-%d", i))
			pool = append(pool, m)
			renewals = append(renewals, r)
		}
	})
	return pool[:n]
}

func gen(name string) (*Material, *Material) {
	caKey, err := ecdsa.GenerateKey(elliptic.P256(), rand.Reader)
	if err != nil {
		panic(err)
	}
	caTmpl := &x509.Certificate{SerialNumber: big.NewInt(1), Subject: pkix.Name{CommonName: name}, NotBefore: time.Now().Add(-time.Hour), NotAfter: time.Now().Add(240 * time.Hour),
		IsCA: true, KeyUsage: x509.KeyUsageCertSign | x509.KeyUsageDigitalSignature, BasicConstraintsValid: true}
	caDER, err := x509.CreateCertificate(rand.Reader, caTmpl, caTmpl, &caKey.PublicKey, caKey)
	if err != nil {
		panic(err)
	}
	caCert, _ := x509.ParseCertificate(caDER)
	key, err := ecdsa.GenerateKey(elliptic.P256(), rand.Reader)
	if err != nil {
		panic(err)
	}
	tmpl := &x509.Certificate{SerialNumber: big.NewInt(2), Subject: pkix.Name{CommonName: name + "-serving"}, NotBefore: time.Now().Add(-time.Hour), NotAfter: time.Now().Add(240 * time.Hour),
		KeyUsage: x509.KeyUsageDigitalSignature, ExtKeyUsage: []x509.ExtKeyUsage{x509.ExtKeyUsageServerAuth, x509.ExtKeyUsageClientAuth}, DNSNames: []string{"localhost"}}
	der, err := x509.CreateCertificate(rand.Reader, tmpl, caCert, &key.PublicKey, caKey)
	if err != nil {
		panic(err)
	}
	cert, _ := x509.ParseCertificate(der)
	kb, _ := x509.MarshalECPrivateKey(key)
	m := &Material{
		Name:    name,
		CAPEM:   pem.EncodeToMemory(&pem.Block{Type: "CERTIFICATE", Bytes: caDER}),
		CertPEM: pem.EncodeToMemory(&pem.Block{Type: "CERTIFICATE", Bytes: der}),
		KeyPEM:  pem.EncodeToMemory(&pem.Block{Type: "EC PRIVATE KEY", Bytes: kb}),
		CACert:  caCert,
		Cert:    cert,
	}
	// the renewal: same key, same CA, another serial number
	tmpl2 := *tmpl
	tmpl2.SerialNumber = big.NewInt(3)
	der2, err := x509.CreateCertificate(rand.Reader, &tmpl2, caCert, &key.PublicKey, caKey)
	if err != nil {
		panic(err)
	}
	cert2, _ := x509.ParseCertificate(der2)
	r := &Material{Name: name + "-renewed", CAPEM: m.CAPEM, CertPEM: pem.EncodeToMemory(&pem.Block{Type: "CERTIFICATE", Bytes: der2}), KeyPEM: m.KeyPEM, CACert: caCert, Cert: cert2}
	return m, r
}
