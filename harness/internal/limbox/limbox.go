//go:build verif

// Package limbox is the "limiter server in a box": the real rateLimiter assembled through the
// verif hook around a scripted leader elector and a lister over a plain cache.Indexer.
package limbox

import (
	"context"
	"runtime"
	"sync"
	"time"

	apierrors "k8s.io/apimachinery/pkg/api/errors"
	metav1 "k8s.io/apimachinery/pkg/apis/meta/v1"
	"k8s.io/client-go/tools/cache"

	proxyv1alpha1 "github.com/kubewharf/kubegateway/pkg/apis/proxy/v1alpha1"
	gatewayclientset "github.com/kubewharf/kubegateway/pkg/client/kubernetes"
	gatewayfake "github.com/kubewharf/kubegateway/pkg/client/kubernetes/fake"
	proxyclient "github.com/kubewharf/kubegateway/pkg/client/kubernetes/typed/proxy/v1alpha1"
	proxylisters "github.com/kubewharf/kubegateway/pkg/client/listers/proxy/v1alpha1"
	"github.com/kubewharf/kubegateway/pkg/ratelimiter/limiter"
	"github.com/kubewharf/kubegateway/pkg/ratelimiter/limiter/elector"
	"github.com/kubewharf/kubegateway/pkg/ratelimiter/options"
	rlutil "github.com/kubewharf/kubegateway/pkg/ratelimiter/util"
)

// Elector drives the REAL leader elector of the limiter server (built through the verif hook, without lease
// configuration): leadership events are delivered the way client-go's leader election delivers OnStartedLeading,
// OnStoppedLeading and OnNewLeader.
type Elector struct {
	Identity string
	real     elector.LeaderElector
	// AfterStop, if set, runs right after the limiter's OnStoppedLeading callback returned, still inside the
	// elector's own handling of the loss (e.g. a tick of the periodic leader check landing there).
	AfterStop func(shard int)
}

func newElector(identity string, shards int) *Elector {
	return &Elector{Identity: identity, real: elector.VerifNewLeaderElector(identity, shards)}
}

// IsLeader implements elector.LeaderElector.
func (e *Elector) IsLeader(shard int) bool { return e.real.IsLeader(shard) }

// GetLeaders implements elector.LeaderElector.
func (e *Elector) GetLeaders() map[int]proxyv1alpha1.EndpointInfo { return e.real.GetLeaders() }

// SetCallbacks implements elector.LeaderElector.
func (e *Elector) SetCallbacks(c elector.LeaderCallbacks) {
	stop := c.OnStoppedLeading
	c.OnStoppedLeading = func(shard int) {
		if stop != nil {
			stop(shard)
		}
		if f := e.AfterStop; f != nil {
			f(shard)
		}
	}
	e.real.SetCallbacks(c)
}

// Gain delivers OnStartedLeading for the shard.
func (e *Elector) Gain(shard int) { elector.VerifStartLeading(e.real, shard) }

// Lose delivers OnStoppedLeading for the shard.
func (e *Elector) Lose(shard int) { elector.VerifStopLeading(e.real, shard) }

// SetLeaderSilently records a leader (this server or a foreign one) without any callback: OnNewLeader of the real
// elector; the server learns about it in leaderCheck. identity "" = the table entry vanishes.
func (e *Elector) SetLeaderSilently(shard int, identity string) {
	if identity == "" {
		elector.VerifDropLeaderEntry(e.real, shard)
		return
	}
	elector.VerifSetLeader(e.real, shard, identity)
}

// Leader returns the recorded leader of a shard.
func (e *Elector) Leader(shard int) string { return e.real.GetLeaders()[shard].Leader }

type realElector struct{ *Elector }

func (realElector) Run(ctx context.Context) {}

// Controller is a controller.UpstreamController over a plain indexer.
type Controller struct {
	Indexer cache.Indexer
}

func (c *Controller) Run(stopCh <-chan struct{}) {}
func (c *Controller) UpstreamClusterLister() proxylisters.UpstreamClusterLister {
	return proxylisters.NewUpstreamClusterLister(c.Indexer)
}
func (c *Controller) Get(cluster string) (*proxyv1alpha1.UpstreamCluster, bool) {
	o, ok, _ := c.Indexer.GetByKey(cluster)
	if !ok {
		return nil, false
	}
	return o.(*proxyv1alpha1.UpstreamCluster), true
}

// ListGate lets a history make one List of rate limit conditions (what a store's Load uses) hang and then fail, outside
// the fake clientset's own lock (its reactors run under a lock that serialises every API call).
type ListGate struct {
	mu      sync.Mutex
	armed   bool
	arrived chan struct{}
	release chan struct{}
}

// Arm makes the next List block; it returns the channel that signals its arrival and the function that lets it fail.
func (g *ListGate) Arm() (<-chan struct{}, func()) {
	g.mu.Lock()
	defer g.mu.Unlock()
	g.armed = true
	g.arrived, g.release = make(chan struct{}, 1), make(chan struct{})
	rel := g.release
	return g.arrived, func() { close(rel) }
}

// Disarm cancels an Arm that no List has consumed.
func (g *ListGate) Disarm() { g.mu.Lock(); g.armed = false; g.mu.Unlock() }

type gatedClient struct {
	gatewayclientset.Interface
	gate *ListGate
}

func (c gatedClient) ProxyV1alpha1() proxyclient.ProxyV1alpha1Interface {
	return gatedProxy{c.Interface.ProxyV1alpha1(), c.gate}
}

type gatedProxy struct {
	proxyclient.ProxyV1alpha1Interface
	gate *ListGate
}

func (p gatedProxy) RateLimitConditions() proxyclient.RateLimitConditionInterface {
	return gatedConditions{p.ProxyV1alpha1Interface.RateLimitConditions(), p.gate}
}

type gatedConditions struct {
	proxyclient.RateLimitConditionInterface
	gate *ListGate
}

func (c gatedConditions) List(ctx context.Context, opts metav1.ListOptions) (*proxyv1alpha1.RateLimitConditionList, error) {
	c.gate.mu.Lock()
	armed, arrived, release := c.gate.armed, c.gate.arrived, c.gate.release
	c.gate.armed = false
	c.gate.mu.Unlock()
	if armed {
		arrived <- struct{}{}
		<-release
		return nil, apierrors.NewServerTimeout(proxyv1alpha1.Resource("ratelimitconditions"), "list", 1)
	}
	return c.RateLimitConditionInterface.List(ctx, opts)
}

// Box bundles the pieces.
type Box struct {
	Limiter    *limiter.VerifLimiter
	Elector    *Elector
	Controller *Controller
	Client     *gatewayfake.Clientset
	Shards     int
	ListGate   *ListGate
}

// New builds a limiter box. storeKind is "local" or "k8s" (write-through, sync period 0).
func New(storeKind string, shards int, identity string) *Box {
	el := newElector(identity, shards)
	ctl := &Controller{Indexer: cache.NewIndexer(cache.MetaNamespaceKeyFunc, cache.Indexers{})}
	client := gatewayfake.NewSimpleClientset()
	opts := options.RateLimitOptions{ShardingCount: shards, LimitStore: storeKind, Identity: identity, K8sStoreSyncPeriod: 0}
	gate := &ListGate{}
	l := limiter.VerifNewRateLimiter(gatedClient{client, gate}, opts, realElector{el}, ctl)
	return &Box{Limiter: l, Elector: el, Controller: ctl, Client: client, Shards: shards, ListGate: gate}
}

// LeadAll gains leadership of every shard.
func (b *Box) LeadAll() {
	for s := 0; s < b.Shards; s++ {
		b.Elector.Gain(s)
	}
}

// SetCluster writes the object into the lister's indexer and delivers it to the limiter's handler
// (what the upstream controller does on add/update).
func (b *Box) SetCluster(c *proxyv1alpha1.UpstreamCluster) error {
	if err := b.Controller.Indexer.Add(c); err != nil {
		return err
	}
	return b.Limiter.UpstreamConditionHandler(c)
}

// DeleteCluster removes the object from the indexer and delivers the deletion.
func (b *Box) DeleteCluster(c *proxyv1alpha1.UpstreamCluster) error {
	_ = b.Controller.Indexer.Delete(c)
	return b.Limiter.UpstreamConditionHandler(c)
}

// GlobalSchema builds a flow-control schema with global members.
func GlobalSchema(name string, strategy proxyv1alpha1.LimitStrategy, tokenBucket bool, local, global, localBurst, globalBurst int32) proxyv1alpha1.FlowControlSchema {
	s := proxyv1alpha1.FlowControlSchema{Name: name, Strategy: strategy}
	if tokenBucket {
		s.TokenBucket = &proxyv1alpha1.TokenBucketFlowControlSchema{QPS: local, Burst: localBurst}
		s.GlobalTokenBucket = &proxyv1alpha1.TokenBucketFlowControlSchema{QPS: global, Burst: globalBurst}
	} else {
		s.MaxRequestsInflight = &proxyv1alpha1.MaxRequestsInflightFlowControlSchema{Max: local}
		s.GlobalMaxRequestsInflight = &proxyv1alpha1.MaxRequestsInflightFlowControlSchema{Max: global}
	}
	return s
}

// Cluster builds an UpstreamCluster object with the given schemas.
func Cluster(name string, schemas ...proxyv1alpha1.FlowControlSchema) *proxyv1alpha1.UpstreamCluster {
	c := &proxyv1alpha1.UpstreamCluster{ObjectMeta: metav1.ObjectMeta{Name: name}}
	c.Spec.FlowControl.Schemas = schemas
	return c
}

// ConditionName is the name the gateway gives its condition object.
func ConditionName(cluster, instance string) string {
	return rlutil.GenerateRateLimitConditionName(cluster, instance)
}

// WaitUntil polls cond (async cleanup goroutines) for up to d.
func WaitUntil(d time.Duration, cond func() bool) bool {
	deadline := time.Now().Add(d)
	for {
		if cond() {
			return true
		}
		if time.Now().After(deadline) {
			return false
		}
		time.Sleep(time.Millisecond)
	}
}

// CleanupPass runs the 1 s cleanup (timed-out clients) and the 30 s cleanup (unknown conditions) once
// each and waits until the goroutines the first one spawns for its deletions have finished, so that
// the next step of a history cannot race with a deletion that belongs to this step.
func (b *Box) CleanupPass() bool {
	n0 := runtime.NumGoroutine()
	b.Limiter.VerifCleanupTimeoutClients()
	ok := WaitUntil(5*time.Second, func() bool { return runtime.NumGoroutine() <= n0 })
	b.Limiter.VerifCleanupUnknownConditions()
	return ok
}
