// Package gen holds the rapid generators shared by the checks.
package gen

import (
	"fmt"
	"strings"

	"k8s.io/apiserver/pkg/authentication/user"
	"k8s.io/apiserver/pkg/authorization/authorizer"
	"pgregory.net/rapid"

	proxyv1alpha1 "github.com/kubewharf/kubegateway/pkg/apis/proxy/v1alpha1"
)

// Deliberately tiny alphabets: collisions between rule entries and request
// attributes must be the norm, not the exception.
var (
	Verbs        = []string{"get", "list", "create", "delete", "watch"}
	APIGroups    = []string{"", "apps", "batch"}
	Resources    = []string{"pods", "deployments", "nodes"}
	Subresources = []string{"", "status", "log"}
	Names        = []string{"", "a", "b"}
	Users        = []string{"alice", "bob", "user-1", "user-2", "system:serviceaccount:ns1:sa1", "system:serviceaccount:ns2:sa1", "system:serviceaccount:ns1:sa2"}
	UserGlobs    = []string{"user-*", "system:serviceaccount:ns1:*", "a*", "system:*"}
	Groups       = []string{"system:authenticated", "system:masters", "dev", "ops", "system:serviceaccounts"}
	Paths        = []string{"/healthz", "/healthz/x", "/healthz/x/y", "/api", "/apis", "/metrics", "/"}
	PathGlobs    = []string{"/healthz/*", "/healthz*", "/api*", "/*"}
	SANamespaces = []string{"ns1", "ns2", ""}
	SANames      = []string{"sa1", "sa2", ""}
)

// Request is a request attribute tuple.
type Request struct {
	Resource    bool
	Verb        string
	APIGroup    string
	Res         string
	Subresource string
	Name        string
	Path        string
	User        string
	Groups      []string
}

func (r Request) String() string {
	if r.Resource {
		return fmt.Sprintf("{res verb=%s group=%q resource=%s sub=%q name=%q user=%s groups=%v}", r.Verb, r.APIGroup, r.Res, r.Subresource, r.Name, r.User, r.Groups)
	}
	return fmt.Sprintf("{nonres verb=%s path=%s user=%s groups=%v}", r.Verb, r.Path, r.User, r.Groups)
}

// Attributes converts the tuple to what the gateway's matcher consumes.
func (r Request) Attributes() authorizer.Attributes {
	return authorizer.AttributesRecord{
		User:            &user.DefaultInfo{Name: r.User, Groups: r.Groups},
		Verb:            r.Verb,
		APIGroup:        r.APIGroup,
		Resource:        r.Res,
		Subresource:     r.Subresource,
		Name:            r.Name,
		ResourceRequest: r.Resource,
		Path:            r.Path,
	}
}

// GenRequest draws a request attribute tuple.
func GenRequest(t *rapid.T, label string) Request {
	r := Request{}
	r.Resource = rapid.IntRange(0, 3).Draw(t, label+".kind") != 0
	r.Verb = rapid.SampledFrom(Verbs).Draw(t, label+".verb")
	r.User = rapid.SampledFrom(Users).Draw(t, label+".user")
	ng := rapid.IntRange(0, 3).Draw(t, label+".ngroups")
	for i := 0; i < ng; i++ {
		r.Groups = append(r.Groups, rapid.SampledFrom(Groups).Draw(t, label+".group"))
	}
	if r.Resource {
		r.APIGroup = rapid.SampledFrom(APIGroups).Draw(t, label+".apigroup")
		r.Res = rapid.SampledFrom(Resources).Draw(t, label+".resource")
		r.Subresource = rapid.SampledFrom(Subresources).Draw(t, label+".sub")
		r.Name = rapid.SampledFrom(Names).Draw(t, label+".name")
		// real requests carry the path too; the matcher must not look at it for resource requests
		r.Path = "/apis/" + r.APIGroup + "/v1/" + r.Res
	} else {
		r.Path = rapid.SampledFrom(Paths).Draw(t, label+".path")
	}
	return r
}

// AllRequests enumerates a probe set covering every alphabet value at least once per field
// (used by metamorphic checks that need "for every request").
func ProbeRequests() []Request {
	var out []Request
	users := []string{"alice", "user-1", "system:serviceaccount:ns1:sa1"}
	groupSets := [][]string{nil, {"dev"}, {"system:masters", "ops"}}
	for _, v := range []string{"get", "create"} {
		for ui, u := range users {
			g := groupSets[ui%len(groupSets)]
			for _, ag := range APIGroups {
				for _, res := range Resources {
					for _, sub := range Subresources {
						for _, n := range []string{"", "a"} {
							out = append(out, Request{Resource: true, Verb: v, APIGroup: ag, Res: res, Subresource: sub, Name: n, User: u, Groups: g})
						}
					}
				}
			}
			for _, p := range Paths {
				out = append(out, Request{Verb: v, Path: p, User: u, Groups: g})
			}
		}
	}
	return out
}

// entryKind enumerates the shapes of a rule-list entry.
func genEntry(t *rapid.T, label string, values []string, globs []string, subres bool) string {
	// weights: plain value 8, inverted value 6, star 1, empty 1, glob 3, inverted glob 2, */sub 2, -*/sub 1, res/sub 2, -res/sub 1, "-*" rarely
	k := rapid.IntRange(0, 27).Draw(t, label+".shape")
	val := rapid.SampledFrom(values).Draw(t, label+".val")
	switch {
	case k < 8:
		return val
	case k < 14:
		return "-" + val
	case k < 15:
		return "*"
	case k < 16:
		return ""
	case k < 19:
		if len(globs) > 0 {
			return rapid.SampledFrom(globs).Draw(t, label+".glob")
		}
		return val
	case k < 21:
		if len(globs) > 0 {
			return "-" + rapid.SampledFrom(globs).Draw(t, label+".glob")
		}
		return "-" + val
	case k < 23:
		if subres {
			return "*/" + rapid.SampledFrom(Subresources[1:]).Draw(t, label+".sub")
		}
		return val
	case k < 24:
		if subres {
			return "-*/" + rapid.SampledFrom(Subresources[1:]).Draw(t, label+".sub")
		}
		return "-" + val
	case k < 26:
		if subres {
			return val + "/" + rapid.SampledFrom(Subresources[1:]).Draw(t, label+".sub")
		}
		return val
	case k < 27:
		if subres {
			return "-" + val + "/" + rapid.SampledFrom(Subresources[1:]).Draw(t, label+".sub")
		}
		return "-" + val
	default:
		return "-*"
	}
}

// GenList draws a rule field list of 0..max entries.
func GenList(t *rapid.T, label string, max int, values []string, globs []string, subres bool) []string {
	n := rapid.IntRange(0, max).Draw(t, label+".len")
	var out []string
	// mode: 0 free mix, 1 only positive, 2 only inverted (so that inverted-only lists with >=2 entries are common)
	mode := rapid.IntRange(0, 3).Draw(t, label+".mode")
	for i := 0; i < n; i++ {
		e := genEntry(t, fmt.Sprintf("%s[%d]", label, i), values, globs, subres)
		switch mode {
		case 1:
			if strings.HasPrefix(e, "-") {
				e = e[1:]
			}
		case 2:
			if e != "*" && !strings.HasPrefix(e, "-") {
				e = "-" + e
			}
		}
		out = append(out, e)
	}
	return out
}

// RuleOpts biases the rule generator.
type RuleOpts struct {
	// Permissive: make fields other than one or two "focus" fields match-all more often,
	// so that whole rules match often enough for ordering to matter.
	Permissive bool
}

// GenRule draws a dispatch policy rule with all eight fields.
func GenRule(t *rapid.T, label string, o RuleOpts) proxyv1alpha1.DispatchPolicyRule {
	r := proxyv1alpha1.DispatchPolicyRule{}
	wild := func(name string, gen func() []string, optional bool) []string {
		if o.Permissive {
			k := rapid.IntRange(0, 9).Draw(t, label+"."+name+".permissive")
			if k < 5 {
				if optional && k < 2 {
					return nil
				}
				return []string{"*"}
			}
		}
		return gen()
	}
	r.Verbs = wild("verbs", func() []string { return GenList(t, label+".verbs", 3, Verbs, nil, false) }, false)
	r.APIGroups = wild("apiGroups", func() []string { return GenList(t, label+".apiGroups", 3, APIGroups, nil, false) }, false)
	r.Resources = wild("resources", func() []string { return GenList(t, label+".resources", 3, Resources, nil, true) }, false)
	r.ResourceNames = wild("resourceNames", func() []string { return GenList(t, label+".resourceNames", 3, Names, nil, false) }, true)
	r.Users = wild("users", func() []string { return GenList(t, label+".users", 3, Users, UserGlobs, false) }, true)
	r.UserGroups = wild("userGroups", func() []string { return GenList(t, label+".userGroups", 3, Groups, nil, false) }, true)
	r.NonResourceURLs = wild("nonResourceURLs", func() []string { return GenList(t, label+".nonResourceURLs", 3, Paths, PathGlobs, false) }, false)
	nsa := rapid.IntRange(0, 4).Draw(t, label+".nsa")
	if nsa > 2 {
		nsa = 0
	}
	for i := 0; i < nsa; i++ {
		r.ServiceAccounts = append(r.ServiceAccounts, proxyv1alpha1.ServiceAccountRef{
			Namespace: rapid.SampledFrom(SANamespaces).Draw(t, label+".sa.ns"),
			Name:      rapid.SampledFrom(SANames).Draw(t, label+".sa.name"),
		})
	}
	return r
}

// GenPolicies draws 1..maxP policies of 1..maxR rules; each policy gets a unique schema name "p<i>".
func GenPolicies(t *rapid.T, label string, maxP, maxR int) []proxyv1alpha1.DispatchPolicy {
	np := rapid.IntRange(1, maxP).Draw(t, label+".npolicies")
	var out []proxyv1alpha1.DispatchPolicy
	for i := 0; i < np; i++ {
		nr := rapid.IntRange(1, maxR).Draw(t, fmt.Sprintf("%s[%d].nrules", label, i))
		p := proxyv1alpha1.DispatchPolicy{FlowControlSchemaName: fmt.Sprintf("p%d", i)}
		perm := rapid.Bool().Draw(t, fmt.Sprintf("%s[%d].permissive", label, i))
		for j := 0; j < nr; j++ {
			p.Rules = append(p.Rules, GenRule(t, fmt.Sprintf("%s[%d].rule[%d]", label, i, j), RuleOpts{Permissive: perm}))
		}
		out = append(out, p)
	}
	return out
}

// RuleString renders a rule compactly for samples and failure messages.
func RuleString(r proxyv1alpha1.DispatchPolicyRule) string {
	var sas []string
	for _, s := range r.ServiceAccounts {
		sas = append(sas, s.Namespace+"/"+s.Name)
	}
	return fmt.Sprintf("{verbs=%q apiGroups=%q resources=%q names=%q users=%q sas=%q groups=%q urls=%q}",
		r.Verbs, r.APIGroups, r.Resources, r.ResourceNames, r.Users, sas, r.UserGroups, r.NonResourceURLs)
}

// PoliciesString renders a policy list.
func PoliciesString(ps []proxyv1alpha1.DispatchPolicy) string {
	var sb strings.Builder
	for i, p := range ps {
		fmt.Fprintf(&sb, "policy[%d](%s):", i, p.FlowControlSchemaName)
		for _, r := range p.Rules {
			sb.WriteString(" " + RuleString(r))
		}
		sb.WriteString("; ")
	}
	return sb.String()
}
