package gen

import (
	"fmt"
	"strings"

	metav1 "k8s.io/apimachinery/pkg/apis/meta/v1"
	"pgregory.net/rapid"

	proxyv1alpha1 "github.com/kubewharf/kubegateway/pkg/apis/proxy/v1alpha1"
	"verifharness/internal/pki"
)

// FeatureGateAnnotation is the annotation key the gateway reads feature gates from.
const FeatureGateAnnotation = "proxy.kubegateway.io/feature-gates"

// ObjOpts steers GenValidCluster.
type ObjOpts struct {
	Endpoints   []string        // pool of endpoint URLs (same scheme)
	ServerNames []string        // pool of server names this object may claim (may be empty)
	PKI         []*pki.Material // pool of TLS material for secure serving
	SchemaNames []string        // pool of schema names
	NoGlobal    bool            // never enable the GlobalRateLimiter gate / global strategies
}

// GenSchema draws a valid flow-control schema.
func GenSchema(t *rapid.T, label, name string, global bool) proxyv1alpha1.FlowControlSchema {
	s := proxyv1alpha1.FlowControlSchema{Name: name}
	switch rapid.IntRange(0, 5).Draw(t, label+".type") {
	case 0:
		s.Exempt = &proxyv1alpha1.ExemptFlowControlSchema{}
	case 1, 2:
		q := int32(rapid.IntRange(1, 50).Draw(t, label+".qps"))
		b := q + int32(rapid.IntRange(0, 5).Draw(t, label+".burstExtra"))
		s.TokenBucket = &proxyv1alpha1.TokenBucketFlowControlSchema{QPS: q, Burst: b}
		if global && rapid.Bool().Draw(t, label+".global") {
			s.GlobalTokenBucket = &proxyv1alpha1.TokenBucketFlowControlSchema{QPS: q + int32(rapid.IntRange(0, 50).Draw(t, label+".gq")), Burst: b + int32(rapid.IntRange(50, 60).Draw(t, label+".gb"))}
			s.Strategy = proxyv1alpha1.LimitStrategy(rapid.SampledFrom([]string{"globalAllocate", "globalCount", "local", ""}).Draw(t, label+".strategy"))
		}
	default:
		m := int32(rapid.IntRange(0, 9).Draw(t, label+".max"))
		s.MaxRequestsInflight = &proxyv1alpha1.MaxRequestsInflightFlowControlSchema{Max: m}
		if global && rapid.Bool().Draw(t, label+".global") {
			s.GlobalMaxRequestsInflight = &proxyv1alpha1.MaxRequestsInflightFlowControlSchema{Max: m + int32(rapid.IntRange(0, 9).Draw(t, label+".gm"))}
			s.Strategy = proxyv1alpha1.LimitStrategy(rapid.SampledFrom([]string{"globalAllocate", "globalCount", "local", ""}).Draw(t, label+".strategy"))
		}
	}
	return s
}

// GenValidCluster draws an UpstreamCluster that the admission validation accepts.
func GenValidCluster(t *rapid.T, label, name string, o ObjOpts) *proxyv1alpha1.UpstreamCluster {
	c := &proxyv1alpha1.UpstreamCluster{ObjectMeta: metav1.ObjectMeta{Name: name}}
	// servers: non-empty subset of the pool, any order
	eps := rapid.Permutation(o.Endpoints).Draw(t, label+".endpointOrder")
	n := rapid.IntRange(1, len(eps)).Draw(t, label+".nservers")
	eps = eps[:n]
	for _, e := range eps {
		srv := proxyv1alpha1.UpstreamClusterServer{Endpoint: e}
		switch rapid.IntRange(0, 3).Draw(t, label+".disabled."+e) {
		case 0:
			b := true
			srv.Disabled = &b
		case 1:
			b := false
			srv.Disabled = &b
		}
		c.Spec.Servers = append(c.Spec.Servers, srv)
	}
	if strings.HasPrefix(eps[0], "https://") {
		c.Spec.ClientConfig.Insecure = true
		c.Spec.ClientConfig.BearerToken = []byte("gateway-token")
	}
	// schemas
	var schemaNames []string
	for _, sn := range o.SchemaNames {
		if rapid.Bool().Draw(t, label+".hasSchema."+sn) {
			c.Spec.FlowControl.Schemas = append(c.Spec.FlowControl.Schemas, GenSchema(t, label+".schema."+sn, sn, !o.NoGlobal))
			schemaNames = append(schemaNames, sn)
		}
	}
	// policies
	np := rapid.IntRange(1, 3).Draw(t, label+".npolicies")
	for i := 0; i < np; i++ {
		p := proxyv1alpha1.DispatchPolicy{Strategy: proxyv1alpha1.RoundRobin}
		nr := rapid.IntRange(1, 2).Draw(t, fmt.Sprintf("%s.policy[%d].nrules", label, i))
		for j := 0; j < nr; j++ {
			p.Rules = append(p.Rules, GenRule(t, fmt.Sprintf("%s.policy[%d].rule[%d]", label, i, j), RuleOpts{Permissive: true}))
		}
		if len(schemaNames) > 0 && rapid.Bool().Draw(t, fmt.Sprintf("%s.policy[%d].hasSchema", label, i)) {
			p.FlowControlSchemaName = rapid.SampledFrom(schemaNames).Draw(t, fmt.Sprintf("%s.policy[%d].schema", label, i))
		}
		if rapid.Bool().Draw(t, fmt.Sprintf("%s.policy[%d].subset", label, i)) {
			sub := rapid.Permutation(eps).Draw(t, fmt.Sprintf("%s.policy[%d].subsetOrder", label, i))
			p.UpstreamSubset = sub[:rapid.IntRange(1, len(sub)).Draw(t, fmt.Sprintf("%s.policy[%d].subsetLen", label, i))]
		}
		p.LogMode = proxyv1alpha1.LogMode(rapid.SampledFrom([]string{"", "on", "off"}).Draw(t, fmt.Sprintf("%s.policy[%d].log", label, i)))
		c.Spec.DispatchPolicies = append(c.Spec.DispatchPolicies, p)
	}
	c.Spec.Logging.Mode = proxyv1alpha1.LogMode(rapid.SampledFrom([]string{"", "on", "off"}).Draw(t, label+".logging"))
	// secure serving
	if len(o.PKI) > 0 {
		if k := rapid.IntRange(0, len(o.PKI)).Draw(t, label+".servingCert"); k > 0 {
			c.Spec.SecureServing.CertData = o.PKI[k-1].CertPEM
			c.Spec.SecureServing.KeyData = o.PKI[k-1].KeyPEM
		}
		if k := rapid.IntRange(0, len(o.PKI)).Draw(t, label+".clientCA"); k > 0 {
			c.Spec.SecureServing.ClientCAData = o.PKI[k-1].CAPEM
		}
	}
	for _, sn := range o.ServerNames {
		if rapid.Bool().Draw(t, label+".claims."+sn) {
			c.Spec.SecureServing.ServerNames = append(c.Spec.SecureServing.ServerNames, sn)
		}
	}
	// annotations / feature gates
	switch rapid.IntRange(0, 5).Draw(t, label+".annotations") {
	case 0:
		// nil annotations
	case 1:
		c.Annotations = map[string]string{"other": "x"}
	default:
		if rapid.IntRange(0, 2).Draw(t, label+".commonGates") == 0 {
			// one of a few common values, so that the same annotation comes back verbatim in later versions of a history
			c.Annotations = map[string]string{FeatureGateAnnotation: rapid.SampledFrom([]string{"DenyAllRequests=true", "Tracing=true,DenyAllRequests=false", "CloseConnectionWhenIdle=true"}).Draw(t, label+".gates")}
			break
		}
		var gates []string
		names := []string{"DenyAllRequests", "Tracing", "CloseConnectionWhenIdle"}
		if !o.NoGlobal {
			names = append(names, "GlobalRateLimiter")
		}
		for _, g := range names {
			switch rapid.IntRange(0, 3).Draw(t, label+".gate."+g) {
			case 0:
				gates = append(gates, g+"=true")
			case 1:
				gates = append(gates, g+"=false")
			}
		}
		c.Annotations = map[string]string{FeatureGateAnnotation: strings.Join(gates, ",")}
		if rapid.Bool().Draw(t, label+".otherAnnotation") {
			c.Annotations["other"] = "y"
		}
	}
	return c
}

// ClusterString renders an object compactly.
func ClusterString(c *proxyv1alpha1.UpstreamCluster) string {
	var sb strings.Builder
	fmt.Fprintf(&sb, "%s{", c.Name)
	for _, s := range c.Spec.Servers {
		d := "-"
		if s.Disabled != nil {
			d = fmt.Sprint(*s.Disabled)
		}
		fmt.Fprintf(&sb, "srv %s dis=%s;", s.Endpoint, d)
	}
	for _, s := range c.Spec.FlowControl.Schemas {
		fmt.Fprintf(&sb, "schema %s %s", s.Name, s.Strategy)
		if s.Exempt != nil {
			sb.WriteString(" exempt")
		}
		if s.MaxRequestsInflight != nil {
			fmt.Fprintf(&sb, " mif=%d", s.MaxRequestsInflight.Max)
		}
		if s.TokenBucket != nil {
			fmt.Fprintf(&sb, " tb=%d/%d", s.TokenBucket.QPS, s.TokenBucket.Burst)
		}
		if s.GlobalMaxRequestsInflight != nil {
			fmt.Fprintf(&sb, " gmif=%d", s.GlobalMaxRequestsInflight.Max)
		}
		if s.GlobalTokenBucket != nil {
			fmt.Fprintf(&sb, " gtb=%d/%d", s.GlobalTokenBucket.QPS, s.GlobalTokenBucket.Burst)
		}
		sb.WriteString(";")
	}
	for i, p := range c.Spec.DispatchPolicies {
		fmt.Fprintf(&sb, "policy[%d] fc=%q subset=%q log=%q rules=%d;", i, p.FlowControlSchemaName, p.UpstreamSubset, p.LogMode, len(p.Rules))
	}
	fmt.Fprintf(&sb, "logging=%q;", c.Spec.Logging.Mode)
	fmt.Fprintf(&sb, "serverNames=%q cert=%d ca=%d;", c.Spec.SecureServing.ServerNames, len(c.Spec.SecureServing.CertData), len(c.Spec.SecureServing.ClientCAData))
	if c.Annotations == nil {
		sb.WriteString("annotations=nil")
	} else {
		fmt.Fprintf(&sb, "annotations=%q", c.Annotations)
	}
	sb.WriteString("}")
	return sb.String()
}
