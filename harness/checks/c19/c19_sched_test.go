//go:build verif

package c19

import (
	"fmt"
	"testing"
	"time"

	"k8s.io/apimachinery/pkg/labels"
	"pgregory.net/rapid"

	"github.com/kubewharf/kubegateway/pkg/ratelimiter/store/k8s"
	rlutil "github.com/kubewharf/kubegateway/pkg/ratelimiter/util"
	"verifharness/internal/stats"
	"verifharness/internal/vsched"
)

// TestPropFlushRacingDeleteAndSave: the periodic / explicit flush overlapping deletes and saves, under a harness-owned schedule.
func TestPropFlushRacingDeleteAndSave(t *testing.T) {
	sub := stats.NewSub("flush-racing-delete-and-save", "rapid + deterministic scheduler (schedule points and a scheduler-aware mutex inserted into cache_store.go at check time): a store (periodic or write-through) holding 1-3 conditions of its shard; logical threads: Flush (what the periodic sync does), Delete or DeleteUpstream of one of them, optionally a Save of a newer version; 0-5 rapid-drawn pre-emption points; oracle at quiescence: an acknowledged delete is not in the API afterwards and a new holder does not load it (no resurrection); in write-through mode an acknowledged save is what the API holds; deadlock or panic is a violation; non-trivial = the flush is pre-empted between its listing and its writes; distinct by FNV-64 of (setup, schedule)")
	stats.Check(t, stats.N(1500, 20000), func(t *rapid.T) {
		periodic := rapid.Bool().Draw(t, "periodic")
		n := 2
		shard := 0
		own, _ := pools(shard, n)
		sim := newAPISim()
		period := time.Duration(0)
		if periodic {
			period = time.Hour
		}
		store := k8s.NewK8sCacheStore(sim.client, period, shard, n)
		if periodic && !waitInitialSync() {
			sub.Inconclusive()
			t.Skip(inconclusiveInitialSync)
		}
		defer func() { _ = store.Stop() }()
		k := rapid.IntRange(1, 3).Draw(t, "items")
		var names []string
		for i := 0; i < k; i++ {
			inst := fmt.Sprintf("i%d", i)
			if err := store.Save(own[0], cond(own[0], inst, 1)); err != nil {
				t.Fatalf("harness: %v", err)
			}
			names = append(names, own[0]+"."+inst)
		}
		if err := store.Flush(); err != nil {
			t.Fatalf("harness: %v", err)
		}
		victim := rapid.IntRange(0, k-1).Draw(t, "victim")
		wholeUpstream := rapid.Bool().Draw(t, "deleteUpstream")
		withSave := rapid.Bool().Draw(t, "withSave")
		saveTarget := rapid.IntRange(0, k-1).Draw(t, "saveTarget")
		var delErr, saveErr, flushErr error
		bodies := []func(){
			func() { flushErr = store.Flush() },
			func() {
				if wholeUpstream {
					delErr = store.DeleteUpstream(own[0])
				} else {
					delErr = store.Delete(own[0], names[victim])
				}
			},
		}
		if withSave {
			bodies = append(bodies, func() { saveErr = store.Save(own[0], cond(own[0], fmt.Sprintf("i%d", saveTarget), 2)) })
		}
		s := vsched.New()
		k8s.VerifPoint, k8s.VerifLockHook = s.Point, s.LockHook
		reset := func() { k8s.VerifPoint, k8s.VerifLockHook = func(int) {}, nil }
		defer reset()
		ps := genPreemptions(t, 12, 60)
		res := s.Run(bodies, vsched.PreemptionChooser(ps))
		reset()
		sub.Eval()
		desc := fmt.Sprintf("periodic=%v items=%v delete=%s(upstream=%v) save=%v(target %s) errs(flush,delete,save)=%v,%v,%v schedule=%v api=%v", periodic, names, names[victim], wholeUpstream, withSave, names[saveTarget], flushErr, delErr, saveErr, s.Trace, sim.log)
		if res.Deadlock || res.Panic != nil || res.Overrun {
			t.Fatalf("deadlock=%v panic=%v overrun=%v\n%s", res.Deadlock, res.Panic, res.Overrun, desc)
		}
		persisted := sim.persisted()
		deleted := map[string]bool{}
		if delErr == nil {
			if wholeUpstream {
				for _, nme := range names {
					deleted[nme] = true
				}
			} else {
				deleted[names[victim]] = true
			}
		}
		savedAfterDelete := withSave && saveErr == nil // a save of the same name may legitimately re-create it
		for nme := range deleted {
			if savedAfterDelete && nme == names[saveTarget] {
				continue
			}
			if v, ok := persisted[nme]; ok {
				t.Fatalf("condition %s was deleted (acknowledged) but the API holds it again (v%d): a flush that listed it before the delete wrote it back\n%s", nme, v, desc)
			}
		}
		// a new holder must not load a deleted condition
		nh := k8s.NewK8sCacheStore(sim.client, 0, shard, n)
		if err := nh.Load(); err != nil {
			t.Fatalf("harness: %v", err)
		}
		for _, c := range nh.List(labels.Everything()) {
			if deleted[c.Name] && !(savedAfterDelete && c.Name == names[saveTarget]) {
				t.Fatalf("a new holder of shard %d loads the deleted condition %s\n%s", rlutil.GetShardID(c.Spec.UpstreamCluster, n), c.Name, desc)
			}
		}
		if withSave && saveErr == nil && !periodic && !deleted[names[saveTarget]] {
			if v := persisted[names[saveTarget]]; v != 2 {
				t.Fatalf("write-through save of %s=v2 was acknowledged but the API holds v%d after the overlapping flush\n%s", names[saveTarget], v, desc)
			}
		}
		if vsched.Switches(s.Trace) >= 1 {
			sub.NonTrivial(stats.HashString(desc))
			sub.Class("pre-empted")
			if sub.WantSample() {
				sub.Sample(desc)
			}
		}
	})
}

func genPreemptions(t *rapid.T, early, max int) []vsched.Preempt {
	n := rapid.IntRange(0, 5).Draw(t, "npreemptions")
	var ps []vsched.Preempt
	for i := 0; i < n; i++ {
		hi := max
		if rapid.Bool().Draw(t, fmt.Sprintf("preempt[%d].early", i)) {
			hi = early
		}
		ps = append(ps, vsched.Preempt{At: rapid.IntRange(0, hi).Draw(t, fmt.Sprintf("preempt[%d].at", i)), Pick: rapid.IntRange(0, 2).Draw(t, fmt.Sprintf("preempt[%d].pick", i))})
	}
	return ps
}
