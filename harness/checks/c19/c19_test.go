//go:build verif

// C19 — API-backed limiter store: acknowledged state survives crashes, per shard.
package c19

import (
	"fmt"
	"runtime"
	"sort"
	"strings"
	"testing"
	"time"

	apierrors "k8s.io/apimachinery/pkg/api/errors"
	metav1 "k8s.io/apimachinery/pkg/apis/meta/v1"
	"k8s.io/apimachinery/pkg/labels"
	k8sruntime "k8s.io/apimachinery/pkg/runtime"
	clienttesting "k8s.io/client-go/testing"
	"pgregory.net/rapid"

	proxyv1alpha1 "github.com/kubewharf/kubegateway/pkg/apis/proxy/v1alpha1"
	gatewayfake "github.com/kubewharf/kubegateway/pkg/client/kubernetes/fake"
	_interface "github.com/kubewharf/kubegateway/pkg/ratelimiter/store/interface"
	"github.com/kubewharf/kubegateway/pkg/ratelimiter/store/k8s"
	rlutil "github.com/kubewharf/kubegateway/pkg/ratelimiter/util"
	"verifharness/internal/stats"
)

func TestMain(m *testing.M) {
	stats.Property("C19")
	stats.Assume(
		"the API server is the fake gateway clientset's object tracker wrapped by a reactor that (like the real client) returns an empty object together with an error, rejects nameless objects, and injects faults by call index: conflict, transient failure before the write, and 'applied but the reply is lost'",
		"a crash after API call k is the abandonment of the store at that point (the reactor unwinds the operation with a sentinel panic once call k has been applied); k is enumerated over every call of the fault-free history",
		"NotFound is only ever answered when the object really is absent (a server never lies about that)",
		"periodic mode is exercised without crash enumeration (nothing is promised there before a graceful stop); its initial background sync is awaited before the history starts",
		"Go runtime, pgregory.net/rapid v1.3.0, client-go testing tracker",
	)
	stats.Main(m)
}

type crashSentinel struct{}

const inconclusiveInitialSync = "inconclusive: the initial background sync of the periodic store could not be awaited"

type faultKind int

const (
	noFault faultKind = iota
	conflict
	failBefore
	failAfter
	notFound // an update is answered "not found" although the object exists when the store then tries to create it (another writer, e.g. the late flush of the previous holder, created it in between)
)

type apiSim struct {
	client  *gatewayfake.Clientset
	calls   int
	crashAt int // crash once this many calls have been applied (0 = never)
	faults  map[int]faultKind
	log     []string
}

var gr = proxyv1alpha1.Resource("ratelimitconditions")

func newAPISim(objs ...k8sruntime.Object) *apiSim {
	s := &apiSim{client: gatewayfake.NewSimpleClientset(objs...), faults: map[int]faultKind{}}
	base := clienttesting.ObjectReaction(s.client.Tracker())
	s.client.PrependReactor("*", "ratelimitconditions", func(action clienttesting.Action) (bool, k8sruntime.Object, error) {
		s.calls++
		idx := s.calls
		verb := action.GetVerb()
		write := verb == "create" || verb == "update" || verb == "delete"
		empty := func() k8sruntime.Object {
			if verb == "create" || verb == "update" || verb == "get" {
				return &proxyv1alpha1.RateLimitCondition{}
			}
			return nil
		}
		s.log = append(s.log, fmt.Sprintf("%d:%s", idx, verb))
		f := s.faults[idx]
		handled, obj, err := func() (bool, k8sruntime.Object, error) {
			if ca, ok := action.(clienttesting.CreateAction); ok && (verb == "create" || verb == "update") {
				if o, ok := ca.GetObject().(*proxyv1alpha1.RateLimitCondition); ok && o.Name == "" {
					return true, empty(), apierrors.NewInvalid(proxyv1alpha1.SchemeGroupVersion.WithKind("RateLimitCondition").GroupKind(), "", nil)
				}
			}
			if f == conflict && write && verb != "create" {
				return true, empty(), apierrors.NewConflict(gr, "x", fmt.Errorf("injected conflict at call %d", idx))
			}
			if f == failBefore {
				return true, empty(), apierrors.NewServerTimeout(gr, verb, 1)
			}
			if f == notFound && verb == "update" {
				return true, empty(), apierrors.NewNotFound(gr, "x")
			}
			handled, obj, err := base(action)
			if err != nil && obj == nil {
				obj = empty()
			}
			if f == failAfter && err == nil {
				obj, err = empty(), apierrors.NewServerTimeout(gr, verb, 1)
			}
			return handled, obj, err
		}()
		if s.crashAt > 0 && idx >= s.crashAt {
			panic(crashSentinel{})
		}
		return handled, obj, err
	})
	return s
}

func (s *apiSim) persisted() map[string]int32 {
	out := map[string]int32{}
	gvr := proxyv1alpha1.SchemeGroupVersion.WithResource("ratelimitconditions")
	gvk := proxyv1alpha1.SchemeGroupVersion.WithKind("RateLimitCondition")
	l, err := s.client.Tracker().List(gvr, gvk, "")
	if err != nil {
		panic(err)
	}
	for _, it := range l.(*proxyv1alpha1.RateLimitConditionList).Items {
		out[it.Name] = version(&it)
	}
	return out
}

func cond(cluster, inst string, ver int32) *proxyv1alpha1.RateLimitCondition {
	c := &proxyv1alpha1.RateLimitCondition{ObjectMeta: metav1.ObjectMeta{Name: cluster + "." + inst}}
	c.Spec.UpstreamCluster = cluster
	c.Spec.Instance = inst
	if inst == "state" {
		// the per-upstream state condition the limiter keeps next to the instances' conditions: it belongs to no instance
		c.Spec.Instance = ""
	}
	c.Spec.LimitItemConfigurations = []proxyv1alpha1.RateLimitItemConfiguration{{Name: "s", LimitItemDetail: proxyv1alpha1.LimitItemDetail{MaxRequestsInflight: &proxyv1alpha1.MaxRequestsInflightFlowControlSchema{Max: ver}}}}
	return c
}

func version(c *proxyv1alpha1.RateLimitCondition) int32 {
	if len(c.Spec.LimitItemConfigurations) == 0 || c.Spec.LimitItemConfigurations[0].MaxRequestsInflight == nil {
		return -1
	}
	return c.Spec.LimitItemConfigurations[0].MaxRequestsInflight.Max
}

type op struct {
	Kind    string // save, saveForeign, delete, deleteUpstream, flush
	Cluster string
	Inst    string
	Ver     int32
	// InPlace: the condition is fetched with Get, changed in place and handed back to Save (what the limiter does with
	// the per-upstream state condition); only if the store has it, otherwise a fresh object is saved
	InPlace bool
}

func (o op) String() string {
	switch o.Kind {
	case "save", "saveForeign":
		if o.InPlace {
			return fmt.Sprintf("%s(get+modify %s.%s=v%d)", o.Kind, o.Cluster, o.Inst, o.Ver)
		}
		return fmt.Sprintf("%s(%s.%s=v%d)", o.Kind, o.Cluster, o.Inst, o.Ver)
	case "delete":
		return fmt.Sprintf("delete(%s.%s)", o.Cluster, o.Inst)
	case "deleteUpstream":
		return fmt.Sprintf("deleteUpstream(%s)", o.Cluster)
	}
	return o.Kind
}

const absent = int32(-100)

// nameState tracks what a new holder may legitimately find for one condition name.
type nameState struct {
	acked   int32          // last acknowledged value, or absent
	pending map[int32]bool // outcomes of unacknowledged operations issued since the last acknowledgement
}

type model struct {
	names map[string]*nameState
}

func (m *model) get(n string) *nameState {
	if m.names[n] == nil {
		m.names[n] = &nameState{acked: absent, pending: map[int32]bool{}}
	}
	return m.names[n]
}

func (m *model) ack(n string, v int32) {
	s := m.get(n)
	s.acked = v
	s.pending = map[int32]bool{}
}

func (m *model) unacked(n string, v int32) { m.get(n).pending[v] = true }

func (m *model) allowed(n string, v int32) bool {
	s := m.get(n)
	return v == s.acked || s.pending[v]
}

// pools: clusters of the store's own shard and of foreign shards, computed with the real shard function.
func pools(shard, n int) (own, foreign []string) {
	for i := 0; len(own) < 2 || len(foreign) < 2; i++ {
		name := fmt.Sprintf("up%d", i)
		if rlutil.GetShardID(name, n) == shard {
			if len(own) < 2 {
				own = append(own, name)
			}
		} else if len(foreign) < 2 {
			foreign = append(foreign, name)
		}
	}
	return
}

type history struct {
	N, Shard int
	Ops      []op
	Faults   map[int]faultKind
	Stop     bool // graceful stop at the end
}

func genHistory(t *rapid.T, own, foreign []string) []op {
	n := rapid.IntRange(1, 8).Draw(t, "nops")
	var ops []op
	ver := int32(0)
	for i := 0; i < n; i++ {
		k := rapid.IntRange(0, 9).Draw(t, fmt.Sprintf("op[%d]", i))
		cl := rapid.SampledFrom(own).Draw(t, "cluster")
		inst := rapid.SampledFrom([]string{"i1", "i2", "state"}).Draw(t, "inst")
		switch {
		case k < 5:
			ver++
			ops = append(ops, op{Kind: "save", Cluster: cl, Inst: inst, Ver: ver, InPlace: rapid.IntRange(0, 2).Draw(t, "getModifySave") == 0})
		case k < 6:
			ver++
			ops = append(ops, op{Kind: "saveForeign", Cluster: rapid.SampledFrom(foreign).Draw(t, "fcluster"), Inst: inst, Ver: ver})
		case k < 8:
			ops = append(ops, op{Kind: "delete", Cluster: cl, Inst: inst})
		case k < 9:
			ops = append(ops, op{Kind: "deleteUpstream", Cluster: cl})
		default:
			ops = append(ops, op{Kind: "flush"})
		}
	}
	return ops
}

// run executes the history on a fresh simulated API + store; returns the model, the sim, whether it crashed, and an error message for immediate violations.
func run(h history, period time.Duration, crashAt int, own, foreign []string, trace *[]string) (*model, *apiSim, bool, string) {
	// pre-existing state: one own-shard condition left by a previous holder, foreign-shard conditions of other servers
	pre := []k8sruntime.Object{cond(own[0], "old", 1000)}
	for _, f := range foreign {
		pre = append(pre, cond(f, "theirs", 2000))
	}
	sim := newAPISim(pre...)
	m := &model{names: map[string]*nameState{}}
	m.ack(own[0]+".old", 1000)
	store := k8s.NewK8sCacheStore(sim.client, period, h.Shard, h.N)
	if period > 0 {
		if !waitInitialSync() {
			return m, sim, false, inconclusiveInitialSync
		}
	}
	if err := store.Load(); err != nil {
		return m, sim, false, "Load on a healthy API failed: " + err.Error()
	}
	sim.calls = 0
	sim.log = nil
	sim.faults = h.Faults
	sim.crashAt = crashAt
	local := map[string]int32{own[0] + ".old": 1000} // what the store holds locally (for flush/stop expectations)
	crashed := false
	var bad string
	do := func(o op) {
		defer func() {
			if r := recover(); r != nil {
				if _, ok := r.(crashSentinel); ok {
					crashed = true
					return
				}
				panic(r)
			}
		}()
		name := o.Cluster + "." + o.Inst
		switch o.Kind {
		case "save":
			if period == 0 {
				m.unacked(name, o.Ver)
			}
			obj := cond(o.Cluster, o.Inst, o.Ver)
			changedInPlace := false
			if o.InPlace {
				if have, gerr := store.Get(o.Cluster, name); gerr == nil && have != nil && len(have.Spec.LimitItemConfigurations) == 1 && have.Spec.LimitItemConfigurations[0].MaxRequestsInflight != nil {
					have.Spec.LimitItemConfigurations[0].MaxRequestsInflight.Max = o.Ver
					obj = have
					changedInPlace = true
				}
			}
			err := store.Save(o.Cluster, obj)
			*trace = append(*trace, fmt.Sprintf("%s->%v", o, err == nil))
			if err != nil && changedInPlace {
				// the caller changed the store's own copy: the new value is the local one although the save was not
				// acknowledged (it stays in the unacknowledged set, a later flush may persist it)
				local[name] = o.Ver
			}
			if err == nil {
				local[name] = o.Ver
				if period == 0 {
					m.ack(name, o.Ver)
					if got, ok := sim.persisted()[name]; !ok || got != o.Ver {
						bad = fmt.Sprintf("write-through save of %s=v%d was acknowledged but the API holds %v (present=%v)", name, o.Ver, got, ok)
					}
				}
			}
		case "saveForeign":
			before := sim.persisted()
			err := store.Save(o.Cluster, cond(o.Cluster, o.Inst, o.Ver))
			*trace = append(*trace, fmt.Sprintf("%s->%v", o, err == nil))
			if err == nil {
				bad = fmt.Sprintf("store of shard %d accepted condition %s of a cluster owned by shard %d", h.Shard, name, rlutil.GetShardID(o.Cluster, h.N))
			}
			after := sim.persisted()
			if fmt.Sprint(before) != fmt.Sprint(after) {
				bad = fmt.Sprintf("refused save of a foreign-shard condition changed the API: %v -> %v", before, after)
			}
		case "delete":
			m.unacked(name, absent)
			err := store.Delete(o.Cluster, name)
			*trace = append(*trace, fmt.Sprintf("%s->%v", o, err == nil))
			if err == nil {
				delete(local, name)
				m.ack(name, absent)
				if _, ok := sim.persisted()[name]; ok {
					bad = fmt.Sprintf("delete of %s was acknowledged but the API still holds it", name)
				}
			}
		case "deleteUpstream":
			var names []string
			for n := range local {
				if strings.HasPrefix(n, o.Cluster+".") {
					names = append(names, n)
					m.unacked(n, absent)
				}
			}
			err := store.DeleteUpstream(o.Cluster)
			*trace = append(*trace, fmt.Sprintf("%s->%v", o, err == nil))
			if err == nil {
				p := sim.persisted()
				for _, n := range names {
					delete(local, n)
					m.ack(n, absent)
					if _, ok := p[n]; ok {
						bad = fmt.Sprintf("deleteUpstream(%s) was acknowledged but the API still holds %s", o.Cluster, n)
					}
				}
			}
		case "flush":
			for n, v := range local {
				m.unacked(n, v)
			}
			err := store.Flush()
			*trace = append(*trace, fmt.Sprintf("flush->%v", err == nil))
			if err == nil {
				p := sim.persisted()
				for n, v := range local {
					m.ack(n, v)
					if got, ok := p[n]; !ok || got != v {
						bad = fmt.Sprintf("flush succeeded but the API holds %v (present=%v) for %s, local value v%d", got, ok, n, v)
					}
				}
			}
		}
	}
	for _, o := range h.Ops {
		do(o)
		if crashed || bad != "" {
			break
		}
	}
	if !crashed && bad == "" && h.Stop {
		func() {
			defer func() {
				if r := recover(); r != nil {
					if _, ok := r.(crashSentinel); ok {
						crashed = true
						return
					}
					panic(r)
				}
			}()
			for n, v := range local {
				m.unacked(n, v)
			}
			// the limiter retries Stop until it succeeds (stopLimitStoreWithRetry); so does the history, up to 3 times
			err := store.Stop()
			for attempt := 1; err != nil && attempt < 3; attempt++ {
				*trace = append(*trace, "stop->false")
				err = store.Stop()
			}
			*trace = append(*trace, fmt.Sprintf("stop->%v", err == nil))
			if err == nil {
				p := sim.persisted()
				for n, v := range local {
					m.ack(n, v)
					if got, ok := p[n]; !ok || got != v {
						bad = fmt.Sprintf("graceful stop succeeded but the API holds %v (present=%v) for %s, pending local value v%d", got, ok, n, v)
					}
				}
			}
		}()
	} else if period > 0 && !crashed {
		_ = store.Stop() // end the background goroutine of the periodic store
	}
	return m, sim, crashed, bad
}

// waitInitialSync waits until the background goroutine of a periodic store has finished its first (immediate) sync and
// is parked on its 1 h timer; false = could not be established (the case is then discarded as inconclusive).
func waitInitialSync() bool {
	buf := make([]byte, 1<<20)
	for i := 0; i < 100000; i++ {
		n := runtime.Stack(buf, true)
		ok := true
		for _, g := range strings.Split(string(buf[:n]), "\n\n") {
			if strings.Contains(g, "store/k8s.NewK8sCacheStore") && strings.Contains(g, "created by") {
				if strings.Contains(g, "objectStore).sync") || !strings.Contains(g, "BackoffUntil") || strings.HasPrefix(g[strings.Index(g, "["):], "[runnable") || strings.HasPrefix(g[strings.Index(g, "["):], "[running") {
					ok = false
				}
			}
		}
		if ok {
			return true
		}
		time.Sleep(50 * time.Microsecond)
	}
	return false
}

// takeover builds a new holder of the shard on the surviving API state and checks what it loads.
func takeover(h history, m *model, sim *apiSim, own, foreign []string) string {
	sim.crashAt = 0
	sim.faults = map[int]faultKind{}
	persisted := sim.persisted()
	store := k8s.NewK8sCacheStore(sim.client, 0, h.Shard, h.N)
	if err := store.Load(); err != nil {
		return "Load of the new holder failed: " + err.Error()
	}
	loaded := map[string]int32{}
	for _, c := range store.List(labels.Everything()) {
		if rlutil.GetShardID(c.Spec.UpstreamCluster, h.N) != h.Shard {
			return fmt.Sprintf("new holder of shard %d loaded condition %s of shard %d", h.Shard, c.Name, rlutil.GetShardID(c.Spec.UpstreamCluster, h.N))
		}
		loaded[c.Name] = version(c)
	}
	// exactly the persisted conditions of the shard
	for n, v := range persisted {
		ownShard := false
		for _, o := range own {
			if strings.HasPrefix(n, o+".") {
				ownShard = true
			}
		}
		if ownShard {
			if got, ok := loaded[n]; !ok || got != v {
				return fmt.Sprintf("persisted condition %s=v%d of the shard was not loaded (got %v present=%v)", n, v, got, ok)
			}
		}
	}
	for n := range loaded {
		if _, ok := persisted[n]; !ok {
			return fmt.Sprintf("new holder has %s which is not persisted", n)
		}
	}
	// durability: what is found is the last acknowledged value, or the outcome of a later unacknowledged operation
	names := map[string]bool{}
	for n := range m.names {
		names[n] = true
	}
	for n := range loaded {
		names[n] = true
	}
	var sorted []string
	for n := range names {
		sorted = append(sorted, n)
	}
	sort.Strings(sorted)
	for _, n := range sorted {
		got, ok := loaded[n]
		if !ok {
			got = absent
		}
		if !m.allowed(n, got) {
			s := m.get(n)
			return fmt.Sprintf("after takeover %s is %s; last acknowledged %s, unacknowledged later outcomes %v", n, vs(got), vs(s.acked), pend(s.pending))
		}
	}
	// other shards' data untouched
	for _, f := range foreign {
		if v, ok := persisted[f+".theirs"]; !ok || v != 2000 {
			return fmt.Sprintf("condition %s.theirs of another shard was modified or removed (now %v present=%v)", f, v, ok)
		}
	}
	return ""
}

func vs(v int32) string {
	if v == absent {
		return "absent"
	}
	return fmt.Sprintf("v%d", v)
}

func pend(p map[int32]bool) []string {
	var out []string
	for v := range p {
		out = append(out, vs(v))
	}
	sort.Strings(out)
	return out
}

func _unused(_interface.LimitStore) {}

// TestPropWriteThroughCrashes: write-through mode; every crash point of every generated history, plus injected faults.
func TestPropWriteThroughCrashes(t *testing.T) {
	sub := stats.NewSub("write-through-crash-enumeration", "rapid: shard count 2-3, history of 1-8 ops (save / save of a foreign-shard condition / delete / deleteUpstream / flush) on the API-backed store in write-through mode, API faults by call index (conflict, transient failure, applied-but-reply-lost); the history is run fault-free-crash-free once and then once per crash index k = 1..#API calls (crash = store abandoned after call k was applied), each followed by a takeover (new store + Load); oracle: acknowledged save/delete is in the API at once; after takeover every name holds its last acknowledged value or the outcome of a later unacknowledged operation, exactly the persisted conditions of the shard are loaded, nothing of other shards is loaded or touched; evaluations = executions (history x crash point); non-trivial = crash lands inside a multi-call operation or a fault was injected into an operation; distinct by FNV-64 of (history, faults, crash index)")
	stats.Check(t, stats.N(500, 3000), func(t *rapid.T) {
		n := rapid.IntRange(2, 3).Draw(t, "N")
		shard := rapid.IntRange(0, n-1).Draw(t, "shard")
		own, foreign := pools(shard, n)
		h := history{N: n, Shard: shard, Ops: genHistory(t, own, foreign), Faults: map[int]faultKind{}, Stop: rapid.Bool().Draw(t, "gracefulStop")}
		nf := rapid.IntRange(0, 3).Draw(t, "nfaults")
		for i := 0; i < nf; i++ {
			h.Faults[rapid.IntRange(1, 20).Draw(t, "faultAt")] = faultKind(rapid.IntRange(1, 4).Draw(t, "faultKind"))
		}
		hs := fmt.Sprint(h.Ops, h.Faults, h.Stop, n, shard)
		// crash-free run first: counts the API calls
		var trace []string
		m, sim, _, bad := run(h, 0, 0, own, foreign, &trace)
		sub.Eval()
		if bad != "" {
			t.Fatalf("%s\nhistory: %v faults %v\ntrace: %v\napi calls: %v", bad, h.Ops, h.Faults, trace, sim.log)
		}
		total := sim.calls
		callsLog := append([]string{}, sim.log...)
		if msg := takeover(h, m, sim, own, foreign); msg != "" {
			t.Fatalf("%s\nhistory: %v faults %v (no crash)\ntrace: %v\napi calls: %v", msg, h.Ops, h.Faults, trace, callsLog)
		}
		if len(h.Faults) > 0 && total > 0 {
			for k := range h.Faults {
				if k <= total {
					sub.NonTrivial(stats.HashString(hs + "|nocrash"))
					sub.Class("fault-injected")
					break
				}
			}
		}
		for k := 1; k <= total; k++ {
			var tr []string
			m, sim, crashed, bad := run(h, 0, k, own, foreign, &tr)
			sub.Eval()
			if bad != "" {
				t.Fatalf("%s\nhistory: %v faults %v crash after call %d\ntrace: %v\napi calls: %v", bad, h.Ops, h.Faults, k, tr, sim.log)
			}
			if !crashed {
				// Flush / Stop / DeleteUpstream walk a sync.Map, so the order of their API calls (and with it which call an
				// injected fault hits) can differ between two executions of one history; then a crash index of the first
				// execution may not exist in this one. That is a property of the harness' enumeration, not a verdict.
				sub.Class("crash-point-not-reached-in-this-execution")
				continue
			}
			if msg := takeover(h, m, sim, own, foreign); msg != "" {
				t.Fatalf("%s\nhistory: %v faults %v crash after API call %d\ntrace before the crash: %v\napi calls: %v", msg, h.Ops, h.Faults, k, tr, sim.log)
			}
			sub.Class("crash-point")
			// inside a multi-call operation: the crashed op had already made a call before k, or would have made one after
			sub.NonTrivial(stats.HashString(fmt.Sprintf("%s|crash%d", hs, k)))
		}
		if sub.WantSample() && total >= 3 {
			sub.Sample(map[string]interface{}{"N": n, "shard": shard, "ops": fmt.Sprint(h.Ops), "faults": fmt.Sprint(h.Faults), "api_calls_without_crash": callsLog, "crash_points_enumerated": total})
		}
	})
}

// TestPropPeriodicGracefulStop: periodic mode; a graceful stop flushes every pending condition; deletes are immediate.
func TestPropPeriodicGracefulStop(t *testing.T) {
	sub := stats.NewSub("periodic-graceful-stop", "rapid: the same op histories on the store in periodic mode (period 1 h, only Flush/Stop write), API faults by call index, always ended by a graceful stop that is retried up to 3 times when it fails (as the limiter does); oracle: Flush()==nil / Stop()==nil => the API holds every local condition with its latest value; acknowledged deletes are gone from the API at once; foreign-shard saves refused; takeover loads exactly the shard's persisted conditions; non-trivial = history has a save that is only persisted by the stop, or a fault; distinct by FNV-64 of (history, faults)")
	stats.Check(t, stats.N(800, 4000), func(t *rapid.T) {
		n := rapid.IntRange(2, 3).Draw(t, "N")
		shard := rapid.IntRange(0, n-1).Draw(t, "shard")
		own, foreign := pools(shard, n)
		h := history{N: n, Shard: shard, Ops: genHistory(t, own, foreign), Faults: map[int]faultKind{}, Stop: true}
		nf := rapid.IntRange(0, 2).Draw(t, "nfaults")
		for i := 0; i < nf; i++ {
			h.Faults[rapid.IntRange(1, 12).Draw(t, "faultAt")] = faultKind(rapid.IntRange(1, 4).Draw(t, "faultKind"))
		}
		var trace []string
		m, sim, _, bad := run(h, time.Hour, 0, own, foreign, &trace)
		sub.Eval()
		if bad == inconclusiveInitialSync {
			sub.Inconclusive()
			t.Skip(bad)
		}
		if bad != "" {
			t.Fatalf("%s\nhistory: %v faults %v\ntrace: %v\napi calls: %v", bad, h.Ops, h.Faults, trace, sim.log)
		}
		// in periodic mode only acknowledged flush/stop/delete outcomes are in the model; the takeover check then
		// verifies shard filtering and that acknowledged state is what the new holder finds
		if msg := takeoverPeriodic(h, m, sim, own, foreign, trace); msg != "" {
			t.Fatalf("%s\nhistory: %v faults %v\ntrace: %v\napi calls: %v", msg, h.Ops, h.Faults, trace, sim.log)
		}
		pendingAtStop := false
		for i, o := range h.Ops {
			if o.Kind == "save" {
				later := false
				for _, p := range h.Ops[i+1:] {
					if p.Kind == "flush" {
						later = true
					}
				}
				if !later {
					pendingAtStop = true
				}
			}
		}
		if pendingAtStop || len(h.Faults) > 0 {
			sub.NonTrivial(stats.HashString(fmt.Sprint(h.Ops, h.Faults, n, shard)))
		}
		if pendingAtStop {
			sub.Class("save-persisted-only-by-stop")
		}
		if sub.WantSample() && pendingAtStop {
			sub.Sample(map[string]interface{}{"N": n, "shard": shard, "ops": fmt.Sprint(h.Ops), "faults": fmt.Sprint(h.Faults), "trace": trace})
		}
	})
}

func takeoverPeriodic(h history, m *model, sim *apiSim, own, foreign []string, trace []string) string {
	// if the stop did not succeed nothing is promised about pending saves; shard filtering still is
	stopped := len(trace) > 0 && trace[len(trace)-1] == "stop->true"
	if !stopped {
		// drop durability expectations for names with unflushed saves: accept anything persisted for them
		for n, s := range m.names {
			if v, ok := sim.persisted()[n]; ok {
				s.pending[v] = true
			} else {
				s.pending[absent] = true
			}
			_ = n
		}
	}
	return takeover(h, m, sim, own, foreign)
}
