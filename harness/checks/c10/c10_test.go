//go:build verif

// C10 — tenant resolution: a host resolves to at most one cluster, and the right one.
package c10

import (
	"bytes"
	"crypto/tls"
	"crypto/x509"
	"fmt"
	"strings"
	"testing"

	"pgregory.net/rapid"

	proxyv1alpha1 "github.com/kubewharf/kubegateway/pkg/apis/proxy/v1alpha1"
	"github.com/kubewharf/kubegateway/pkg/apis/proxy/v1alpha1/validation"
	gatewaynet "github.com/kubewharf/kubegateway/pkg/gateway/net"
	"verifharness/internal/ctlbox"
	"verifharness/internal/gen"
	"verifharness/internal/pki"
	"verifharness/internal/stats"
)

func TestMain(m *testing.M) {
	stats.Property("C10")
	stats.Assume(
		"the real UpstreamClusterController is driven without informer goroutines: objects are written to the lister's store and the event is delivered through the verif hook, in API order (a single informer and a single queue worker deliver in order), with duplicate deliveries",
		"the API-side invariant enforced by the admission plugin is kept by the generator: no two stored objects claim the same name (case-insensitively); only objects accepted by ValidateUpstreamCluster are used",
		"IP-shaped host names are excluded (the gateway treats them as control-plane traffic by design)",
		"TLS selection is observed at library level: the tls.Config returned by WrapGetConfigForClient for a ClientHello with the given ServerName, and SNIVerifyOptions(host)",
		"Go runtime, pgregory.net/rapid v1.3.0",
	)
	stats.Main(m)
}

var clusterNames = []string{"alpha", "beta", "gamma"}

// case variants of one name (and of cluster names) are in the pool on purpose: a cluster may list two spellings
var aliasPool = []string{"a.example.com", "A.Example.com", "B.Example.COM", "b.example.com", "shared.io", "x-alias", "beta", "Gamma", "ALPHA", "Beta"}

type world struct {
	box    *ctlbox.Box
	stored map[string]*proxyv1alpha1.UpstreamCluster
	mat    map[string]*pki.Material
}

func (w *world) owner(host string) string {
	h := strings.ToLower(host)
	for name, c := range w.stored {
		if h == name {
			return name
		}
		for _, sn := range c.Spec.SecureServing.ServerNames {
			if strings.ToLower(sn) == h {
				return name
			}
		}
	}
	return ""
}

func (w *world) claimedByOthers(name string) map[string]bool {
	out := map[string]bool{}
	for n, c := range w.stored {
		if n == name {
			continue
		}
		out[n] = true
		for _, sn := range c.Spec.SecureServing.ServerNames {
			out[strings.ToLower(sn)] = true
		}
	}
	return out
}

var baseMat = pki.Pool(6)[5]

func baseConfig(*tls.ClientHelloInfo) (*tls.Config, error) {
	cert, err := tls.X509KeyPair(baseMat.CertPEM, baseMat.KeyPEM)
	if err != nil {
		return nil, err
	}
	return &tls.Config{Certificates: []tls.Certificate{cert}}, nil
}

func certOf(m *pki.Material) []byte { return m.Cert.Raw }

func (w *world) check(t *rapid.T, trace string, sub *stats.Sub) {
	var hosts []string
	hosts = append(hosts, clusterNames...)
	hosts = append(hosts, aliasPool...)
	hosts = append(hosts, "unknown.example.com")
	getCfg := w.box.Controller.WrapGetConfigForClient(baseConfig)
	for _, h := range hosts {
		want := w.owner(h)
		for _, variant := range []string{h, strings.ToUpper(h), h + ":6443", strings.ToUpper(h) + ":443"} {
			got := w.box.Owner(gatewaynet.HostWithoutPort(variant))
			if got != want {
				t.Fatalf("host %q resolves to cluster %q, the stored objects say %q\ntrace: %s", variant, got, want, trace)
			}
			sub.Class("lookup")
		}
		// TLS handshake view
		for _, sni := range []string{h, strings.ToUpper(h)} {
			cfg, err := getCfg(&tls.ClientHelloInfo{ServerName: sni})
			if err != nil {
				t.Fatalf("GetConfigForClient(%q): %v", sni, err)
			}
			wantCert := certOf(baseMat)
			var wantCA *x509.Certificate
			if want != "" {
				ss := w.stored[want].Spec.SecureServing
				for _, m := range pki.Pool(5) {
					if len(ss.CertData) > 0 && bytes.Equal(ss.CertData, m.CertPEM) {
						wantCert = certOf(m)
					}
					if len(ss.ClientCAData) > 0 && bytes.Equal(ss.ClientCAData, m.CAPEM) {
						wantCA = m.CACert
					}
				}
			}
			if len(cfg.Certificates) != 1 || !bytes.Equal(cfg.Certificates[0].Certificate[0], wantCert) {
				t.Fatalf("handshake for %q (owner %q) does not present the owner's serving certificate\ntrace: %s", sni, want, trace)
			}
			if wantCA == nil {
				if cfg.ClientCAs != nil {
					t.Fatalf("handshake for %q (owner %q) uses a client-CA pool although the owner configures none\ntrace: %s", sni, want, trace)
				}
			} else {
				subj := cfg.ClientCAs.Subjects() //nolint
				if cfg.ClientCAs == nil || len(subj) != 1 || !bytes.Equal(subj[0], wantCA.RawSubject) {
					t.Fatalf("handshake for %q (owner %q) does not use the owner's client-CA pool\ntrace: %s", sni, want, trace)
				}
			}
			for _, hv := range []string{sni, sni + ":6443"} {
				vo, ok := w.box.Controller.SNIVerifyOptions(hv)
				if wantCA == nil {
					if ok {
						t.Fatalf("client-certificate verification options exist for %q (owner %q) although the owner configures no client CA\ntrace: %s", hv, want, trace)
					}
				} else {
					subj := vo.Roots.Subjects() //nolint
					if !ok || len(subj) != 1 || !bytes.Equal(subj[0], wantCA.RawSubject) {
						t.Fatalf("client-certificate verification options for %q are not those of owner %q\ntrace: %s", hv, want, trace)
					}
				}
			}
		}
	}
}

func TestPropNameOwnership(t *testing.T) {
	sub := stats.NewSub("name-ownership-histories", "rapid state machine on the real controller: ops create/update a cluster (valid object; server names drawn from a pool with case variants, never claimed by another stored object), delete, duplicate delivery; after every event, for every name of the pool x {as is, upper case, with port}: Manager.Get(HostWithoutPort(h)), the tls.Config for a ClientHello with that SNI (certificate, client-CA subjects) and SNIVerifyOptions must be those of the model's owner or nobody's; non-trivial = the history moves an alias between clusters, reuses a name after a delete, or a name is owned under a different case than looked up; distinct by FNV-64 of the op trace")
	mats := pki.Pool(5)
	stats.Check(t, stats.N(1500, 8000), func(t *rapid.T) {
		w := &world{box: ctlbox.New(), stored: map[string]*proxyv1alpha1.UpstreamCluster{}}
		defer w.box.Close()
		trace := ""
		everOwned := map[string]string{} // name -> last owner, to detect moves / reuse
		nt := false
		sub.Eval()
		t.Repeat(map[string]func(*rapid.T){
			"upsert": func(t *rapid.T) {
				name := rapid.SampledFrom(clusterNames).Draw(t, "cluster")
				taken := w.claimedByOthers(name)
				if taken[name] {
					t.Skip("the cluster name is claimed as an alias by another stored object (admission would refuse)")
				}
				var free []string
				for _, a := range aliasPool {
					if !taken[strings.ToLower(a)] {
						free = append(free, a) // includes other spellings of the cluster's own name
					}
				}
				obj := gen.GenValidCluster(t, "obj", name, gen.ObjOpts{Endpoints: []string{"http://127.0.0.1:1", "http://127.0.0.1:2"}, ServerNames: free, PKI: mats, SchemaNames: []string{"s1"}, NoGlobal: true})
				if errs := validation.ValidateUpstreamCluster(obj); len(errs) > 0 {
					t.Fatalf("harness: generated object is not valid: %v", errs)
				}
				res, err := w.box.Apply(obj)
				trace += fmt.Sprintf("upsert(%s,names=%q);", name, obj.Spec.SecureServing.ServerNames)
				if err != nil || res.RequeueAfter > 0 {
					t.Fatalf("sync of %s failed (err=%v requeue=%v) although no other stored object claims its names\ntrace: %s", name, err, res.RequeueAfter, trace)
				}
				w.stored[name] = obj
				for _, sn := range append([]string{name}, obj.Spec.SecureServing.ServerNames...) {
					l := strings.ToLower(sn)
					if prev, ok := everOwned[l]; ok && prev != name {
						nt = true
						sub.Class("alias-moved-or-reused")
					}
					if sn != l {
						nt = true
					}
					everOwned[l] = name
				}
			},
			"delete": func(t *rapid.T) {
				name := rapid.SampledFrom(clusterNames).Draw(t, "cluster")
				obj := w.stored[name]
				if obj == nil {
					t.Skip("not stored")
				}
				delete(w.stored, name)
				_, err := w.box.Delete(obj)
				trace += fmt.Sprintf("delete(%s);", name)
				if err != nil {
					t.Fatalf("delete of %s failed: %v\ntrace: %s", name, err, trace)
				}
				for k, v := range everOwned {
					if v == name {
						everOwned[k] = "<deleted:" + name + ">"
					}
				}
				sub.Class("delete")
			},
			"redeliver": func(t *rapid.T) {
				name := rapid.SampledFrom(clusterNames).Draw(t, "cluster")
				obj := w.stored[name]
				if obj == nil {
					t.Skip("not stored")
				}
				if _, err := w.box.Deliver(obj); err != nil {
					t.Fatalf("duplicate delivery failed: %v", err)
				}
				trace += fmt.Sprintf("redeliver(%s);", name)
			},
			"": func(t *rapid.T) { w.check(t, trace, sub) },
		})
		if nt {
			sub.NonTrivial(stats.HashString(trace))
			if sub.WantSample() {
				sub.Sample(trace)
			}
		}
	})
}
