//go:build verif

// C10 — tenant resolution: a host resolves to at most one cluster, and the right one.
package c10

import (
	"bytes"
	"crypto/tls"
	"crypto/x509"
	"fmt"
	"sort"
	"strings"
	"sync"
	"sync/atomic"
	"testing"

	"pgregory.net/rapid"

	proxyv1alpha1 "github.com/kubewharf/kubegateway/pkg/apis/proxy/v1alpha1"
	"github.com/kubewharf/kubegateway/pkg/apis/proxy/v1alpha1/validation"
	gatewaynet "github.com/kubewharf/kubegateway/pkg/gateway/net"
	"verifharness/internal/ctlbox"
	"verifharness/internal/gen"
	"verifharness/internal/pki"
	"verifharness/internal/stats"
)

func TestMain(m *testing.M) {
	stats.Property("C10")
	stats.Assume(
		"the real UpstreamClusterController is driven without informer goroutines: objects are written to the lister's store and the event is delivered through the verif hook, in API order (a single informer and a single queue worker deliver in order), with duplicate deliveries",
		"only objects accepted by ValidateUpstreamCluster are used; objects may collide (admission checks names against an informer cache, so racing writes get through; the controller's conflict check is the second line of defence): a colliding object is expected to be refused as a whole, names it shares with no holder may resolve to it or to nobody",
		"IP-shaped host names are excluded (the gateway treats them as control-plane traffic by design)",
		"TLS selection is observed at library level: the tls.Config returned by WrapGetConfigForClient for a ClientHello with the given ServerName, and SNIVerifyOptions(host)",
		"Go runtime, pgregory.net/rapid v1.3.0",
	)
	stats.Main(m)
}

var clusterNames = []string{"alpha", "beta", "gamma"}

// case variants of one name (and of cluster names) are in the pool on purpose: a cluster may list two spellings
var aliasPool = []string{"a.example.com", "A.Example.com", "B.Example.COM", "b.example.com", "shared.io", "x-alias", "beta", "Gamma", "ALPHA", "Beta"}

type world struct {
	box *ctlbox.Box
	// api: the latest object per cluster name in the API (objects may collide: admission checks against an
	// informer cache, the controller's own conflict check is the second line of defence)
	api map[string]*proxyv1alpha1.UpstreamCluster
	// applied: the object the gateway serves per cluster (the latest one that was not refused)
	applied map[string]*proxyv1alpha1.UpstreamCluster
	mat     map[string]*pki.Material
}

func namesOf(name string, c *proxyv1alpha1.UpstreamCluster) map[string]bool {
	out := map[string]bool{strings.ToLower(name): true}
	for _, sn := range c.Spec.SecureServing.ServerNames {
		out[strings.ToLower(sn)] = true
	}
	return out
}

// holder returns the cluster the name belongs to (the applied objects), or "".
func (w *world) holder(host string) string {
	h := strings.ToLower(host)
	for name, c := range w.applied {
		if namesOf(name, c)[h] {
			return name
		}
	}
	return ""
}

// expect returns the owner the model demands and the alternatives it tolerates: a name that only the refused
// (latest) or only the served (older) version of a cluster lists may resolve to that cluster or to nobody.
func (w *world) expect(host string) (string, map[string]bool) {
	h := strings.ToLower(host)
	may := map[string]bool{}
	if n := w.holder(h); n != "" {
		if a := w.api[n]; a != nil && a != w.applied[n] && !namesOf(n, a)[h] {
			may[""] = true
		}
		return n, may
	}
	for n, a := range w.api {
		if a != w.applied[n] && namesOf(n, a)[h] {
			may[n] = true
		}
	}
	return "", may
}

// conflicts: a name of the object is held by another cluster.
func (w *world) conflicts(name string, obj *proxyv1alpha1.UpstreamCluster) bool {
	for h := range namesOf(name, obj) {
		if o := w.holder(h); o != "" && o != name {
			return true
		}
	}
	return false
}

func (w *world) claimedByOthers(name string) map[string]bool {
	out := map[string]bool{}
	for _, m := range []map[string]*proxyv1alpha1.UpstreamCluster{w.api, w.applied} {
		for n, c := range m {
			if n == name {
				continue
			}
			for h := range namesOf(n, c) {
				out[h] = true
			}
		}
	}
	return out
}

var baseMat = pki.Pool(6)[5]

func baseConfig(*tls.ClientHelloInfo) (*tls.Config, error) {
	cert, err := tls.X509KeyPair(baseMat.CertPEM, baseMat.KeyPEM)
	if err != nil {
		return nil, err
	}
	return &tls.Config{Certificates: []tls.Certificate{cert}}, nil
}

func certOf(m *pki.Material) []byte { return m.Cert.Raw }

func (w *world) check(t *rapid.T, trace string, sub *stats.Sub) {
	var hosts []string
	hosts = append(hosts, clusterNames...)
	hosts = append(hosts, aliasPool...)
	hosts = append(hosts, "unknown.example.com")
	getCfg := w.box.Controller.WrapGetConfigForClient(baseConfig)
	for _, h := range hosts {
		want, may := w.expect(h)
		tolerated := false
		for _, variant := range []string{h, strings.ToUpper(h), h + ":6443", strings.ToUpper(h) + ":443"} {
			got := w.box.Owner(gatewaynet.HostWithoutPort(variant))
			if got != want {
				if may[got] {
					tolerated = true
					continue
				}
				t.Fatalf("host %q resolves to cluster %q, the object history says %q\ntrace: %s", variant, got, want, trace)
			}
			sub.Class("lookup")
		}
		if tolerated {
			sub.Class("lookup-tolerated-alternative")
			continue
		}
		// TLS handshake view
		for _, sni := range []string{h, strings.ToUpper(h)} {
			cfg, err := getCfg(&tls.ClientHelloInfo{ServerName: sni})
			if err != nil {
				t.Fatalf("GetConfigForClient(%q): %v", sni, err)
			}
			wantCert := certOf(baseMat)
			var wantCA *x509.Certificate
			if want != "" {
				ss := w.applied[want].Spec.SecureServing
				for _, m := range pki.WithRenewals(3) {
					if len(ss.CertData) > 0 && bytes.Equal(ss.CertData, m.CertPEM) {
						wantCert = certOf(m)
					}
					if len(ss.ClientCAData) > 0 && bytes.Equal(ss.ClientCAData, m.CAPEM) {
						wantCA = m.CACert
					}
				}
			}
			if len(cfg.Certificates) != 1 || !bytes.Equal(cfg.Certificates[0].Certificate[0], wantCert) {
				t.Fatalf("handshake for %q (owner %q) does not present the owner's serving certificate\ntrace: %s", sni, want, trace)
			}
			if wantCA == nil {
				if cfg.ClientCAs != nil {
					t.Fatalf("handshake for %q (owner %q) uses a client-CA pool although the owner configures none\ntrace: %s", sni, want, trace)
				}
			} else {
				var subj [][]byte
				if cfg.ClientCAs != nil {
					subj = cfg.ClientCAs.Subjects() //nolint
				}
				if cfg.ClientCAs == nil || len(subj) != 1 || !bytes.Equal(subj[0], wantCA.RawSubject) {
					t.Fatalf("handshake for %q (owner %q) does not use the owner's client-CA pool\ntrace: %s", sni, want, trace)
				}
			}
			for _, hv := range []string{sni, sni + ":6443"} {
				vo, ok := w.box.Controller.SNIVerifyOptions(hv)
				if wantCA == nil {
					if ok {
						t.Fatalf("client-certificate verification options exist for %q (owner %q) although the owner configures no client CA\ntrace: %s", hv, want, trace)
					}
				} else {
					var subj [][]byte
					if ok && vo.Roots != nil {
						subj = vo.Roots.Subjects() //nolint
					}
					if !ok || len(subj) != 1 || !bytes.Equal(subj[0], wantCA.RawSubject) {
						t.Fatalf("client-certificate verification options for %q are not those of owner %q\ntrace: %s", hv, want, trace)
					}
				}
			}
		}
	}
}

func TestPropNameOwnership(t *testing.T) {
	sub := stats.NewSub("name-ownership-histories", "rapid state machine on the real controller: ops create/update a cluster (valid object; server names drawn from a pool with case variants; two in three not claimed by another object, one in three free to collide with names another cluster holds, including an object NAMED like another cluster's server name), delete, delete-and-create-again under the same name with a new uid before the controller has processed the deletion, duplicate delivery (the event may carry a superseded version of the object; also of the delete event of a vanished or refused object); model: a delivery whose latest object claims a name held by another cluster is refused and changes nothing, any other delivery makes the latest object the served one; during every update two readers look up the names the cluster keeps (they must resolve to it at every moment); after every event, for every name of the pool x {as is, upper case, with port}: Manager.Get(HostWithoutPort(h)), the tls.Config for a ClientHello with that SNI (certificate, client-CA subjects) and SNIVerifyOptions must be those of the model's owner or nobody's (a name listed only by the refused or only by the still-served version of a cluster may resolve to it or to nobody); non-trivial = the history moves an alias between clusters, reuses a name after a delete, has a name owned under a different case than looked up, or has a refused object; distinct by FNV-64 of the op trace")
	mats := pki.WithRenewals(3) // three key pairs, each with a renewed certificate for the same key
	stats.Check(t, stats.N(1500, 8000), func(t *rapid.T) {
		w := &world{box: ctlbox.New(), api: map[string]*proxyv1alpha1.UpstreamCluster{}, applied: map[string]*proxyv1alpha1.UpstreamCluster{}}
		defer w.box.Close()
		trace := ""
		everOwned := map[string]string{}                          // name -> last owner, to detect moves / reuse
		last := map[string]*proxyv1alpha1.UpstreamCluster{}       // last object ever stored per name (to redeliver delete events)
		versions := map[string][]*proxyv1alpha1.UpstreamCluster{} // every version stored since the object (re)appeared
		nt := false
		sub.Eval()
		// deliver hands the event of cluster `name` to the controller and moves the model
		deliver := func(t *rapid.T, name string) {
			obj := w.api[name]
			if obj == nil {
				wasRefused := w.applied[name] == nil
				if _, err := w.box.Deliver(last[name]); err != nil {
					t.Fatalf("delete event of %s failed: %v\ntrace: %s", name, err, trace)
				}
				delete(w.applied, name)
				for k, v := range everOwned {
					if v == name {
						everOwned[k] = "<deleted:" + name + ">"
					}
				}
				if wasRefused {
					sub.Class("delete-event-of-a-cluster-that-is-not-served")
				}
				return
			}
			conflict := w.conflicts(name, obj)
			// the event may carry a SUPERSEDED version of the object (an earlier event still queued or requeued while
			// the lister already has the latest one): the outcome must be that of the latest object
			ev := obj
			if vs := versions[name]; len(vs) > 1 && rapid.IntRange(0, 2).Draw(t, "eventCarriesAnOlderVersion") == 0 {
				ev = vs[rapid.IntRange(0, len(vs)-2).Draw(t, "olderVersion")]
				trace += "(event object: an older version) "
				sub.Class("event-carries-a-superseded-version")
			}
			// names the cluster holds before and after this delivery must resolve to it AT EVERY MOMENT: two readers
			// look them up while the controller processes the event
			var kept []string
			if cur := w.applied[name]; cur != nil && !conflict && cur.UID == obj.UID { // (an object created again is another object: no such demand)
				after := namesOf(name, obj)
				for h := range namesOf(name, cur) {
					if after[h] {
						kept = append(kept, h)
					}
				}
				sort.Strings(kept)
			}
			stopReaders := make(chan struct{})
			var readers sync.WaitGroup
			var missed atomic.Value
			var lookups int64
			for r := 0; r < 2 && len(kept) > 0; r++ {
				readers.Add(1)
				go func(r int) {
					defer readers.Done()
					for i := r; ; i++ {
						select {
						case <-stopReaders:
							return
						default:
						}
						h := kept[i%len(kept)]
						if got := w.box.Owner(h); got != name {
							missed.Store(fmt.Sprintf("%q resolved to %q", h, got))
						}
						atomic.AddInt64(&lookups, 1)
					}
				}(r)
			}
			res, err := w.box.Deliver(ev)
			close(stopReaders)
			readers.Wait()
			if m := missed.Load(); m != nil {
				t.Fatalf("while the update of %s was processed a name it keeps did not resolve to it: %v\ntrace: %s", name, m, trace)
			}
			if len(kept) > 0 {
				sub.ClassN("lookups-concurrent-with-an-update", int(atomic.LoadInt64(&lookups)))
			}
			if conflict {
				nt = true
				sub.Class("refused-for-a-name-held-by-another-cluster")
				if err == nil && res.RequeueAfter == 0 {
					sub.Class("refused-object-reported-as-synced")
				}
				return
			}
			if err != nil || res.RequeueAfter > 0 {
				t.Fatalf("sync of %s failed (err=%v requeue=%v) although no other cluster holds one of its names\ntrace: %s", name, err, res.RequeueAfter, trace)
			}
			w.applied[name] = obj
			for _, sn := range append([]string{name}, obj.Spec.SecureServing.ServerNames...) {
				l := strings.ToLower(sn)
				if prev, ok := everOwned[l]; ok && prev != name {
					nt = true
					sub.Class("alias-moved-or-reused")
				}
				if sn != l {
					nt = true
				}
				everOwned[l] = name
			}
		}
		t.Repeat(map[string]func(*rapid.T){
			"upsert": func(t *rapid.T) {
				name := rapid.SampledFrom(clusterNames).Draw(t, "cluster")
				collide := rapid.IntRange(0, 2).Draw(t, "mayCollide") == 0
				pool := aliasPool
				if !collide {
					taken := w.claimedByOthers(name)
					if taken[name] {
						t.Skip("the cluster name is claimed as an alias by another object")
					}
					pool = nil
					for _, a := range aliasPool {
						if !taken[strings.ToLower(a)] {
							pool = append(pool, a) // includes other spellings of the cluster's own name
						}
					}
				}
				obj := gen.GenValidCluster(t, "obj", name, gen.ObjOpts{Endpoints: []string{"http://127.0.0.1:1", "http://127.0.0.1:2"}, ServerNames: pool, PKI: mats, SchemaNames: []string{"s1"}, NoGlobal: true})
				if errs := validation.ValidateUpstreamCluster(obj); len(errs) > 0 {
					t.Fatalf("harness: generated object is not valid: %v", errs)
				}
				w.box.Store(obj)
				w.api[name], last[name] = obj, obj
				versions[name] = append(versions[name], obj)
				trace += fmt.Sprintf("upsert(%s,names=%q);", name, obj.Spec.SecureServing.ServerNames)
				deliver(t, name)
			},
			"delete": func(t *rapid.T) {
				name := rapid.SampledFrom(clusterNames).Draw(t, "cluster")
				obj := w.api[name]
				if obj == nil {
					t.Skip("not stored")
				}
				delete(w.api, name)
				delete(versions, name)
				w.box.Remove(obj)
				trace += fmt.Sprintf("delete(%s);", name)
				deliver(t, name)
				sub.Class("delete")
			},
			"recreate": func(t *rapid.T) {
				// the object is deleted and created again under the same name (a new uid, other names) before the
				// controller has seen the deletion: the next event it processes - the delete event, a queued event of the
				// old object, or the add event - already finds the new object in the lister
				name := rapid.SampledFrom(clusterNames).Draw(t, "cluster")
				old := w.api[name]
				if old == nil || w.applied[name] == nil {
					t.Skip("not stored or not served")
				}
				taken := w.claimedByOthers(name)
				if taken[name] {
					t.Skip("the cluster name is claimed as an alias by another object")
				}
				var pool []string
				for _, a := range aliasPool {
					if !taken[strings.ToLower(a)] {
						pool = append(pool, a)
					}
				}
				obj := gen.GenValidCluster(t, "obj", name, gen.ObjOpts{Endpoints: []string{"http://127.0.0.1:1", "http://127.0.0.1:2"}, ServerNames: pool, PKI: mats, SchemaNames: []string{"s1"}, NoGlobal: true})
				if errs := validation.ValidateUpstreamCluster(obj); len(errs) > 0 {
					t.Fatalf("harness: generated object is not valid: %v", errs)
				}
				w.box.Remove(old)
				w.box.Store(obj)
				w.api[name], last[name] = obj, obj
				versions[name] = append(versions[name], obj) // earlier versions (of the deleted object) may still arrive as events
				trace += fmt.Sprintf("recreate(%s,uid %s -> %s,names=%q);", name, old.UID, obj.UID, obj.Spec.SecureServing.ServerNames)
				deliver(t, name)
				nt = true
				sub.Class("deleted-and-created-again-before-the-deletion-was-processed")
			},
			"redeliver": func(t *rapid.T) {
				name := rapid.SampledFrom(clusterNames).Draw(t, "cluster")
				if last[name] == nil {
					t.Skip("never stored")
				}
				trace += fmt.Sprintf("redeliver(%s);", name)
				deliver(t, name)
			},
			"": func(t *rapid.T) { w.check(t, trace, sub) },
		})
		if nt {
			sub.NonTrivial(stats.HashString(trace))
			if sub.WantSample() {
				sub.Sample(trace)
			}
		}
	})
}
