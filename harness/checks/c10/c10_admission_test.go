//go:build verif

package c10

import (
	"context"
	"fmt"
	"sort"
	"strings"
	"testing"

	metav1 "k8s.io/apimachinery/pkg/apis/meta/v1"
	"k8s.io/apiserver/pkg/admission"
	"k8s.io/client-go/tools/cache"
	"pgregory.net/rapid"

	proxyv1alpha1 "github.com/kubewharf/kubegateway/pkg/apis/proxy/v1alpha1"
	"github.com/kubewharf/kubegateway/pkg/apis/proxy/v1alpha1/validation"
	gwinformers "github.com/kubewharf/kubegateway/pkg/client/informers"
	gatewayfake "github.com/kubewharf/kubegateway/pkg/client/kubernetes/fake"
	"github.com/kubewharf/kubegateway/pkg/client/kubernetes/scheme"
	upstreamclusteradmission "github.com/kubewharf/kubegateway/plugin/admission/upstreamcluster"
	"verifharness/internal/gen"
	"verifharness/internal/stats"
)

// the real admission plugin over an informer cache whose store the check fills by hand
var admPlugin, admStore = func() (admission.ValidationInterface, cache.Indexer) {
	p := upstreamclusteradmission.NewUpstreamClusterPlugin()
	f := gwinformers.NewSharedInformerFactory(gatewayfake.NewSimpleClientset(), 0)
	p.(interface {
		SetGatewayResourceInformerFactory(gwinformers.SharedInformerFactory)
	}).SetGatewayResourceInformerFactory(f)
	idx := f.Proxy().V1alpha1().UpstreamClusters().Informer().GetIndexer()
	stop := make(chan struct{})
	f.Start(stop)
	f.WaitForCacheSync(stop)
	return p.(admission.ValidationInterface), idx
}()

var admObjInterfaces = admission.NewObjectInterfacesFromScheme(scheme.Scheme)

// host names the stored clusters and the submitted object draw their names and server names from
var admHosts = []string{"alpha", "beta", "gamma", "a.example.com", "b.example.com", "shared.io"}

// spell returns the host in one of several spellings (server names are free-form, any case)
func spell(t *rapid.T, label, h string) string {
	switch rapid.IntRange(0, 3).Draw(t, label) {
	case 0:
		return strings.ToUpper(h)
	case 1:
		return strings.ToUpper(h[:1]) + h[1:]
	case 2:
		b := []byte(h)
		for i := range b {
			if i%2 == 1 {
				b[i] = strings.ToUpper(string(b[i]))[0]
			}
		}
		return string(b)
	}
	return h
}

// TestPropAdmissionRefusesCollidingNames: the admission plugin is what keeps two STORED clusters from claiming one
// host (the controller only arbitrates by arrival order). Names compare case-insensitively.
func TestPropAdmissionRefusesCollidingNames(t *testing.T) {
	sub := stats.NewSub("admission-refuses-colliding-names", "rapid: 0-4 stored clusters (lower-case names from a pool of 6 hosts, 0-3 server names each in any spelling: upper, capitalised, alternating, lower) in the informer cache of the real admission plugin, and a submitted valid object (a name from the pool, 0-3 server names in any spelling) as a create or, when an object of that name is stored, an update; oracle (reference model): if the submitted name or one of its server names equals, case-insensitively, the name or a server name of ANOTHER stored cluster, Validate returns an error; (acceptance of collision-free objects is counted, not demanded); non-trivial = the object collides with another cluster only through names that are spelled differently; distinct by FNV-64 of the case description")
	stats.Check(t, stats.N(3000, 30000), func(t *rapid.T) {
		for _, o := range admStore.List() {
			_ = admStore.Delete(o)
		}
		nStored := rapid.IntRange(0, 4).Draw(t, "stored")
		names := rapid.Permutation(admHosts).Draw(t, "storedNames")[:nStored]
		var desc []string
		stored := map[string]*proxyv1alpha1.UpstreamCluster{}
		for i, n := range names {
			c := gen.GenValidCluster(t, fmt.Sprintf("stored[%d]", i), n, gen.ObjOpts{Endpoints: []string{"https://127.0.0.1:6443"}, NoGlobal: true})
			c.Spec.SecureServing.ServerNames = nil
			for j, k := 0, rapid.IntRange(0, 3).Draw(t, fmt.Sprintf("stored[%d].nsn", i)); j < k; j++ {
				h := rapid.SampledFrom(admHosts).Draw(t, fmt.Sprintf("stored[%d].sn[%d]", i, j))
				c.Spec.SecureServing.ServerNames = append(c.Spec.SecureServing.ServerNames, spell(t, fmt.Sprintf("stored[%d].sn[%d].spelling", i, j), h))
			}
			c.ResourceVersion = "1"
			if err := admStore.Add(c); err != nil {
				t.Fatalf("harness: %v", err)
			}
			stored[n] = c
			desc = append(desc, fmt.Sprintf("%s%q", n, c.Spec.SecureServing.ServerNames))
		}
		sort.Strings(desc)
		name := rapid.SampledFrom(admHosts).Draw(t, "name")
		obj := gen.GenValidCluster(t, "submitted", name, gen.ObjOpts{Endpoints: []string{"https://127.0.0.1:6443"}, NoGlobal: true})
		obj.Spec.SecureServing.ServerNames = nil
		for j, k := 0, rapid.IntRange(0, 3).Draw(t, "nsn"); j < k; j++ {
			h := rapid.SampledFrom(admHosts).Draw(t, fmt.Sprintf("sn[%d]", j))
			obj.Spec.SecureServing.ServerNames = append(obj.Spec.SecureServing.ServerNames, spell(t, fmt.Sprintf("sn[%d].spelling", j), h))
		}
		if errs := validation.ValidateUpstreamCluster(obj); len(errs) > 0 {
			t.Fatalf("harness: submitted object is not valid on its own: %v", errs)
		}
		// reference model
		mine := namesOf(name, obj)
		var collisions []string
		for n, c := range stored {
			if n == name {
				continue
			}
			for _, x := range append([]string{n}, c.Spec.SecureServing.ServerNames...) {
				if mine[strings.ToLower(x)] {
					collisions = append(collisions, fmt.Sprintf("%s (cluster %s)", x, n))
				}
			}
		}
		// differently spelled: no collision has an identically spelled counterpart
		diffSpelled := len(collisions) > 0
		for n, c := range stored {
			if n == name {
				continue
			}
			for _, s := range append([]string{n}, c.Spec.SecureServing.ServerNames...) {
				if s == name {
					diffSpelled = false
				}
				for _, sn := range obj.Spec.SecureServing.ServerNames {
					if sn == s {
						diffSpelled = false
					}
				}
			}
		}
		sort.Strings(collisions)
		gvk := proxyv1alpha1.SchemeGroupVersion.WithKind("UpstreamCluster")
		gvr := proxyv1alpha1.SchemeGroupVersion.WithResource("upstreamclusters")
		var attrs admission.Attributes
		op := "create"
		if old := stored[name]; old != nil {
			op = "update"
			obj.ResourceVersion = "1"
			attrs = admission.NewAttributesRecord(obj.DeepCopy(), old.DeepCopy(), gvk, "", name, gvr, "", admission.Update, &metav1.UpdateOptions{}, false, nil)
		} else {
			attrs = admission.NewAttributesRecord(obj.DeepCopy(), nil, gvk, "", name, gvr, "", admission.Create, &metav1.CreateOptions{}, false, nil)
		}
		err := admPlugin.Validate(context.Background(), attrs, admObjInterfaces)
		sub.Eval()
		d := fmt.Sprintf("stored=%v %s %s%q", desc, op, name, obj.Spec.SecureServing.ServerNames)
		if len(collisions) > 0 && err == nil {
			t.Fatalf("admission accepted an object that claims names of other stored clusters: %v\n%s", collisions, d)
		}
		switch {
		case len(collisions) > 0:
			sub.Class("refused-" + op + "-colliding")
		case err == nil:
			sub.Class("accepted-" + op + "-without-collision")
		default:
			sub.Class("refused-without-collision")
		}
		if diffSpelled {
			sub.NonTrivial(stats.HashString(d))
			sub.Class("collision-only-through-different-spellings")
			if sub.WantSample() {
				sub.Sample(d)
			}
		}
	})
}
