//go:build verif

package c01

import (
	"testing"

	"pgregory.net/rapid"

	"verifharness/internal/gen"
	"verifharness/internal/refmodel"
)

// FuzzRefModel drives the reference-model property with Go's coverage-guided fuzzer (thorough tier): the fuzzer's bytes
// are rapid's bit stream, so every input is a (policy list, request) pair from the same generators.
func FuzzRefModel(f *testing.F) {
	f.Fuzz(rapid.MakeFuzz(func(t *rapid.T) {
		policies := gen.GenPolicies(t, "policies", 4, 3)
		req := gen.GenRequest(t, "req")
		if got, want := realIndex(req, policies), refmodel.MatchPolicies(req, policies); got != want {
			t.Fatalf("MatchPolicies picked policy %d, reference says %d\nrequest: %s\npolicies: %s", got, want, req, gen.PoliciesString(policies))
		}
	}))
}
