//go:build verif

// C01 — first matching dispatch policy, documented rule semantics.
package c01

import (
	"fmt"
	"strings"
	"testing"

	"k8s.io/apiserver/pkg/authentication/user"
	"k8s.io/apiserver/pkg/authorization/authorizer"
	"pgregory.net/rapid"

	proxyv1alpha1 "github.com/kubewharf/kubegateway/pkg/apis/proxy/v1alpha1"
	"github.com/kubewharf/kubegateway/pkg/clusters"
	"verifharness/internal/gen"
	"verifharness/internal/refmodel"
	"verifharness/internal/stats"

	metav1 "k8s.io/apimachinery/pkg/apis/meta/v1"
)

func TestMain(m *testing.M) {
	stats.Property("C01")
	stats.Assume(
		"reference matcher (internal/refmodel/matcher.go) written from docs/en/design.md and the property statement is the oracle",
		"globs are generated with exactly one trailing '*' (the only form the documentation defines); '{resource}/*' is never generated (documented as not allowed)",
		"'-' entries in nonResourceURLs are never used for matching (documentation: nonResourceURLs do not support anti-selection)",
		"Go runtime, pgregory.net/rapid v1.3.0",
	)
	stats.Main(m)
}

// realIndex asks the real matcher and maps the returned policy pointer back to its index.
func realIndex(req gen.Request, policies []proxyv1alpha1.DispatchPolicy) int {
	p := clusters.MatchPolicies(req.Attributes(), policies)
	if p == nil {
		return -1
	}
	for i := range policies {
		if p == &policies[i] {
			return i
		}
	}
	return -2
}

func nontrivial(policies []proxyv1alpha1.DispatchPolicy, want int) (bool, []string) {
	var why []string
	var s refmodel.ListShape
	for i := range policies {
		for j := range policies[i].Rules {
			x := refmodel.RuleShape(&policies[i].Rules[j])
			s.InvertedOnlyMulti = s.InvertedOnlyMulti || x.InvertedOnlyMulti
			s.Mixed = s.Mixed || x.Mixed
			s.Glob = s.Glob || x.Glob
		}
	}
	if s.InvertedOnlyMulti {
		why = append(why, "inverted-only-list>=2")
	}
	if s.Mixed {
		why = append(why, "mixed-positive-inverted")
	}
	if s.Glob {
		why = append(why, "glob-or-*/sub")
	}
	if want > 0 {
		why = append(why, "match-not-first-policy")
	}
	return len(why) > 0, why
}

// TestPropRefModel: MatchPolicies agrees with the reference matcher on generated (policy list, request) pairs.
func TestPropRefModel(t *testing.T) {
	sub := stats.NewSub("refmodel", "rapid: 1-4 policies x 1-3 rules over tiny alphabets (all eight fields, positive/inverted/'*'/''/glob/'*/sub' entries, duplicates) x one request tuple; oracle = reference matcher index; non-trivial = case has an inverted-only list with >=2 entries, or mixed positive/inverted entries, or a glob / '*/sub' entry, or the reference match is not the first policy; distinct by FNV-64 of (policies, request)")
	stats.Check(t, stats.N(120000, 1500000), func(t *rapid.T) {
		policies := gen.GenPolicies(t, "policies", 4, 3)
		req := gen.GenRequest(t, "req")
		want := refmodel.MatchPolicies(req, policies)
		got := realIndex(req, policies)
		sub.Eval()
		nt, why := nontrivial(policies, want)
		if nt {
			sub.NonTrivial(stats.HashString(gen.PoliciesString(policies) + req.String()))
			for _, w := range why {
				sub.Class(w)
			}
		}
		if want >= 0 {
			sub.Class("matched")
		} else {
			sub.Class("no-match")
		}
		if sub.WantSample() && nt {
			sub.Sample(map[string]interface{}{"policies": gen.PoliciesString(policies), "request": req.String(), "reference_index": want, "gateway_index": got})
		}
		if got != want {
			t.Fatalf("MatchPolicies picked policy %d, reference says %d\nrequest: %s\npolicies: %s", got, want, req, gen.PoliciesString(policies))
		}
	})
}

// TestPropSingleRule: one rule, one request — RuleMatches agrees with the reference (denser in matching rules).
func TestPropSingleRule(t *testing.T) {
	sub := stats.NewSub("single-rule", "rapid: one rule (all eight fields) x one request; oracle = reference RuleMatches; non-trivial as in refmodel")
	stats.Check(t, stats.N(120000, 1500000), func(t *rapid.T) {
		rule := gen.GenRule(t, "rule", gen.RuleOpts{Permissive: rapid.Bool().Draw(t, "permissive")})
		req := gen.GenRequest(t, "req")
		want := refmodel.RuleMatches(req, &rule)
		got := clusters.RuleMatches(req.Attributes(), &rule)
		sub.Eval()
		s := refmodel.RuleShape(&rule)
		if s.InvertedOnlyMulti || s.Mixed || s.Glob {
			sub.NonTrivial(stats.HashString(gen.RuleString(rule) + req.String()))
		}
		if want {
			sub.Class("matches")
		} else {
			sub.Class("does-not-match")
		}
		if sub.WantSample() && s.InvertedOnlyMulti {
			sub.Sample(map[string]interface{}{"rule": gen.RuleString(rule), "request": req.String(), "reference": want, "gateway": got})
		}
		if got != want {
			t.Fatalf("RuleMatches = %v, reference says %v\nrequest: %s\nrule: %s", got, want, req, gen.RuleString(rule))
		}
	})
}

func newCluster(t interface{ Fatalf(string, ...interface{}) }, name string, policies []proxyv1alpha1.DispatchPolicy) *clusters.ClusterInfo {
	ci := clusters.NewEmptyClusterInfo(name, nil, nil, "", nil)
	uc := &proxyv1alpha1.UpstreamCluster{ObjectMeta: metav1.ObjectMeta{Name: name}}
	uc.Spec.DispatchPolicies = policies
	if err := ci.Sync(uc); err != nil {
		t.Fatalf("harness: Sync failed: %v", err)
	}
	return ci
}

// midSyncAttrs calls onRead whenever the matcher reads an attribute.
type midSyncAttrs struct {
	authorizer.Attributes
	onRead func()
}

func (m *midSyncAttrs) GetUser() user.Info     { m.onRead(); return m.Attributes.GetUser() }
func (m *midSyncAttrs) GetVerb() string        { m.onRead(); return m.Attributes.GetVerb() }
func (m *midSyncAttrs) GetAPIGroup() string    { m.onRead(); return m.Attributes.GetAPIGroup() }
func (m *midSyncAttrs) GetResource() string    { m.onRead(); return m.Attributes.GetResource() }
func (m *midSyncAttrs) GetSubresource() string { m.onRead(); return m.Attributes.GetSubresource() }
func (m *midSyncAttrs) GetName() string        { m.onRead(); return m.Attributes.GetName() }
func (m *midSyncAttrs) GetPath() string        { m.onRead(); return m.Attributes.GetPath() }
func (m *midSyncAttrs) IsResourceRequest() bool {
	m.onRead()
	return m.Attributes.IsResourceRequest()
}

func clusterIndex(ci *clusters.ClusterInfo, req gen.Request) (int, error) {
	p, err := ci.MatchAttributes(req.Attributes())
	if err != nil {
		if err == clusters.ErrNoRouterRuleMatches {
			return -1, nil
		}
		return -2, err
	}
	var i int
	if _, err := fmt.Sscanf(p.FlowControlName(), "p%d", &i); err != nil {
		return -2, fmt.Errorf("unexpected flow control name %q", p.FlowControlName())
	}
	return i, nil
}

// TestPropClusterInfo: the decision made by ClusterInfo.MatchAttributes (what the dispatcher asks) equals the
// reference, depends only on (attributes, current policy list): same twice, same on a fresh ClusterInfo, same after
// unrelated spec churn, and follows the current list after a policy update.
func TestPropClusterInfo(t *testing.T) {
	sub := stats.NewSub("clusterinfo-metamorphic", "rapid: policy list A, policy list B (one time in six empty: every policy removed), 3 requests; ClusterInfo synced A -> (unrelated churn) -> B (the update runs inside the k-th attribute read of a request being routed: that request gets the decision for A or for B, never a mix) -> A; oracle = reference index for the list current at each point + equality with a fresh ClusterInfo; non-trivial = reference answers for A and B differ for some request")
	stats.Check(t, stats.N(4000, 60000), func(t *rapid.T) {
		a := gen.GenPolicies(t, "A", 3, 2)
		b := gen.GenPolicies(t, "B", 3, 2)
		switch rapid.IntRange(0, 11).Draw(t, "emptyB") {
		case 0:
			b = nil // every policy removed (validation refuses such an object, the data plane must still follow the list)
		case 1:
			b = []proxyv1alpha1.DispatchPolicy{}
		}
		reqs := []gen.Request{gen.GenRequest(t, "r0"), gen.GenRequest(t, "r1"), gen.GenRequest(t, "r2")}
		ci := newCluster(t, "c1", a)
		defer ci.Stop()
		sub.Eval()
		check := func(stage string, ci *clusters.ClusterInfo, pol []proxyv1alpha1.DispatchPolicy) {
			for _, r := range reqs {
				want := refmodel.MatchPolicies(r, pol)
				for rep := 0; rep < 2; rep++ {
					got, err := clusterIndex(ci, r)
					if err != nil {
						t.Fatalf("%s: MatchAttributes error %v", stage, err)
					}
					if got != want {
						t.Fatalf("%s: MatchAttributes chose policy %d, reference %d (repeat %d)\nrequest: %s\npolicies: %s", stage, got, want, rep, r, gen.PoliciesString(pol))
					}
				}
			}
		}
		check("after sync A", ci, a)
		// unrelated churn: logging + flow control schemas, same policies
		uc := &proxyv1alpha1.UpstreamCluster{ObjectMeta: metav1.ObjectMeta{Name: "c1"}}
		uc.Spec.DispatchPolicies = a
		uc.Spec.Logging.Mode = proxyv1alpha1.LogOn
		uc.Spec.FlowControl.Schemas = []proxyv1alpha1.FlowControlSchema{{Name: "p0", FlowControlSchemaConfiguration: proxyv1alpha1.FlowControlSchemaConfiguration{MaxRequestsInflight: &proxyv1alpha1.MaxRequestsInflightFlowControlSchema{Max: 1}}}}
		if err := ci.Sync(uc); err != nil {
			t.Fatalf("harness: %v", err)
		}
		check("after unrelated churn", ci, a)
		uc2 := &proxyv1alpha1.UpstreamCluster{ObjectMeta: metav1.ObjectMeta{Name: "c1"}}
		uc2.Spec.DispatchPolicies = b
		// the update to B arrives WHILE a request is being routed: the Sync runs inside the k-th attribute the matcher
		// reads. The decision must be the one for A or the one for B - the published list is a snapshot, never a mix.
		// (B's policies get other schema names so that A[i] and B[i] can be told apart.)
		bq := make([]proxyv1alpha1.DispatchPolicy, len(b))
		for i := range b {
			bq[i] = *b[i].DeepCopy()
			bq[i].FlowControlSchemaName = fmt.Sprintf("q%d", i)
		}
		uc2.Spec.DispatchPolicies = bq
		racing := reqs[rapid.IntRange(0, len(reqs)-1).Draw(t, "racingRequest")]
		at := rapid.IntRange(1, 12).Draw(t, "syncInsideAttributeRead")
		reads := 0
		synced := false
		ma := &midSyncAttrs{Attributes: racing.Attributes(), onRead: func() {
			reads++
			if reads == at && !synced {
				synced = true
				if err := ci.Sync(uc2); err != nil {
					t.Fatalf("harness: %v", err)
				}
			}
		}}
		picker, merr := ci.MatchAttributes(ma)
		gotName := "<no policy>"
		if merr == nil {
			gotName = picker.FlowControlName()
		} else if merr != clusters.ErrNoRouterRuleMatches {
			t.Fatalf("MatchAttributes during an update: %v", merr)
		}
		name := func(prefix string, idx int) string {
			if idx < 0 {
				return "<no policy>"
			}
			return fmt.Sprintf("%s%d", prefix, idx)
		}
		wantA, wantB := name("p", refmodel.MatchPolicies(racing, a)), name("q", refmodel.MatchPolicies(racing, b))
		if synced && gotName != wantA && gotName != wantB {
			t.Fatalf("a request routed while the policy list was updated got %s; with the old list it gets %s, with the new one %s (the update ran inside attribute read %d)\nrequest: %s\nold: %s\nnew: %s", gotName, wantA, wantB, at, racing, gen.PoliciesString(a), gen.PoliciesString(b))
		}
		if synced {
			sub.Class("request-routed-during-a-policy-update")
		} else if err := ci.Sync(uc2); err != nil {
			t.Fatalf("harness: %v", err)
		}
		uc2b := &proxyv1alpha1.UpstreamCluster{ObjectMeta: metav1.ObjectMeta{Name: "c1"}}
		uc2b.Spec.DispatchPolicies = b
		if err := ci.Sync(uc2b); err != nil {
			t.Fatalf("harness: %v", err)
		}
		check("after sync B", ci, b)
		fresh := newCluster(t, "c1", b)
		check("fresh cluster with B", fresh, b)
		fresh.Stop()
		uc3 := &proxyv1alpha1.UpstreamCluster{ObjectMeta: metav1.ObjectMeta{Name: "c1"}}
		uc3.Spec.DispatchPolicies = a
		if err := ci.Sync(uc3); err != nil {
			t.Fatalf("harness: %v", err)
		}
		check("back to A", ci, a)
		differs := false
		for _, r := range reqs {
			if refmodel.MatchPolicies(r, a) != refmodel.MatchPolicies(r, b) {
				differs = true
			}
		}
		if differs {
			sub.NonTrivial(stats.HashString(gen.PoliciesString(a) + "#" + gen.PoliciesString(b) + fmt.Sprint(reqs)))
			sub.Class("A-and-B-differ")
			if sub.WantSample() {
				sub.Sample(map[string]interface{}{"A": gen.PoliciesString(a), "B": gen.PoliciesString(b), "requests": fmt.Sprint(reqs)})
			}
		}
	})
}

// TestPropOrderMetamorphic: relations that follow from "first matching policy in list order; rules of a policy are OR-ed".
func TestPropOrderMetamorphic(t *testing.T) {
	sub := stats.NewSub("order-metamorphic", "rapid: policy list + request; relations: permuting rules inside a policy, appending policies behind the match and deleting non-matching policies in front of it do not change the chosen policy; moving the chosen policy to the front keeps it chosen; non-trivial = a policy matched and the list has >=2 policies")
	stats.Check(t, stats.N(40000, 500000), func(t *rapid.T) {
		policies := gen.GenPolicies(t, "policies", 4, 3)
		req := gen.GenRequest(t, "req")
		base := realIndex(req, policies)
		sub.Eval()
		if base == -2 {
			t.Fatalf("MatchPolicies returned a pointer outside the list")
		}
		name := func(i int, ps []proxyv1alpha1.DispatchPolicy) string {
			if i < 0 {
				return "<none>"
			}
			return ps[i].FlowControlSchemaName
		}
		// 1. reverse the rules inside every policy
		rev := make([]proxyv1alpha1.DispatchPolicy, len(policies))
		for i, p := range policies {
			q := *p.DeepCopy()
			for l, r := 0, len(q.Rules)-1; l < r; l, r = l+1, r-1 {
				q.Rules[l], q.Rules[r] = q.Rules[r], q.Rules[l]
			}
			rev[i] = q
		}
		if got := realIndex(req, rev); got != base {
			t.Fatalf("reversing rules inside policies changed the decision %d -> %d\nrequest %s\npolicies %s", base, got, req, gen.PoliciesString(policies))
		}
		// 2. append an extra catch-all policy behind
		extra := proxyv1alpha1.DispatchPolicy{FlowControlSchemaName: "extra", Rules: []proxyv1alpha1.DispatchPolicyRule{{Verbs: []string{"*"}, APIGroups: []string{"*"}, Resources: []string{"*"}, NonResourceURLs: []string{"*"}}}}
		app := append(append([]proxyv1alpha1.DispatchPolicy{}, policies...), extra)
		got := realIndex(req, app)
		if base >= 0 && got != base {
			t.Fatalf("appending a policy behind the match changed the decision %d -> %d\nrequest %s\npolicies %s", base, got, req, gen.PoliciesString(policies))
		}
		if base < 0 && got != len(policies) {
			t.Fatalf("catch-all policy appended to a non-matching list was not chosen (got %d)\nrequest %s\npolicies %s", got, req, gen.PoliciesString(policies))
		}
		if base >= 0 {
			// 3. delete the policies in front of the match: the match must now be index 0
			cut := policies[base:]
			if got := realIndex(req, cut); got != 0 {
				t.Fatalf("after deleting the %d non-matching policies in front, policy %s is no longer chosen (got %s)\nrequest %s\npolicies %s", base, name(base, policies), name(got, cut), req, gen.PoliciesString(policies))
			}
			// 4. every policy in front of the match does not match on its own
			for i := 0; i < base; i++ {
				if clusters.PolicyMatches(req.Attributes(), &policies[i]) {
					t.Fatalf("policy %d matches on its own but policy %d was chosen\nrequest %s\npolicies %s", i, base, req, gen.PoliciesString(policies))
				}
			}
			if len(policies) >= 2 {
				sub.NonTrivial(stats.HashString(gen.PoliciesString(policies) + req.String()))
				sub.Class(fmt.Sprintf("match-index-%d", base))
				if sub.WantSample() && base > 0 {
					sub.Sample(map[string]interface{}{"policies": gen.PoliciesString(policies), "request": req.String(), "chosen": base})
				}
			}
		} else {
			sub.Class("no-match")
		}
	})
}

// TestPropExhaustiveLists: every list of length <= 3 over {a,-a,b,-b,*,""} x requests {a,b,c,""} for each field matcher.
func TestPropExhaustiveLists(t *testing.T) {
	sub := stats.NewSub("exhaustive-field-lists", "enumeration: every list of length 0..3 over the entry alphabet {a,-a,b,-b,*,\"\"} (259 lists) x request values {a,b,c,\"\"} for each of the eight field matchers (users also with glob entries a*,-a*; resources with */s,-*/s; paths with /a*), compared with the reference list semantics; non-trivial = list is inverted-only with >=2 entries or mixes positive and inverted entries")
	alpha := []string{"a", "-a", "b", "-b", "*", ""}
	var lists [][]string
	var rec func(cur []string, depth int)
	rec = func(cur []string, depth int) {
		lists = append(lists, append([]string{}, cur...))
		if depth == 3 {
			return
		}
		for _, e := range alpha {
			rec(append(cur, e), depth+1)
		}
	}
	rec(nil, 0)
	reqVals := []string{"a", "b", "c", ""}
	base := proxyv1alpha1.DispatchPolicyRule{Verbs: []string{"*"}, APIGroups: []string{"*"}, Resources: []string{"*"}, NonResourceURLs: []string{"*"}}
	type field struct {
		name string
		set  func(r *proxyv1alpha1.DispatchPolicyRule, l []string)
		req  func(v string) gen.Request
		sub  func(e string) string // alphabet substitution
	}
	id := func(e string) string { return e }
	fields := []field{
		{"verbs", func(r *proxyv1alpha1.DispatchPolicyRule, l []string) { r.Verbs = l }, func(v string) gen.Request {
			return gen.Request{Resource: true, Verb: v, Res: "pods", User: "u"}
		}, id},
		{"apiGroups", func(r *proxyv1alpha1.DispatchPolicyRule, l []string) { r.APIGroups = l }, func(v string) gen.Request {
			return gen.Request{Resource: true, Verb: "get", APIGroup: v, Res: "pods", User: "u"}
		}, id},
		{"resources", func(r *proxyv1alpha1.DispatchPolicyRule, l []string) { r.Resources = l }, func(v string) gen.Request {
			return gen.Request{Resource: true, Verb: "get", Res: v, User: "u"}
		}, id},
		{"resources-with-subresource", func(r *proxyv1alpha1.DispatchPolicyRule, l []string) { r.Resources = l }, func(v string) gen.Request {
			return gen.Request{Resource: true, Verb: "get", Res: "pods", Subresource: v, User: "u"}
		}, func(e string) string {
			// a -> */a, b -> pods/b
			neg := strings.HasPrefix(e, "-")
			b := strings.TrimPrefix(e, "-")
			switch b {
			case "a":
				b = "*/a"
			case "b":
				b = "pods/b"
			}
			if neg {
				return "-" + b
			}
			return b
		}},
		{"resourceNames", func(r *proxyv1alpha1.DispatchPolicyRule, l []string) { r.ResourceNames = l }, func(v string) gen.Request {
			return gen.Request{Resource: true, Verb: "get", Res: "pods", Name: v, User: "u"}
		}, id},
		{"users", func(r *proxyv1alpha1.DispatchPolicyRule, l []string) { r.Users = l }, func(v string) gen.Request {
			return gen.Request{Resource: true, Verb: "get", Res: "pods", User: v}
		}, id},
		{"users-glob", func(r *proxyv1alpha1.DispatchPolicyRule, l []string) { r.Users = l }, func(v string) gen.Request {
			return gen.Request{Resource: true, Verb: "get", Res: "pods", User: v + "x"}
		}, func(e string) string {
			if e == "a" || e == "-a" {
				return e + "*"
			}
			return e
		}},
		{"userGroups", func(r *proxyv1alpha1.DispatchPolicyRule, l []string) { r.UserGroups = l }, func(v string) gen.Request {
			if v == "" {
				return gen.Request{Resource: true, Verb: "get", Res: "pods", User: "u"}
			}
			if v == "c" {
				return gen.Request{Resource: true, Verb: "get", Res: "pods", User: "u", Groups: []string{"a", "b"}}
			}
			return gen.Request{Resource: true, Verb: "get", Res: "pods", User: "u", Groups: []string{v, "z"}}
		}, id},
		{"nonResourceURLs", func(r *proxyv1alpha1.DispatchPolicyRule, l []string) { r.NonResourceURLs = l }, func(v string) gen.Request {
			return gen.Request{Verb: "get", Path: "/" + v, User: "u"}
		}, func(e string) string {
			neg := strings.HasPrefix(e, "-")
			b := strings.TrimPrefix(e, "-")
			switch b {
			case "a":
				b = "/a"
			case "b":
				b = "/b*"
			}
			if neg {
				return "-" + b
			}
			return b
		}},
	}
	for _, f := range fields {
		for _, l := range lists {
			ll := make([]string, len(l))
			for i, e := range l {
				ll[i] = f.sub(e)
			}
			if len(l) == 0 {
				ll = nil
			}
			rule := *base.DeepCopy()
			f.set(&rule, ll)
			for _, v := range reqVals {
				req := f.req(v)
				want := refmodel.RuleMatches(req, &rule)
				got := clusters.RuleMatches(req.Attributes(), &rule)
				sub.Eval()
				s := refmodel.Shape(ll)
				if s.InvertedOnlyMulti || s.Mixed {
					sub.NonTrivial(stats.HashString(f.name + fmt.Sprintf("%q", ll) + v))
				}
				if sub.WantSample() && s.InvertedOnlyMulti {
					sub.Sample(map[string]interface{}{"field": f.name, "list": ll, "request": req.String(), "reference": want, "gateway": got})
				}
				if got != want {
					t.Fatalf("field %s list %q request %s: RuleMatches=%v, reference=%v", f.name, ll, req, got, want)
				}
			}
		}
	}
	sub.SetExhaustive()
}

// TestReplayWitnesses: shrunk failures found on the pinned tree (before the "fix:" commit), as plain table tests.
func TestReplayWitnesses(t *testing.T) {
	star := []string{"*"}
	cases := []struct {
		name string
		rule proxyv1alpha1.DispatchPolicyRule
		req  gen.Request
		want bool
	}{
		{"two inverted resources (docs example) vs pods", proxyv1alpha1.DispatchPolicyRule{Verbs: star, APIGroups: star, Resources: []string{"-pods", "-deployments"}},
			gen.Request{Resource: true, Verb: "get", Res: "pods", User: "alice"}, false},
		{"two inverted resources vs nodes", proxyv1alpha1.DispatchPolicyRule{Verbs: star, APIGroups: star, Resources: []string{"-pods", "-deployments"}},
			gen.Request{Resource: true, Verb: "get", Res: "nodes", User: "alice"}, true},
		{"inverted userGroups vs request without groups", proxyv1alpha1.DispatchPolicyRule{Verbs: star, NonResourceURLs: star, UserGroups: []string{"-system:authenticated"}},
			gen.Request{Verb: "get", Path: "/healthz", User: "alice"}, true},
		{"inverted userGroups vs request with that group among others", proxyv1alpha1.DispatchPolicyRule{Verbs: star, NonResourceURLs: star, UserGroups: []string{"-dev"}},
			gen.Request{Verb: "get", Path: "/healthz", User: "alice", Groups: []string{"ops", "dev"}}, false},
		{"-* matches nothing", proxyv1alpha1.DispatchPolicyRule{Verbs: []string{"-*"}, NonResourceURLs: star},
			gen.Request{Verb: "get", Path: "/healthz", User: "alice"}, false},
		{"inverted user glob", proxyv1alpha1.DispatchPolicyRule{Verbs: star, NonResourceURLs: star, Users: []string{"-user-*"}},
			gen.Request{Verb: "get", Path: "/healthz", User: "user-1"}, false},
		{"inverted */sub", proxyv1alpha1.DispatchPolicyRule{Verbs: star, APIGroups: star, Resources: []string{"-*/status"}},
			gen.Request{Resource: true, Verb: "get", Res: "pods", Subresource: "status", User: "alice"}, false},
	}
	for _, c := range cases {
		if got := clusters.RuleMatches(c.req.Attributes(), &c.rule); got != c.want {
			t.Errorf("%s: RuleMatches=%v want %v (rule %s request %s)", c.name, got, c.want, gen.RuleString(c.rule), c.req)
		}
		if ref := refmodel.RuleMatches(c.req, &c.rule); ref != c.want {
			t.Errorf("harness: reference disagrees with the recorded expectation for %s", c.name)
		}
	}
}
