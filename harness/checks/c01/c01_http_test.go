//go:build verif

package c01

import (
	"context"
	"fmt"
	"strings"
	"sync"
	"sync/atomic"
	"testing"
	"time"

	"pgregory.net/rapid"

	proxyv1alpha1 "github.com/kubewharf/kubegateway/pkg/apis/proxy/v1alpha1"
	"verifharness/internal/gen"
	"verifharness/internal/gwbox"
	"verifharness/internal/refmodel"
	"verifharness/internal/stats"
)

// The policy matcher is only as good as the attributes the dispatcher hands to it. This sub-check goes through the
// real handler chain: HTTP request -> request info / user -> attributes -> first matching policy -> the upstream that
// policy pins.

var (
	httpOnce sync.Once
	httpPool *gwbox.Pool
	httpGW   *gwbox.Gateway
	httpSeq  int64
)

func httpSetup() {
	httpOnce.Do(func() {
		httpPool = gwbox.NewPool(3)
		httpGW = gwbox.NewGateway()
	})
}

// httpRequest is a request as a client writes it, together with the attributes a kube-apiserver derives from it.
type httpRequest struct {
	method, target string
	attrs          gen.Request
}

func genHTTPRequest(t *rapid.T, label string) httpRequest {
	r := gen.Request{}
	r.User = rapid.SampledFrom(gen.Users).Draw(t, label+".user")
	for i, n := 0, rapid.IntRange(0, 3).Draw(t, label+".ngroups"); i < n; i++ {
		r.Groups = append(r.Groups, rapid.SampledFrom(gen.Groups).Draw(t, label+".group"))
	}
	method := rapid.SampledFrom([]string{"GET", "GET", "GET", "POST", "DELETE"}).Draw(t, label+".method")
	if rapid.IntRange(0, 3).Draw(t, label+".kind") == 0 {
		r.Path = rapid.SampledFrom(gen.Paths).Draw(t, label+".path")
		r.Verb = map[string]string{"GET": "get", "POST": "post", "DELETE": "delete"}[method]
		return httpRequest{method: method, target: r.Path, attrs: r}
	}
	r.Resource = true
	r.APIGroup = rapid.SampledFrom(gen.APIGroups).Draw(t, label+".apigroup")
	r.Res = rapid.SampledFrom(gen.Resources).Draw(t, label+".resource")
	r.Name = rapid.SampledFrom(gen.Names).Draw(t, label+".name")
	r.Subresource = rapid.SampledFrom(gen.Subresources).Draw(t, label+".sub")
	if r.Subresource != "" && r.Name == "" {
		r.Name = "a" // a subresource hangs off a named object
	}
	if method == "POST" && r.Subresource == "" {
		r.Name = "" // objects are created on the collection
	}
	prefix := "/api/v1"
	if r.APIGroup != "" {
		prefix = "/apis/" + r.APIGroup + "/v1"
	}
	target := prefix + "/namespaces/default/" + r.Res
	if r.Name != "" {
		target += "/" + r.Name
	}
	if r.Subresource != "" {
		target += "/" + r.Subresource
	}
	switch {
	case method == "POST":
		r.Verb = "create"
	case method == "DELETE" && r.Name != "":
		r.Verb = "delete"
	case method == "DELETE":
		r.Verb = "deletecollection"
	case r.Name != "":
		r.Verb = "get"
	case rapid.Bool().Draw(t, label+".watch"):
		r.Verb = "watch"
		target += "?watch=true"
	default:
		r.Verb = "list"
	}
	if (r.Verb == "list" || r.Verb == "watch") && rapid.Bool().Draw(t, label+".selectsOneObject") {
		// a list / watch that selects ONE object by field selector (kubelet's secret / configmap / node watches,
		// kubectl get <kind> <name> -w): a kube-apiserver takes the object's name from the selector
		r.Name = rapid.SampledFrom([]string{"a", "b"}).Draw(t, label+".selectedName")
		sep := "?"
		if strings.Contains(target, "?") {
			sep = "&"
		}
		target += sep + "fieldSelector=metadata.name%3D" + r.Name
	}
	r.Path = target
	return httpRequest{method: method, target: target, attrs: r}
}

func TestPropHTTPRouting(t *testing.T) {
	sub := stats.NewSub("http-routing", "rapid: 1-3 generated policies (all eight rule fields, tiny alphabets), policy i pinned to stub upstream i by its upstreamSubset, applied to a cluster behind the real handler chain + dispatcher; 4 generated HTTP requests (GET / POST / DELETE on resource paths with group, resource, name, subresource, ?watch=true, a field selector that selects one object of a collection by name, or on non-resource paths) from generated users and groups; oracle: the request is forwarded to the upstream of the first policy the reference matcher selects for the attributes a kube-apiserver derives from that request (verb, group, resource, subresource, name, path, user, groups); no matching policy => answered by the gateway (>= 400) and forwarded nowhere; non-trivial = the rules use resourceNames, subresource entries, inverted lists or globs; distinct by FNV-64 of (policies, requests)")
	httpSetup()
	ready := false
	stats.Check(t, stats.N(1500, 5000), func(t *rapid.T) {
		policies := gen.GenPolicies(t, "policies", 3, 2)
		c := gwbox.ClusterObject("route", "gateway-secret-token", httpPool.Upstreams...)
		c.Spec.DispatchPolicies = nil
		nt := false
		for i, p := range policies {
			p.Strategy = proxyv1alpha1.RoundRobin
			p.FlowControlSchemaName = ""
			p.UpstreamSubset = []string{httpPool.Upstreams[i].URL}
			c.Spec.DispatchPolicies = append(c.Spec.DispatchPolicies, p)
			for j := range p.Rules {
				sh := refmodel.RuleShape(&p.Rules[j])
				if sh.InvertedOnlyMulti || sh.Mixed || sh.Glob || len(p.Rules[j].ResourceNames) > 0 {
					nt = true
				}
			}
		}
		if res, err := httpGW.Box.Apply(c); err != nil || res.RequeueAfter > 0 {
			t.Fatalf("harness: cannot apply the cluster: %v %v", err, res)
		}
		if !ready {
			if !httpGW.WaitReady("route", func(string) bool { return true }, 10*time.Second) {
				t.Fatalf("harness: stub upstreams did not become ready")
			}
			ready = true
		}
		sub.Eval()
		desc := gen.PoliciesString(policies)
		for k := 0; k < 4; k++ {
			hr := genHTTPRequest(t, fmt.Sprintf("req[%d]", k))
			httpGW.SetToken("client-token", gwbox.Identity{Name: hr.attrs.User, Groups: hr.attrs.Groups})
			id := fmt.Sprintf("c01h-%d", atomic.AddInt64(&httpSeq, 1))
			ctx, cancel := context.WithTimeout(context.Background(), 10*time.Second)
			resp := httpGW.Do(ctx, gwbox.RawRequest{Method: hr.method, Target: hr.target, Host: "route", Headers: [][2]string{{gwbox.IDHeader, id}, {"Authorization", "Bearer client-token"}}})
			cancel()
			seen := httpPool.Find(id)
			httpPool.Forget(id)
			want := refmodel.MatchPolicies(hr.attrs, policies)
			desc += fmt.Sprintf("\n%s %s as %s %v => attributes %s => policy %d", hr.method, hr.target, hr.attrs.User, hr.attrs.Groups, hr.attrs, want)
			if resp.Err != nil && resp.Status == 0 {
				t.Fatalf("harness: no response: %v\n%s", resp.Err, desc)
			}
			if want < 0 {
				if len(seen) > 0 || resp.Status < 400 {
					t.Fatalf("no policy matches the request but it was answered %d and forwarded to %d upstream(s)\n%s", resp.Status, len(seen), desc)
				}
				sub.Class("no-policy-matches")
				continue
			}
			if len(seen) != 1 || seen[0].Upstream != want {
				got := -1
				if len(seen) == 1 {
					got = seen[0].Upstream
				}
				t.Fatalf("the request was routed by policy %d (status %d, seen by %d upstream(s)), the reference selects policy %d\n%s", got, resp.Status, len(seen), want, desc)
			}
			sub.Class(fmt.Sprintf("policy-%d", want))
		}
		if nt {
			sub.NonTrivial(stats.HashString(desc))
			if sub.WantSample() {
				sub.Sample(desc)
			}
		}
	})
}
