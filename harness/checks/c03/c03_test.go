//go:build verif

// C03 — endpoint selection: only enabled, healthy endpoints of the policy get traffic.
package c03

import (
	"context"
	"fmt"
	"sort"
	"strings"
	"sync"
	"sync/atomic"
	"testing"
	"time"

	"pgregory.net/rapid"

	proxyv1alpha1 "github.com/kubewharf/kubegateway/pkg/apis/proxy/v1alpha1"
	"github.com/kubewharf/kubegateway/pkg/clusters"
	"verifharness/internal/gwbox"
	"verifharness/internal/stats"
)

func TestMain(m *testing.M) {
	stats.Property("C03")
	stats.Assume(
		"one cluster over a pool of 4 persistent stub upstreams behind the real chain, controller, per-endpoint transports and GatewayHealthCheck; the probe period is shortened to 20 ms by the verif hook (default 5 s)",
		"after a health change the harness triggers a probe and waits until the endpoint's readiness reflects it, so 'healthy at the moment it was picked' is exact for sequential steps; requests issued while an update runs may be served under the state before or after it",
		"a disabled endpoint may receive one already queued probe; probes arriving later than 300 ms after the disabling sync returned are violations (period 20 ms)",
		"unhealthy upstreams answer /healthz with any status other than 200 from a pool of 23 codes (2xx other than 200, 3xx without Location, 4xx, 5xx), with a text body or an API Status body with or without a reason; connection resets are not scripted here because client-go retries a reset GET inside one probe invocation for up to 5 s, which would blur 'no probe after disabling'",
		"Go runtime, net/http loopback, pgregory.net/rapid v1.3.0",
	)
	stats.Main(m)
}

var (
	pool = gwbox.NewPool(4)
	seq  int64
)

type spec struct {
	servers  []int        // distinct indices into the pool, in order of first occurrence
	disabled map[int]bool // by pool index: some entry of the server list marks the endpoint disabled
	subsets  [2][]int     // upstream subset per policy (nil = all)
	// entries is the server list as written, if it differs from one entry per server: an endpoint may be listed twice
	// (validation does not refuse that), with the same or with conflicting disabled flags
	entries []entry
}

type entry struct {
	idx int
	dis bool
}

func (s spec) String() string {
	var d []int
	for i := range s.disabled {
		if s.disabled[i] {
			d = append(d, i)
		}
	}
	sort.Ints(d)
	if s.entries != nil {
		return fmt.Sprintf("servers=%v disabled=%v (as written, {index disabled}: %v) subsetPods=%v subsetRest=%v", s.servers, d, s.entries, s.subsets[0], s.subsets[1])
	}
	return fmt.Sprintf("servers=%v disabled=%v subsetPods=%v subsetRest=%v", s.servers, d, s.subsets[0], s.subsets[1])
}

func (s spec) object() *proxyv1alpha1.UpstreamCluster {
	var ups []*gwbox.Upstream
	for _, i := range s.servers {
		ups = append(ups, pool.Upstreams[i])
	}
	c := gwbox.ClusterObject("gamma", "gateway-secret-token", ups...)
	for j, i := range s.servers {
		if s.disabled[i] {
			b := true
			c.Spec.Servers[j].Disabled = &b
		}
	}
	if s.entries != nil {
		c.Spec.Servers = nil
		for _, e := range s.entries {
			srv := proxyv1alpha1.UpstreamClusterServer{Endpoint: pool.Upstreams[e.idx].URL}
			if e.dis {
				b := true
				srv.Disabled = &b
			}
			c.Spec.Servers = append(c.Spec.Servers, srv)
		}
	}
	pods := proxyv1alpha1.DispatchPolicy{Strategy: proxyv1alpha1.RoundRobin, Rules: []proxyv1alpha1.DispatchPolicyRule{{Verbs: []string{"*"}, APIGroups: []string{"*"}, Resources: []string{"pods"}}}}
	rest := c.Spec.DispatchPolicies[0]
	for _, i := range s.subsets[0] {
		pods.UpstreamSubset = append(pods.UpstreamSubset, pool.Upstreams[i].URL)
	}
	for _, i := range s.subsets[1] {
		rest.UpstreamSubset = append(rest.UpstreamSubset, pool.Upstreams[i].URL)
	}
	c.Spec.DispatchPolicies = []proxyv1alpha1.DispatchPolicy{pods, rest}
	return c
}

func genSpec(t *rapid.T, label string) spec {
	perm := rapid.Permutation([]int{0, 1, 2, 3}).Draw(t, label+".order")
	s := spec{servers: perm[:rapid.IntRange(1, 4).Draw(t, label+".n")], disabled: map[int]bool{}}
	for _, i := range s.servers {
		if rapid.IntRange(0, 3).Draw(t, fmt.Sprintf("%s.disabled[%d]", label, i)) == 0 {
			s.disabled[i] = true
		}
	}
	if rapid.IntRange(0, 4).Draw(t, label+".duplicateEntries") == 0 {
		// some endpoints are listed twice; an endpoint counts as disabled if any of its entries says so
		for _, i := range s.servers {
			s.entries = append(s.entries, entry{i, s.disabled[i]})
		}
		for k, n := 0, rapid.IntRange(1, 2).Draw(t, label+".ndup"); k < n; k++ {
			i := rapid.SampledFrom(s.servers).Draw(t, fmt.Sprintf("%s.dup[%d]", label, k))
			e := entry{i, rapid.Bool().Draw(t, fmt.Sprintf("%s.dupDisabled[%d]", label, k))}
			at := rapid.IntRange(0, len(s.entries)).Draw(t, fmt.Sprintf("%s.dupAt[%d]", label, k))
			s.entries = append(s.entries[:at], append([]entry{e}, s.entries[at:]...)...)
			if e.dis {
				s.disabled[i] = true
			}
		}
		// first occurrence order
		seen := map[int]bool{}
		s.servers = nil
		for _, e := range s.entries {
			if !seen[e.idx] {
				seen[e.idx] = true
				s.servers = append(s.servers, e.idx)
			}
		}
	}
	for p := 0; p < 2; p++ {
		if rapid.Bool().Draw(t, fmt.Sprintf("%s.subset[%d]", label, p)) {
			sp := rapid.Permutation(s.servers).Draw(t, fmt.Sprintf("%s.subsetOrder[%d]", label, p))
			s.subsets[p] = sp[:rapid.IntRange(1, len(sp)).Draw(t, fmt.Sprintf("%s.subsetLen[%d]", label, p))]
		}
	}
	return s
}

type world struct {
	g          *gwbox.Gateway
	cur        spec
	health     [4]int // scripted /healthz status per pool index
	observed   [4]int // what the gateway's last processed probe of the endpoint saw (-1 = endpoint object is new / never probed)
	disabledAt map[int]time.Time
	transient  int // requests sent again because a probe had failed at the transport level (environment)
}

func (w *world) eligible(s spec, policy int) map[int]bool {
	out := map[int]bool{}
	for _, i := range s.servers {
		if s.disabled[i] || w.observed[i] != 200 {
			continue
		}
		if s.subsets[policy] != nil {
			in := false
			for _, j := range s.subsets[policy] {
				if j == i {
					in = true
				}
			}
			if !in {
				continue
			}
		}
		out[i] = true
	}
	return out
}

func (w *world) waitHealth(t *rapid.T, trace string) {
	ok := w.g.WaitReady("gamma", func(e string) bool {
		for i, u := range pool.Upstreams {
			if u.URL == e {
				return !w.cur.disabled[i] && w.health[i] == 200
			}
		}
		return false
	}, 10*time.Second)
	if !ok {
		t.Fatalf("endpoint readiness did not converge to the scripted health / disabled state within 10 s (probes not running?)\ntrace: %s", tail(trace))
	}
	// enabled endpoints have been probed; disabled ones keep the result of their last probe
	for _, i := range w.cur.servers {
		if !w.cur.disabled[i] {
			w.observed[i] = w.health[i]
		}
	}
}

type result struct {
	id       string
	status   int
	upstream int // -1 = not forwarded
	bodyFrom string
	body     string
	retried  bool
}

func (w *world) request(policy int) result {
	id := fmt.Sprintf("c03-%d", atomic.AddInt64(&seq, 1))
	target := "/api/v1/namespaces/default/pods"
	if policy == 1 {
		target = "/healthz/ping"
		if n := atomic.LoadInt64(&seq); n%3 == 0 {
			// a legal request target whose PATH begins with two slashes and names the address of some upstream of the
			// pool (listed or not, enabled or not): it is a path, the endpoint contacted is still the picked one
			target = "//" + strings.TrimPrefix(pool.Upstreams[int(n/3)%len(pool.Upstreams)].URL, "http://") + "/healthz/ping"
		}
	}
	ctx, cancel := context.WithTimeout(context.Background(), 20*time.Second)
	defer cancel()
	resp := w.g.Do(ctx, gwbox.RawRequest{Method: "GET", Target: target, Host: "gamma", Headers: [][2]string{{gwbox.IDHeader, id}, {"Authorization", "Bearer client-token"}}})
	r := result{id: id, status: resp.Status, upstream: -1, bodyFrom: resp.Header.Get("X-Verif-Upstream"), body: string(resp.Body)}
	if resp.Err != nil && resp.Status == 0 {
		r.status = -1
	}
	seen := pool.Find(id)
	if len(seen) == 1 {
		r.upstream = seen[0].Upstream
	} else if len(seen) > 1 {
		r.upstream = -2
	}
	pool.Forget(id)
	return r
}

// cut: for requests racing with an update, the endpoints that the update removes from the server list (nil otherwise)
func (w *world) judge(t *rapid.T, r result, policy int, allowed []map[int]bool, cut map[int]bool, trace string) {
	if r.status == -1 || r.upstream == -2 {
		t.Fatalf("request %s: no response / seen by several upstreams\ntrace: %s", r.id, trace)
	}
	anyNonEmpty, anyEmpty := false, false
	for _, a := range allowed {
		if len(a) > 0 {
			anyNonEmpty = true
		} else {
			anyEmpty = true
		}
	}
	if r.upstream >= 0 {
		ok := false
		for _, a := range allowed {
			if a[r.upstream] {
				ok = true
			}
		}
		if !ok {
			t.Fatalf("request for policy %d was forwarded to upstream %d, which is not an enabled, healthy endpoint of the policy (eligible: %v)\ntrace: %s", policy, r.upstream, allowed, trace)
		}
		if r.status != 200 || r.bodyFrom != fmt.Sprint(r.upstream) {
			if len(allowed) > 1 && r.status >= 500 {
				// a request racing with an update may have been forwarded to an endpoint that the update then
				// removes: its proxied request is cancelled on purpose (C15) and the client sees a gateway error
				return
			}
			t.Fatalf("request forwarded to upstream %d but the client got status %d from upstream %q\ntrace: %s", r.upstream, r.status, r.bodyFrom, trace)
		}
		return
	}
	if r.status == 503 && anyEmpty {
		return
	}
	if r.status == 503 && !anyEmpty {
		if len(allowed) == 1 && !r.retried && (strings.Contains(r.body, `reason=\"Failure\"`) || strings.Contains(r.body, `reason=\"Timeout\"`)) {
			// the gateway says why: a PROBE of an endpoint the history made healthy failed at the transport level (the
			// stub never answers a probe that way; on a heavily loaded machine a loopback request can fail or time out)
			// and the endpoint is unhealthy until its next probe, 20 ms later. That is the environment, not the
			// selection: wait until readiness is what the history says and send the request once more
			w.waitHealth(t, trace)
			r2 := w.request(policy)
			r2.retried = true
			w.transient++
			w.judge(t, r2, policy, allowed, cut, trace+"(resent after a probe failed at the transport level);")
			return
		}
		t.Fatalf("request for policy %d answered 503 although eligible endpoints exist (%v)\nanswer: %s\ntrace: %s", policy, allowed, r.body, trace)
	}
	_ = anyNonEmpty
	if r.status == 502 {
		// a racing request may have picked an eligible endpoint that the update removes before the proxied request
		// reached it: the endpoint's context is cancelled on purpose (C15), the client sees a gateway error
		for _, a := range allowed {
			for e := range a {
				if cut[e] {
					return
				}
			}
		}
	}
	t.Fatalf("request for policy %d: status %d and not forwarded (eligible %v)\ntrace: %s", policy, r.status, allowed, trace)
}

func TestPropEndpointSelection(t *testing.T) {
	sub := stats.NewSub("spec-and-health-histories", "rapid state machine: ops spec update (servers subset of the pool in any order, disabled flags, one time in five with endpoints listed twice with equal or conflicting flags - disabled if any entry says so, two policies with / without upstream subset), health flip of an upstream (/healthz answers 200 or one of 23 other status codes with a text or API Status body; then trigger + wait), n sequential requests for a policy (one request in three for the catch-all policy has a path that begins with two slashes followed by the address of some upstream of the pool), a burst of requests racing with a spec update, health-check trigger on a disabled endpoint, an endpoint that turns sick and is disabled while its first failing probe is still on the wire (the probe fails afterwards) and is later enabled again while its probes hang; oracle: a forwarded request reached an endpoint that is in the server list, in the matched policy's subset, enabled and healthy (before or after the update for racing requests), and the answer came from that endpoint; no eligible endpoint => 503 and nothing forwarded; a disabled endpoint gets no proxied request and no probe later than 300 ms after the disabling sync; probes resume on re-enable; non-trivial = >= 1 health flip / disable / enable / subset change followed by >= 1 request; distinct by FNV-64 of the op trace")
	stats.Check(t, stats.N(40, 300), func(t *rapid.T) {
		g := gwbox.NewGateway()
		defer g.Close()
		g.SetToken("client-token", gwbox.Identity{Name: "alice"})
		w := &world{g: g, disabledAt: map[int]time.Time{}}
		for i := range pool.Upstreams {
			pool.Upstreams[i].SetHealthBody("")
			pool.Upstreams[i].SetHealth(200)
			w.health[i] = 200
			w.observed[i] = -1
		}
		// bootstrap with a dummy endpoint so that every pool endpoint is added after the probe period was shortened
		boot := gwbox.ClusterObject("gamma", "gateway-secret-token")
		boot.Spec.Servers = []proxyv1alpha1.UpstreamClusterServer{{Endpoint: "http://127.0.0.1:1"}}
		if _, err := g.Box.Apply(boot); err != nil {
			t.Fatalf("harness: %v", err)
		}
		ci, _ := g.Box.Controller.Get("gamma")
		clusters.VerifSetHealthCheckInterval(ci, 20*time.Millisecond)
		w.cur = genSpec(t, "init")
		if res, err := g.Box.Apply(w.cur.object()); err != nil || res.RequeueAfter > 0 {
			t.Fatalf("harness: initial spec: %v %v", err, res)
		}
		trace := "init " + w.cur.String() + ";"
		for i := range w.cur.disabled {
			w.disabledAt[i] = time.Now()
		}
		w.waitHealth(t, trace)
		changed := false
		nt := false
		sub.Eval()
		applySpec := func(t *rapid.T, n spec) {
			res, err := g.Box.Apply(n.object())
			now := time.Now()
			if err != nil || res.RequeueAfter > 0 {
				t.Fatalf("spec update failed: %v %v\ntrace: %s", err, res, trace)
			}
			for _, i := range n.servers {
				if n.disabled[i] && !(w.cur.disabled[i] && contains(w.cur.servers, i)) {
					w.disabledAt[i] = now
				}
				if !n.disabled[i] {
					delete(w.disabledAt, i)
				}
			}
			for _, i := range w.cur.servers {
				if !contains(n.servers, i) {
					delete(w.disabledAt, i)
				}
			}
			for i := 0; i < 4; i++ {
				if !contains(n.servers, i) {
					w.observed[i] = -1 // the endpoint object is dropped; a re-added endpoint starts unhealthy
				}
			}
			w.cur = n
		}
		t.Repeat(map[string]func(*rapid.T){
			"specUpdate": func(t *rapid.T) {
				n := genSpec(t, "spec")
				applySpec(t, n)
				trace += "spec " + n.String() + ";"
				w.waitHealth(t, trace)
				changed = true
				sub.Class("spec-update")
			},
			"probeAnsweredAfterDisable": func(t *rapid.T) {
				// an endpoint that serves turns sick; its first failing probe is still on the wire when a spec update
				// disables it, and fails afterwards. Later it is enabled again while its /healthz does not answer: until a
				// probe says otherwise, the last probe it answered was a failure - it gets no traffic
				var cands []int
				for _, i := range w.cur.servers {
					if !w.cur.disabled[i] && w.observed[i] == 200 && w.health[i] == 200 {
						cands = append(cands, i)
					}
				}
				if len(cands) == 0 || w.cur.entries != nil {
					t.Skip("no serving endpoint (or a spec with duplicate entries)")
				}
				i := rapid.SampledFrom(cands).Draw(t, "endpoint")
				up := pool.Upstreams[i]
				hold := make(chan struct{})
				up.SetHealthBody("")
				up.SetHealth(rapid.SampledFrom([]int{500, 503, 404}).Draw(t, "failsWith"))
				up.SetHealthHold(hold)
				before := len(up.Probes())
				ci, _ := g.Box.Controller.Get("gamma")
				if info, ok := ci.Endpoints.Load(up.URL); ok {
					info.TriggerHealthCheck()
				}
				if !waitUntil(5*time.Second, func() bool { return len(up.Probes()) > before }) {
					close(hold)
					up.SetHealthHold(nil)
					sub.Inconclusive()
					t.Skip("the probe did not reach the stub")
				}
				// disabled while the probe is on the wire
				n := w.cur.clone()
				n.disabled[i] = true
				applySpec(t, n)
				close(hold) // the probe fails now
				up.SetHealthHold(nil)
				time.Sleep(30 * time.Millisecond)
				w.health[i] = 500
				w.observed[i] = 500 // the last probe the endpoint answered
				trace += fmt.Sprintf("sick(%d)+disabled-while-its-failing-probe-was-on-the-wire;", i)
				// enabled again; its /healthz does not answer for now
				hold2 := make(chan struct{})
				up.SetHealthHold(hold2)
				n2 := w.cur.clone()
				delete(n2.disabled, i)
				applySpec(t, n2)
				trace += fmt.Sprintf("re-enabled(%d) while its probes hang;", i)
				for k := 0; k < 4; k++ {
					policy := k % 2
					el := w.eligible(w.cur, policy)
					r := w.request(policy)
					trace += fmt.Sprintf("req(p%d)->%d@%d;", policy, r.status, r.upstream)
					w.judge(t, r, policy, []map[int]bool{el}, nil, trace)
				}
				close(hold2)
				up.SetHealthHold(nil)
				w.waitHealth(t, trace)
				changed, nt = true, true
				sub.Class("probe-answered-after-the-endpoint-was-disabled")
			},
			"health": func(t *rapid.T) {
				i := rapid.IntRange(0, 3).Draw(t, "upstream")
				// healthy = /healthz answers 200; anything else a probe can get back is a failed probe, whatever the
				// status code and whether or not the body is an API Status object (with or without a reason)
				st := rapid.SampledFrom([]int{200, 200, 200, 200, 500, 503, 500, 503, 201, 204, 302, 304, 400, 401, 403, 404, 408, 410, 418, 421, 426, 429, 431, 451, 501, 502, 504}).Draw(t, "status")
				body := ""
				if st != 200 && st != 204 && st != 304 {
					switch rapid.IntRange(0, 3).Draw(t, "bodyKind") {
					case 1:
						body = fmt.Sprintf(`{"kind":"Status","apiVersion":"v1","metadata":{},"status":"Failure","message":"scripted","reason":%q,"code":%d}`, rapid.SampledFrom([]string{"", "InternalError", "ServiceUnavailable", "NotFound", "Unknown"}).Draw(t, "reason"), st)
					case 2:
						body = `{"kind":"Status","apiVersion":"v1","metadata":{},"status":"Success"}`
					}
				}
				pool.Upstreams[i].SetHealthBody(body)
				pool.Upstreams[i].SetHealth(st)
				w.health[i] = st
				trace += fmt.Sprintf("health(%d)=%d;", i, st)
				w.waitHealth(t, trace)
				changed = true
				sub.Class("health-flip")
			},
			"requests": func(t *rapid.T) {
				policy := rapid.IntRange(0, 1).Draw(t, "policy")
				n := rapid.IntRange(1, 6).Draw(t, "n")
				el := w.eligible(w.cur, policy)
				for k := 0; k < n; k++ {
					r := w.request(policy)
					trace += fmt.Sprintf("req(p%d)->%d@%d;", policy, r.status, r.upstream)
					w.judge(t, r, policy, []map[int]bool{el}, nil, tail(trace))
					if r.upstream >= 0 {
						sub.Class("forwarded")
					} else {
						sub.Class("503")
					}
				}
				if changed {
					nt = true
				}
			},
			"burstDuringUpdate": func(t *rapid.T) {
				n := genSpec(t, "spec")
				policy := rapid.IntRange(0, 1).Draw(t, "policy")
				old := w.cur
				oldHealth := w.observed
				var results []result
				var wg sync.WaitGroup
				wg.Add(1)
				go func() {
					defer wg.Done()
					for k := 0; k < 6; k++ {
						results = append(results, w.request(policy))
					}
				}()
				applySpec(t, n)
				wg.Wait()
				trace += "burst-during spec " + n.String() + ";"
				w.waitHealth(t, trace)
				// the update is applied endpoint by endpoint and the policy list is swapped last, so a racing request may see
				// any mix: an endpoint is acceptable if it is eligible under (old or new endpoint state) x (old or new policy)
				var allowed []map[int]bool
				for _, es := range []spec{old, w.cur} {
					for _, ps := range []spec{old, w.cur} {
						mixed := spec{servers: es.servers, disabled: es.disabled, subsets: ps.subsets}
						saved := w.observed
						for _, h := range [][4]int{oldHealth, saved} {
							w.observed = h
							// endpoints added by the update start unhealthy and become healthy after their first probe;
							// a re-enabled endpoint keeps the result of its last probe until the next one
							allowed = append(allowed, w.eligible(mixed, policy))
						}
						w.observed = saved
					}
				}
				allowed = append(allowed, map[int]bool{})
				cut := map[int]bool{}
				for _, e := range old.servers {
					cut[e] = true
				}
				for _, e := range w.cur.servers {
					delete(cut, e)
				}
				for _, r := range results {
					trace += fmt.Sprintf("racing-req(p%d)->%d@%d;", policy, r.status, r.upstream)
					w.judge(t, r, policy, allowed, cut, tail(trace))
				}
				changed = true
				nt = true
				sub.Class("concurrent-window")
			},
			"triggerOnDisabled": func(t *rapid.T) {
				var dis []int
				for _, i := range w.cur.servers {
					if w.cur.disabled[i] {
						dis = append(dis, i)
					}
				}
				if len(dis) == 0 {
					t.Skip("no disabled endpoint")
				}
				i := rapid.SampledFrom(dis).Draw(t, "endpoint")
				// the trigger (the dispatcher's error responder fires it on "connection refused") comes after the grace
				// period the quiet check below grants to probes that were already on their way when the endpoint was disabled
				if at, ok := w.disabledAt[i]; ok {
					if d := time.Until(at.Add(310 * time.Millisecond)); d > 0 {
						time.Sleep(d)
					}
				}
				ci, _ := g.Box.Controller.Get("gamma")
				if info, ok := ci.Endpoints.Load(pool.Upstreams[i].URL); ok {
					info.TriggerHealthCheck()
				}
				trace += fmt.Sprintf("trigger-on-disabled(%d);", i)
				sub.Class("trigger-on-disabled")
			},
		})
		// disabled endpoints stay quiet: no probe later than 300 ms after the disabling sync
		if len(w.disabledAt) > 0 {
			var latest time.Time
			for _, at := range w.disabledAt {
				if at.After(latest) {
					latest = at
				}
			}
			if d := time.Until(latest.Add(330 * time.Millisecond)); d > 0 {
				time.Sleep(d)
			}
			time.Sleep(80 * time.Millisecond) // four probe periods
			for i, at := range w.disabledAt {
				for _, p := range pool.Upstreams[i].Probes() {
					if p.After(at.Add(300 * time.Millisecond)) {
						t.Fatalf("disabled endpoint %d received a health probe %v after the disabling sync returned\ntrace: %s", i, p.Sub(at), trace)
					}
				}
			}
			sub.Class("disabled-endpoint-quiet-check")
		}
		if w.transient > 0 {
			sub.ClassN("resent-after-a-probe-failed-at-the-transport-level", w.transient)
		}
		if nt {
			sub.NonTrivial(stats.HashString(trace))
			if sub.WantSample() {
				sub.Sample(strings.ReplaceAll(trace, ";", "; "))
			}
		}
	})
}

func tail(s string) string {
	if len(s) > 1500 {
		return "..." + s[len(s)-1500:]
	}
	return s
}

func contains(s []int, x int) bool {
	for _, v := range s {
		if v == x {
			return true
		}
	}
	return false
}

// TestPropProbeTimesOut: an endpoint that was healthy and then accepts probes but never answers. The gateway's probe
// time-out (5 s) is real time, so this runs once per check run (on the first shard only).
func TestPropProbeTimesOut(t *testing.T) {
	sub := stats.NewSub("probe-time-out", "one scenario per run (first shard; real time, the gateway's probe time-out is 5 s): a cluster with one endpoint that is healthy and serves, then its /healthz accepts connections and never answers; oracle: at the latest 9 s later the endpoint is not ready any more - requests get 503 and nothing is forwarded - and after it answers again it serves again; non-trivial = the scenario ran")
	if sh, _ := stats.Shard(); sh != 0 {
		t.Skip("runs on the first shard only")
	}
	g := gwbox.NewGateway()
	defer g.Close()
	g.SetToken("client-token", gwbox.Identity{Name: "alice"})
	up := pool.Upstreams[3]
	up.SetHealth(200)
	defer up.SetHealth(200)
	boot := gwbox.ClusterObject("hang", "gateway-secret-token")
	boot.Spec.Servers = []proxyv1alpha1.UpstreamClusterServer{{Endpoint: "http://127.0.0.1:1"}}
	if _, err := g.Box.Apply(boot); err != nil {
		t.Fatalf("harness: %v", err)
	}
	if ci, ok := g.Box.Controller.Get("hang"); ok {
		clusters.VerifSetHealthCheckInterval(ci, 200*time.Millisecond)
	}
	if _, err := g.Box.Apply(gwbox.ClusterObject("hang", "gateway-secret-token", up)); err != nil {
		t.Fatalf("harness: %v", err)
	}
	if !g.WaitReady("hang", func(string) bool { return true }, 10*time.Second) {
		sub.Inconclusive()
		t.Skip("endpoint did not become ready")
	}
	sub.Eval()
	do := func() (int, int) {
		id := fmt.Sprintf("c03t-%d", atomic.AddInt64(&seq, 1))
		ctx, cancel := context.WithTimeout(context.Background(), 10*time.Second)
		defer cancel()
		resp := g.Do(ctx, gwbox.RawRequest{Method: "GET", Target: "/api/v1/namespaces/default/pods", Host: "hang", Headers: [][2]string{{gwbox.IDHeader, id}, {"Authorization", "Bearer client-token"}}})
		n := len(pool.Find(id))
		pool.Forget(id)
		return resp.Status, n
	}
	if st, n := do(); st != 200 || n != 1 {
		t.Fatalf("harness: healthy endpoint does not serve (status %d, forwarded %d)", st, n)
	}
	up.SetHealth(-1)
	hungAt := time.Now()
	notReadyAfter := time.Duration(0)
	for time.Since(hungAt) < 9*time.Second {
		time.Sleep(250 * time.Millisecond)
		if st, n := do(); st == 503 && n == 0 {
			notReadyAfter = time.Since(hungAt)
			break
		}
	}
	if notReadyAfter == 0 {
		st, n := do()
		t.Fatalf("the endpoint's health probes have been timing out for %.1f s (it accepts them and never answers) and requests are still forwarded to it (status %d, forwarded %d); expected 503 and nothing forwarded", time.Since(hungAt).Seconds(), st, n)
	}
	sub.Note("not ready %.1f s after the probes started to hang", notReadyAfter.Seconds())
	up.SetHealth(200)
	if !g.WaitReady("hang", func(string) bool { return true }, 15*time.Second) {
		t.Fatalf("the endpoint answers its probes again but does not become ready")
	}
	if st, n := do(); st != 200 || n != 1 {
		t.Fatalf("the recovered endpoint does not serve (status %d, forwarded %d)", st, n)
	}
	sub.NonTrivial(1)
	sub.Class("probe-timed-out-and-recovered")
}

func (s spec) clone() spec {
	n := spec{servers: append([]int{}, s.servers...), disabled: map[int]bool{}, subsets: s.subsets}
	for k, v := range s.disabled {
		n.disabled[k] = v
	}
	return n
}

func waitUntil(d time.Duration, cond func() bool) bool {
	deadline := time.Now().Add(d)
	for !cond() {
		if time.Now().After(deadline) {
			return false
		}
		time.Sleep(time.Millisecond)
	}
	return true
}
