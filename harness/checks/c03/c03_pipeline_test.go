//go:build verif

package c03

import (
	"context"
	"fmt"
	"sort"
	"strings"
	"sync"
	"testing"
	"time"

	metav1 "k8s.io/apimachinery/pkg/apis/meta/v1"
	"pgregory.net/rapid"

	proxyv1alpha1 "github.com/kubewharf/kubegateway/pkg/apis/proxy/v1alpha1"
	gwinformers "github.com/kubewharf/kubegateway/pkg/client/informers"
	proxyinformers "github.com/kubewharf/kubegateway/pkg/client/informers/proxy/v1alpha1"
	gwfake "github.com/kubewharf/kubegateway/pkg/client/kubernetes/fake"
	listers "github.com/kubewharf/kubegateway/pkg/client/listers/proxy/v1alpha1"
	"github.com/kubewharf/kubegateway/pkg/gateway/controllers"
	proxyoptions "github.com/kubewharf/kubegateway/pkg/gateway/proxy/options"
	"verifharness/internal/stats"
)

// heldLister is the controller's lister; one Get can be held AFTER it has read the store (a worker that is
// descheduled between reading the object and applying it).
type heldLister struct {
	listers.UpstreamClusterLister
	mu      sync.Mutex
	armed   bool
	arrived chan struct{}
	release chan struct{}
}

func (l *heldLister) Get(name string) (*proxyv1alpha1.UpstreamCluster, error) {
	obj, err := l.UpstreamClusterLister.Get(name)
	l.mu.Lock()
	hold := l.armed
	l.armed = false
	arrived, release := l.arrived, l.release
	l.mu.Unlock()
	if hold {
		close(arrived)
		<-release
	}
	return obj, err
}

func (l *heldLister) arm() (arrived <-chan struct{}, release func()) {
	l.mu.Lock()
	defer l.mu.Unlock()
	l.armed = true
	l.arrived, l.release = make(chan struct{}), make(chan struct{})
	r := l.release
	var once sync.Once
	return l.arrived, func() { once.Do(func() { close(r) }) }
}

func (l *heldLister) disarm() {
	l.mu.Lock()
	l.armed = false
	l.mu.Unlock()
}

type heldInformer struct {
	proxyinformers.UpstreamClusterInformer
	lister *heldLister
}

func (i *heldInformer) Lister() listers.UpstreamClusterLister { return i.lister }

// TestPropEventPipelineKeepsTheLatestSpec: the real controller with its informer event handler, its queue and its
// workers (Run), fed by watch events of a fake API. Updates of one cluster follow each other quickly and the worker
// handling one of them is held between reading the object and applying it.
func TestPropEventPipelineKeepsTheLatestSpec(t *testing.T) {
	sub := stats.NewSub("event-pipeline-keeps-the-latest-spec", "rapid: the real UpstreamClusterController running (informer event handler, sync queue, workers) on a fake API; a cluster over a pool of 3 endpoints; a burst of 2-4 updates (each a non-empty server list with disabled flags, different from its predecessor, the last different from the held one) is written to the API in quick succession, and the worker that handles update j < n is held after it read the object from the lister, until the gateway shows the last version or 200 ms passed without it; oracle: once the gateway has shown the LAST version of the burst (endpoint set and disabled flags) it never shows an older one again (observed for 400 ms after the held worker was let go), and the last version is reached; non-trivial = the held worker had read a version older than the last one; distinct by FNV-64 of the burst")
	eps := []string{"http://127.0.0.1:1", "http://127.0.0.1:2", "http://127.0.0.1:3"}
	stats.Check(t, stats.N(6, 120), func(t *rapid.T) {
		client := gwfake.NewSimpleClientset()
		f := gwinformers.NewSharedInformerFactory(client, 0)
		inner := f.Proxy().V1alpha1().UpstreamClusters()
		hl := &heldLister{UpstreamClusterLister: inner.Lister()}
		ctl := controllers.NewUpstreamClusterController(&heldInformer{UpstreamClusterInformer: inner, lister: hl}, &proxyoptions.RateLimiterOptions{})
		stop := make(chan struct{})
		f.Start(stop)
		done := make(chan struct{})
		go func() { defer close(done); ctl.Run(stop) }()
		var releaseHeld func()
		defer func() {
			hl.disarm()
			if releaseHeld != nil {
				releaseHeld()
			}
			if ci, ok := ctl.Get("pipe"); ok {
				_ = ci.Sync(&proxyv1alpha1.UpstreamCluster{ObjectMeta: metav1.ObjectMeta{Name: "pipe"}})
				ctl.DeleteForServerNames("pipe")
				ci.Stop()
			}
			close(stop)
			<-done
		}()
		genVersion := func(label string) map[string]bool { // endpoint -> disabled
			for {
				v := map[string]bool{}
				for _, e := range eps {
					switch rapid.IntRange(0, 2).Draw(t, label+"."+e) {
					case 0:
						v[e] = false
					case 1:
						v[e] = true
					}
				}
				if len(v) > 0 {
					return v
				}
				label += "'"
			}
		}
		render := func(v map[string]bool) string {
			var out []string
			for e, d := range v {
				out = append(out, fmt.Sprintf("%s(disabled=%v)", strings.TrimPrefix(e, "http://127.0.0.1:"), d))
			}
			sort.Strings(out)
			return strings.Join(out, ",")
		}
		object := func(v map[string]bool, rv int) *proxyv1alpha1.UpstreamCluster {
			c := &proxyv1alpha1.UpstreamCluster{ObjectMeta: metav1.ObjectMeta{Name: "pipe", ResourceVersion: fmt.Sprint(rv)}}
			for _, e := range eps {
				if d, ok := v[e]; ok {
					dd := d
					c.Spec.Servers = append(c.Spec.Servers, proxyv1alpha1.UpstreamClusterServer{Endpoint: e, Disabled: &dd})
				}
			}
			c.Spec.DispatchPolicies = []proxyv1alpha1.DispatchPolicy{{Strategy: proxyv1alpha1.RoundRobin, Rules: []proxyv1alpha1.DispatchPolicyRule{{Verbs: []string{"*"}, APIGroups: []string{"*"}, Resources: []string{"*"}, NonResourceURLs: []string{"*"}}}}}
			return c
		}
		shown := func() string {
			ci, ok := ctl.Get("pipe")
			if !ok {
				return "absent"
			}
			v := map[string]bool{}
			for _, e := range ci.AllEndpoints() {
				if info, ok := ci.Endpoints.Load(e); ok {
					v[e] = info.IstDisabled()
				}
			}
			return render(v)
		}
		waitShown := func(want string, d time.Duration) bool {
			deadline := time.Now().Add(d)
			for time.Now().Before(deadline) {
				if shown() == want {
					return true
				}
				time.Sleep(time.Millisecond)
			}
			return shown() == want
		}
		api := client.ProxyV1alpha1().UpstreamClusters()
		v0 := genVersion("v0")
		if _, err := api.Create(context.Background(), object(v0, 1), metav1.CreateOptions{}); err != nil {
			t.Fatalf("harness: %v", err)
		}
		if !waitShown(render(v0), 10*time.Second) {
			sub.Inconclusive()
			t.Skip("the first version was not applied in time")
		}
		n := rapid.IntRange(2, 4).Draw(t, "updates")
		j := rapid.IntRange(1, n-1).Draw(t, "held")
		vs := []map[string]bool{v0}
		for i := 1; i <= n; i++ {
			for k := 0; ; k++ {
				v := genVersion(fmt.Sprintf("v%d.%d", i, k))
				if render(v) != render(vs[i-1]) && (i != n || render(v) != render(vs[j])) {
					vs = append(vs, v)
					break
				}
			}
		}
		last := render(vs[n])
		desc := render(v0)
		for i := 1; i <= n; i++ {
			desc += " -> " + render(vs[i])
			if i == j {
				desc += " [its worker is held]"
			}
		}
		sub.Eval()
		var arrived <-chan struct{}
		for i := 1; i <= n; i++ {
			if i == j {
				arrived, releaseHeld = hl.arm()
			}
			if _, err := api.Update(context.Background(), object(vs[i], i+1), metav1.UpdateOptions{}); err != nil {
				t.Fatalf("harness: %v", err)
			}
			if i == j {
				select {
				case <-arrived:
				case <-time.After(5 * time.Second):
					sub.Inconclusive()
					t.Skip("no worker read the object in time")
				}
			}
		}
		// with one worker nothing moves while it is held; with more, the others go on. What the gateway shows while the
		// worker is held may by chance BE the last version (a burst that ends where it began): then "the last version
		// was applied while a worker was held" cannot be told from "nothing moved", and the held worker's own (older)
		// version legitimately shows up for a moment after the release
		heldState := shown()
		sawLast := heldState != last && waitShown(last, 200*time.Millisecond)
		if heldState == last {
			sub.Class("state-while-held-equals-the-last-version")
		}
		releaseHeld()
		if sawLast {
			deadline := time.Now().Add(400 * time.Millisecond)
			for time.Now().Before(deadline) {
				if s := shown(); s != last {
					t.Fatalf("the gateway had applied the last version of the cluster (%s) and went back to an older one (%s): a worker that had read the older version applied it afterwards\nburst: %s", last, s, desc)
				}
				time.Sleep(time.Millisecond)
			}
			sub.Class("last-version-applied-while-a-worker-was-held")
		} else {
			sub.Class("nothing-applied-while-the-worker-was-held")
		}
		if !waitShown(last, 10*time.Second) {
			t.Fatalf("10 s after the burst the gateway shows %s, the last version is %s\nburst: %s", shown(), last, desc)
		}
		sub.NonTrivial(stats.HashString(desc))
		if sub.WantSample() {
			sub.Sample(desc)
		}
	})
}
