//go:build verif

package c16

import (
	"context"
	"fmt"
	"strings"
	"testing"

	metav1 "k8s.io/apimachinery/pkg/apis/meta/v1"
	"k8s.io/apiserver/pkg/admission"
	"pgregory.net/rapid"

	proxyv1alpha1 "github.com/kubewharf/kubegateway/pkg/apis/proxy/v1alpha1"
	"verifharness/internal/ctlbox"
	"verifharness/internal/gen"
	"verifharness/internal/stats"
)

var nbHosts = []string{"alpha", "beta", "gamma", "a.example.com", "b.example.com", "shared.io"}

func nbSpell(t *rapid.T, label, h string) string {
	switch rapid.IntRange(0, 3).Draw(t, label) {
	case 0:
		return strings.ToUpper(h)
	case 1:
		return strings.ToUpper(h[:1]) + h[1:]
	case 2:
		b := []byte(h)
		for i := range b {
			if i%2 == 1 {
				b[i] = strings.ToUpper(string(b[i]))[0]
			}
		}
		return string(b)
	}
	return h
}

// TestPropAcceptedNextToOtherClusters: validation is not only about one object: the admission plugin also looks at the
// other stored clusters, and what it accepts next to them the gateway must be able to apply.
func TestPropAcceptedNextToOtherClusters(t *testing.T) {
	sub := stats.NewSub("accepted-next-to-other-clusters", "rapid: a history of 2-6 submissions (create, or update when the name is stored; names from a pool of 6 hosts, 0-3 server names each from the same pool in any spelling: upper, capitalised, alternating, lower; otherwise valid objects) handed to the real admission plugin, whose informer cache holds the objects accepted so far; every accepted object is stored and delivered to a real UpstreamClusterController that has applied the earlier ones; oracle: the controller applies every accepted object without error or requeue and afterwards resolves the object's name and each of its server names to it; non-trivial = an accepted object carries a server name, other clusters are stored, and at least one submission of the history was refused; distinct by FNV-64 of the history")
	gvk := proxyv1alpha1.SchemeGroupVersion.WithKind("UpstreamCluster")
	gvr := proxyv1alpha1.SchemeGroupVersion.WithResource("upstreamclusters")
	stats.Check(t, stats.N(800, 6000), func(t *rapid.T) {
		for _, o := range pluginStore.List() {
			_ = pluginStore.Delete(o)
		}
		defer func() {
			for _, o := range pluginStore.List() {
				_ = pluginStore.Delete(o)
			}
		}()
		box := ctlbox.New()
		defer box.Close()
		stored := map[string]*proxyv1alpha1.UpstreamCluster{}
		trace := ""
		refused, interesting := false, false
		sub.Eval()
		n := rapid.IntRange(2, 6).Draw(t, "submissions")
		for i := 0; i < n; i++ {
			name := rapid.SampledFrom(nbHosts).Draw(t, fmt.Sprintf("s[%d].name", i))
			obj := gen.GenValidCluster(t, fmt.Sprintf("s[%d]", i), name, gen.ObjOpts{Endpoints: []string{"https://127.0.0.1:6443", "https://127.0.0.1:6444"}, NoGlobal: true})
			obj.Spec.SecureServing.ServerNames = nil
			for j, k := 0, rapid.IntRange(0, 3).Draw(t, fmt.Sprintf("s[%d].nsn", i)); j < k; j++ {
				h := rapid.SampledFrom(nbHosts).Draw(t, fmt.Sprintf("s[%d].sn[%d]", i, j))
				obj.Spec.SecureServing.ServerNames = append(obj.Spec.SecureServing.ServerNames, nbSpell(t, fmt.Sprintf("s[%d].sn[%d].spelling", i, j), h))
			}
			obj.ResourceVersion = fmt.Sprint(i + 1)
			var attrs admission.Attributes
			if old := stored[name]; old != nil {
				attrs = admission.NewAttributesRecord(obj.DeepCopy(), old.DeepCopy(), gvk, "", name, gvr, "", admission.Update, &metav1.UpdateOptions{}, false, nil)
			} else {
				attrs = admission.NewAttributesRecord(obj.DeepCopy(), nil, gvk, "", name, gvr, "", admission.Create, &metav1.CreateOptions{}, false, nil)
			}
			err := plugin.Validate(context.Background(), attrs, objInterfaces)
			trace += fmt.Sprintf("%s%q", name, obj.Spec.SecureServing.ServerNames)
			if err != nil {
				trace += "=refused;"
				refused = true
				continue
			}
			trace += "=accepted;"
			if err := pluginStore.Update(obj); err != nil {
				t.Fatalf("harness: %v", err)
			}
			res, aerr := box.Apply(obj)
			if aerr != nil || res.RequeueAfter > 0 || res.Requeue {
				t.Fatalf("admission accepted %s%q next to the stored clusters, the gateway cannot apply it (err=%v requeue=%v)\nhistory: %s", name, obj.Spec.SecureServing.ServerNames, aerr, res.RequeueAfter > 0 || res.Requeue, trace)
			}
			for _, h := range append([]string{name}, obj.Spec.SecureServing.ServerNames...) {
				if owner := box.Owner(h); owner != name {
					t.Fatalf("admission accepted %s%q; after the gateway applied it host %q resolves to %q\nhistory: %s", name, obj.Spec.SecureServing.ServerNames, h, owner, trace)
				}
			}
			if len(obj.Spec.SecureServing.ServerNames) > 0 && (len(stored) > 1 || (len(stored) == 1 && stored[name] == nil)) {
				interesting = true
			}
			stored[name] = obj
		}
		if refused {
			sub.Class("history-with-a-refused-submission")
		}
		if interesting && refused {
			sub.NonTrivial(stats.HashString(trace))
			if sub.WantSample() {
				sub.Sample(trace)
			}
		}
	})
}
