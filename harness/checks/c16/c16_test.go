//go:build verif

// C16 — admission validation is total, and what it accepts the data plane can apply.
package c16

import (
	"context"
	"crypto/tls"
	"encoding/pem"
	"fmt"
	"net/url"
	"strings"
	"testing"

	"github.com/kubewharf/apiserver-runtime/pkg/scheme"
	metav1 "k8s.io/apimachinery/pkg/apis/meta/v1"
	k8sruntime "k8s.io/apimachinery/pkg/runtime"
	"k8s.io/apiserver/pkg/admission"
	clienttesting "k8s.io/client-go/testing"
	"k8s.io/client-go/tools/cache"
	certutil "k8s.io/client-go/util/cert"
	"pgregory.net/rapid"

	proxyv1alpha1 "github.com/kubewharf/kubegateway/pkg/apis/proxy/v1alpha1"
	"github.com/kubewharf/kubegateway/pkg/apis/proxy/v1alpha1/validation"
	gwinformers "github.com/kubewharf/kubegateway/pkg/client/informers"
	gatewayclientset "github.com/kubewharf/kubegateway/pkg/client/kubernetes"
	gatewayfake "github.com/kubewharf/kubegateway/pkg/client/kubernetes/fake"
	"github.com/kubewharf/kubegateway/pkg/clusters"
	"github.com/kubewharf/kubegateway/pkg/flowcontrols"
	"github.com/kubewharf/kubegateway/pkg/flowcontrols/flowcontrol"
	"github.com/kubewharf/kubegateway/pkg/flowcontrols/remote"
	_ "github.com/kubewharf/kubegateway/pkg/gateway/controlplane" // installs the API group into the scheme
	upstreamclusteradmission "github.com/kubewharf/kubegateway/plugin/admission/upstreamcluster"
	"verifharness/internal/ctlbox"
	"verifharness/internal/gen"
	"verifharness/internal/limbox"
	"verifharness/internal/pki"
	"verifharness/internal/stats"
)

func TestMain(m *testing.M) {
	stats.Property("C16")
	stats.Assume(
		"validation = ValidateUpstreamCluster (what the admission plugin calls) plus the plugin's feature-gate annotation check; that colliding names are refused is C10's subject, that what admission accepts next to other stored clusters can be applied is checked here (accepted-next-to-other-clusters)",
		"'can be applied' = CreateClusterInfo, ClusterInfo.Sync over a previously applied accepted object, a fresh controller's sync (no requeue, the cluster resolves afterwards), a smoke run (MatchAttributes on probes, Pop, TryAcquire/Release on every schema), the limiter server's UpstreamConditionHandler, and for schemas with a global strategy one reconcile round of the gateway-side remote limiter against an echoing stub; an error, a requeue or a panic in any of them is a violation",
		"'objects that would break them are rejected' is additionally checked by a must-reject predicate written from the classes the statement lists (unparseable endpoint URL, mixed schemes, unusable serving key/cert/CA, policy referring to unknown endpoint or schema, flow-control configuration that is contradictory / incomplete / out of range)",
		"Go runtime, pgregory.net/rapid v1.3.0",
	)
	stats.Main(m)
}

var mats = pki.Pool(3)

var junkEndpoints = []string{"", "https://%zz", "http://", "ftp://x", "http://[::1", "https://a b", "HTTP://x", "http://x:99999", "https://host\n", "http://127.0.0.1:1/path?q=1", "https://", "http://%", "http://127.0.0.1:2", "https://127.0.0.1:2",
	// unusual but well-formed endpoint URLs
	"http://[fe80::1%25eth0]:6443", "http://[::1]:8080", "http://user:pw@127.0.0.1:3/base/", "http://Upper.Example:80", "http://host.example", "http://127.0.0.1:4/", "http://xn--bcher-kva.example:81"}
var junkPEM = [][]byte{nil, []byte("garbage"), []byte("-----BEGIN CERTIFICATE-----\nAAAA\n-----END CERTIFICATE-----\n"), mats[0].CertPEM, mats[1].CertPEM, mats[0].KeyPEM, mats[1].KeyPEM, mats[0].CAPEM}
var int32s = []int32{0, 1, -1, 2, 5, 100, -100, 2147483647, -2147483648}

// pemBlocks are concatenated into bundles: good and broken blocks mixed in any order (a loader that skips what it
// cannot parse and one that fails on the first bad block disagree exactly on such bundles)
var pemBlocks = [][]byte{
	mats[0].CertPEM, mats[1].CertPEM, mats[0].CAPEM, mats[1].CAPEM, mats[0].KeyPEM,
	[]byte("-----BEGIN CERTIFICATE-----\nAAAA\n-----END CERTIFICATE-----\n"),
	truncatedCert(mats[1].CAPEM),
	[]byte("not pem at all\n"),
	[]byte("-----BEGIN X509 CRL-----\nAAAA\n-----END X509 CRL-----\n"),
}

// truncatedCert re-encodes the first half of the DER bytes of a certificate as a CERTIFICATE block.
func truncatedCert(pemBytes []byte) []byte {
	b, _ := pem.Decode(pemBytes)
	if b == nil {
		return []byte("-----BEGIN CERTIFICATE-----\nAAAA\n-----END CERTIFICATE-----\n")
	}
	return pem.EncodeToMemory(&pem.Block{Type: "CERTIFICATE", Bytes: b.Bytes[:len(b.Bytes)/2]})
}

// genPEM draws one of the fixed blobs or a bundle of 2-3 blocks.
func genPEM(t *rapid.T, label string) []byte {
	if rapid.IntRange(0, 2).Draw(t, label+".bundle") != 0 {
		return rapid.SampledFrom(junkPEM).Draw(t, label)
	}
	var out []byte
	for i, n := 0, rapid.IntRange(2, 3).Draw(t, label+".blocks"); i < n; i++ {
		out = append(out, rapid.SampledFrom(pemBlocks).Draw(t, fmt.Sprintf("%s.block[%d]", label, i))...)
	}
	return out
}

func genI32(t *rapid.T, label string) int32 { return rapid.SampledFrom(int32s).Draw(t, label) }

// mutate applies 0..4 random edits to a valid object.
func mutate(t *rapid.T, c *proxyv1alpha1.UpstreamCluster) []string {
	var edits []string
	n := rapid.IntRange(0, 4).Draw(t, "nedits")
	for i := 0; i < n; i++ {
		l := fmt.Sprintf("edit[%d]", i)
		k := rapid.IntRange(0, 30).Draw(t, l+".kind")
		switch k {
		case 22, 23, 24:
			// plausible schema: a valid draw, possibly with one number nudged
			name := rapid.SampledFrom([]string{"s1", "s2", "s3"}).Draw(t, l+".name")
			sc := gen.GenSchema(t, l+".valid", name, true)
			if rapid.IntRange(0, 2).Draw(t, l+".nudge") == 0 {
				v := genI32(t, l+".v")
				switch {
				case sc.MaxRequestsInflight != nil && rapid.Bool().Draw(t, l+".loc"):
					sc.MaxRequestsInflight.Max = v
				case sc.GlobalMaxRequestsInflight != nil:
					sc.GlobalMaxRequestsInflight.Max = v
				case sc.TokenBucket != nil && rapid.Bool().Draw(t, l+".qps"):
					sc.TokenBucket.QPS = v
				case sc.TokenBucket != nil:
					sc.TokenBucket.Burst = v
				}
			}
			found := false
			for j := range c.Spec.FlowControl.Schemas {
				if c.Spec.FlowControl.Schemas[j].Name == name {
					c.Spec.FlowControl.Schemas[j] = sc
					found = true
				}
			}
			if !found {
				c.Spec.FlowControl.Schemas = append(c.Spec.FlowControl.Schemas, sc)
			}
			if len(c.Spec.DispatchPolicies) > 0 {
				c.Spec.DispatchPolicies[len(c.Spec.DispatchPolicies)-1].FlowControlSchemaName = name
			}
			edits = append(edits, "plausible schema "+name)
		case 25, 26, 30:
			// a plausible client configuration, for https - or left over on an upstream that talks plain http (k == 30)
			if k != 30 {
				for j := range c.Spec.Servers {
					c.Spec.Servers[j].Endpoint = strings.Replace(c.Spec.Servers[j].Endpoint, "http://", "https://", 1)
				}
				for j := range c.Spec.DispatchPolicies {
					for x := range c.Spec.DispatchPolicies[j].UpstreamSubset {
						c.Spec.DispatchPolicies[j].UpstreamSubset[x] = strings.Replace(c.Spec.DispatchPolicies[j].UpstreamSubset[x], "http://", "https://", 1)
					}
				}
			}
			cc := &c.Spec.ClientConfig
			cc.Insecure = rapid.Bool().Draw(t, l+".insecure")
			if rapid.Bool().Draw(t, l+".ca") {
				cc.CAData = mats[0].CAPEM
			}
			switch rapid.IntRange(0, 2).Draw(t, l+".auth") {
			case 0:
				cc.BearerToken = []byte("tok")
			case 1:
				cc.CertData, cc.KeyData = mats[1].CertPEM, mats[1].KeyPEM
			default:
				cc.BearerToken = []byte("tok")
				cc.CertData, cc.KeyData = mats[1].CertPEM, mats[1].KeyPEM
			}
			edits = append(edits, fmt.Sprintf("%s clientConfig{insecure=%v ca=%d cert=%d token=%d}", map[bool]string{true: "http with leftover TLS", false: "https"}[k == 30], cc.Insecure, len(cc.CAData), len(cc.CertData), len(cc.BearerToken)))
		case 27:
			q := int32(rapid.IntRange(0, 5).Draw(t, l+".qps"))
			c.Spec.ClientConfig.QPS, c.Spec.ClientConfig.Burst, c.Spec.ClientConfig.QPSDivisor = q, q+int32(rapid.IntRange(0, 2).Draw(t, l+".b")), int32(rapid.IntRange(0, 3).Draw(t, l+".d"))
			edits = append(edits, fmt.Sprintf("client qps=%d burst=%d div=%d", c.Spec.ClientConfig.QPS, c.Spec.ClientConfig.Burst, c.Spec.ClientConfig.QPSDivisor))
		case 28:
			ss := &c.Spec.SecureServing
			switch rapid.IntRange(0, 5).Draw(t, l+".what") {
			case 4:
				ss.ClientCAData = genPEM(t, l+".caBundle")
			case 5:
				// a good CA with a broken block before or after it
				bad := rapid.SampledFrom(pemBlocks[5:]).Draw(t, l+".badBlock")
				if rapid.Bool().Draw(t, l+".badFirst") {
					ss.ClientCAData = append(append([]byte{}, bad...), mats[0].CAPEM...)
				} else {
					ss.ClientCAData = append(append([]byte{}, mats[0].CAPEM...), bad...)
				}
			case 0:
				ss.CertData, ss.KeyData = mats[0].CertPEM, nil // certificate without key
			case 1:
				ss.CertData, ss.KeyData = nil, mats[0].KeyPEM
			case 2:
				ss.CertData, ss.KeyData = append(append([]byte{}, mats[0].CertPEM...), mats[1].CertPEM...), mats[0].KeyPEM
			default:
				ss.ClientCAData = append(append([]byte{}, mats[0].CAPEM...), mats[1].CAPEM...)
			}
			edits = append(edits, fmt.Sprintf("plausible secureServing{cert=%d key=%d ca=%d}", len(ss.CertData), len(ss.KeyData), len(ss.ClientCAData)))
		case 29:
			c.Spec.SecureServing.ServerNames = append(c.Spec.SecureServing.ServerNames, rapid.SampledFrom([]string{"", "UPPER.io", "a b", "alpha", "10.0.0.1", "x:443"}).Draw(t, l+".sn"))
			edits = append(edits, fmt.Sprintf("serverNames=%q", c.Spec.SecureServing.ServerNames))
		case 0:
			if len(c.Spec.Servers) > 0 {
				j := rapid.IntRange(0, len(c.Spec.Servers)-1).Draw(t, l+".srv")
				c.Spec.Servers[j].Endpoint = rapid.SampledFrom(junkEndpoints).Draw(t, l+".endpoint")
				edits = append(edits, fmt.Sprintf("server[%d].endpoint=%q", j, c.Spec.Servers[j].Endpoint))
			}
		case 1:
			c.Spec.Servers = append(c.Spec.Servers, proxyv1alpha1.UpstreamClusterServer{Endpoint: rapid.SampledFrom(junkEndpoints).Draw(t, l+".endpoint")})
			edits = append(edits, fmt.Sprintf("server+=%q", c.Spec.Servers[len(c.Spec.Servers)-1].Endpoint))
		case 2:
			c.Spec.Servers = nil
			edits = append(edits, "servers=nil")
		case 3:
			c.Spec.DispatchPolicies = nil
			edits = append(edits, "policies=nil")
		case 4, 5, 6, 7:
			// schema member edits
			s := proxyv1alpha1.FlowControlSchema{Name: rapid.SampledFrom([]string{"s1", "s2", "", "new"}).Draw(t, l+".name")}
			if rapid.Bool().Draw(t, l+".exempt") {
				s.Exempt = &proxyv1alpha1.ExemptFlowControlSchema{}
			}
			if rapid.Bool().Draw(t, l+".mif") {
				s.MaxRequestsInflight = &proxyv1alpha1.MaxRequestsInflightFlowControlSchema{Max: genI32(t, l+".mif.max")}
			}
			if rapid.Bool().Draw(t, l+".tb") {
				s.TokenBucket = &proxyv1alpha1.TokenBucketFlowControlSchema{QPS: genI32(t, l+".tb.qps"), Burst: genI32(t, l+".tb.burst")}
			}
			if rapid.Bool().Draw(t, l+".gmif") {
				s.GlobalMaxRequestsInflight = &proxyv1alpha1.MaxRequestsInflightFlowControlSchema{Max: genI32(t, l+".gmif.max")}
			}
			if rapid.Bool().Draw(t, l+".gtb") {
				s.GlobalTokenBucket = &proxyv1alpha1.TokenBucketFlowControlSchema{QPS: genI32(t, l+".gtb.qps"), Burst: genI32(t, l+".gtb.burst")}
			}
			s.Strategy = proxyv1alpha1.LimitStrategy(rapid.SampledFrom([]string{"", "local", "globalAllocate", "globalCount", "bogus"}).Draw(t, l+".strategy"))
			replaced := false
			for j := range c.Spec.FlowControl.Schemas {
				if c.Spec.FlowControl.Schemas[j].Name == s.Name && rapid.Bool().Draw(t, l+".replace") {
					c.Spec.FlowControl.Schemas[j] = s
					replaced = true
					break
				}
			}
			if !replaced {
				c.Spec.FlowControl.Schemas = append(c.Spec.FlowControl.Schemas, s)
			}
			edits = append(edits, "schema:"+gen.ClusterString(&proxyv1alpha1.UpstreamCluster{Spec: proxyv1alpha1.UpstreamClusterSpec{FlowControl: proxyv1alpha1.FlowControl{Schemas: []proxyv1alpha1.FlowControlSchema{s}}}}))
			if len(c.Spec.DispatchPolicies) > 0 && s.Name != "" && rapid.Bool().Draw(t, l+".use") {
				c.Spec.DispatchPolicies[0].FlowControlSchemaName = s.Name
			}
		case 8:
			if len(c.Spec.DispatchPolicies) > 0 {
				c.Spec.DispatchPolicies[0].UpstreamSubset = append(c.Spec.DispatchPolicies[0].UpstreamSubset, rapid.SampledFrom(junkEndpoints).Draw(t, l+".subset"))
				edits = append(edits, "policy[0].subset+=junk")
			}
		case 9:
			if len(c.Spec.DispatchPolicies) > 0 {
				c.Spec.DispatchPolicies[0].FlowControlSchemaName = rapid.SampledFrom([]string{"nope", "s1", "s2", ""}).Draw(t, l+".fc")
				edits = append(edits, "policy[0].fc="+c.Spec.DispatchPolicies[0].FlowControlSchemaName)
			}
		case 10:
			if len(c.Spec.DispatchPolicies) > 0 {
				j := rapid.IntRange(0, len(c.Spec.DispatchPolicies)-1).Draw(t, l+".p")
				switch rapid.IntRange(0, 2).Draw(t, l+".what") {
				case 0:
					c.Spec.DispatchPolicies[j].Rules = nil
				case 1:
					c.Spec.DispatchPolicies[j].Strategy = proxyv1alpha1.Strategy(rapid.SampledFrom([]string{"", "Random", "roundrobin"}).Draw(t, l+".strategy"))
				default:
					c.Spec.DispatchPolicies[j].LogMode = "verbose"
				}
				edits = append(edits, fmt.Sprintf("policy[%d] edited", j))
			}
		case 11:
			c.Spec.Logging.Mode = proxyv1alpha1.LogMode(rapid.SampledFrom([]string{"ON", "debug", "on"}).Draw(t, l+".logging"))
			edits = append(edits, "logging="+string(c.Spec.Logging.Mode))
		case 12, 13:
			cc := &c.Spec.ClientConfig
			cc.Insecure = rapid.Bool().Draw(t, l+".insecure")
			cc.CAData = genPEM(t, l+".ca")
			cc.CertData = genPEM(t, l+".cert")
			cc.KeyData = genPEM(t, l+".key")
			if rapid.Bool().Draw(t, l+".token") {
				cc.BearerToken = []byte("tok")
			} else {
				cc.BearerToken = nil
			}
			cc.QPS, cc.Burst, cc.QPSDivisor = genI32(t, l+".qps"), genI32(t, l+".burst"), genI32(t, l+".div")
			cc.ServerName = rapid.SampledFrom([]string{"", "sni.example.com"}).Draw(t, l+".sni")
			edits = append(edits, fmt.Sprintf("clientConfig{insecure=%v ca=%d cert=%d key=%d token=%d qps=%d burst=%d div=%d}", cc.Insecure, len(cc.CAData), len(cc.CertData), len(cc.KeyData), len(cc.BearerToken), cc.QPS, cc.Burst, cc.QPSDivisor))
		case 14:
			// switch every endpoint to https
			for j := range c.Spec.Servers {
				c.Spec.Servers[j].Endpoint = strings.Replace(c.Spec.Servers[j].Endpoint, "http://", "https://", 1)
			}
			for j := range c.Spec.DispatchPolicies {
				for x := range c.Spec.DispatchPolicies[j].UpstreamSubset {
					c.Spec.DispatchPolicies[j].UpstreamSubset[x] = strings.Replace(c.Spec.DispatchPolicies[j].UpstreamSubset[x], "http://", "https://", 1)
				}
			}
			edits = append(edits, "all endpoints https")
		case 15, 16:
			ss := &c.Spec.SecureServing
			ss.CertData = genPEM(t, l+".cert")
			ss.KeyData = genPEM(t, l+".key")
			ss.ClientCAData = genPEM(t, l+".ca")
			edits = append(edits, fmt.Sprintf("secureServing{cert=%d key=%d ca=%d}", len(ss.CertData), len(ss.KeyData), len(ss.ClientCAData)))
		case 17:
			c.Name = rapid.SampledFrom([]string{"", "UPPER", "a_b", strings.Repeat("x", 300), "ok-name", "-bad"}).Draw(t, l+".name")
			edits = append(edits, "name="+c.Name)
		case 18:
			if c.Annotations == nil {
				c.Annotations = map[string]string{}
			}
			c.Annotations[gen.FeatureGateAnnotation] = rapid.SampledFrom([]string{"Bogus=true", "DenyAllRequests=maybe", "=", ",", "Tracing=true,Tracing=false", "DenyAllRequests=true"}).Draw(t, l+".gates")
			edits = append(edits, "gates="+c.Annotations[gen.FeatureGateAnnotation])
		case 19:
			if len(c.Spec.Servers) > 0 {
				c.Spec.Servers = append(c.Spec.Servers, c.Spec.Servers[0]) // duplicate endpoint
				edits = append(edits, "duplicate server")
			}
		case 20:
			c.Spec.FlowControl.Schemas = append(c.Spec.FlowControl.Schemas, proxyv1alpha1.FlowControlSchema{Name: "g", Strategy: proxyv1alpha1.LimitStrategy(rapid.SampledFrom([]string{"globalCount", "globalAllocate"}).Draw(t, l+".strategy")),
				FlowControlSchemaConfiguration: proxyv1alpha1.FlowControlSchemaConfiguration{MaxRequestsInflight: &proxyv1alpha1.MaxRequestsInflightFlowControlSchema{Max: 3}}})
			if len(c.Spec.DispatchPolicies) > 0 {
				c.Spec.DispatchPolicies[0].FlowControlSchemaName = "g"
			}
			edits = append(edits, "global strategy without global member")
		case 21:
			c.Spec.FlowControl.Schemas = append(c.Spec.FlowControl.Schemas, proxyv1alpha1.FlowControlSchema{Name: "gonly", FlowControlSchemaConfiguration: proxyv1alpha1.FlowControlSchemaConfiguration{
				GlobalMaxRequestsInflight: &proxyv1alpha1.MaxRequestsInflightFlowControlSchema{Max: genI32(t, l+".gmax")}}})
			edits = append(edits, "schema with only globalMaxRequestsInflight")
		}
	}
	return edits
}

// mustReject lists the reasons, from the classes named in the property, why an object has to be rejected.
func mustReject(c *proxyv1alpha1.UpstreamCluster) []string {
	var why []string
	schemes := map[string]bool{}
	eps := map[string]bool{}
	for _, s := range c.Spec.Servers {
		if _, err := url.Parse(s.Endpoint); err != nil {
			why = append(why, fmt.Sprintf("unparseable endpoint URL %q", s.Endpoint))
		}
		if i := strings.Index(s.Endpoint, "://"); i > 0 {
			schemes[strings.ToLower(s.Endpoint[:i])] = true
		}
		eps[s.Endpoint] = true
	}
	if len(schemes) > 1 {
		why = append(why, "mixed schemes")
	}
	ss := c.Spec.SecureServing
	if len(ss.CertData) > 0 && len(ss.KeyData) > 0 {
		if _, err := tls.X509KeyPair(ss.CertData, ss.KeyData); err != nil {
			why = append(why, "unusable serving key/certificate")
		}
	}
	if len(ss.ClientCAData) > 0 {
		if _, err := certutil.ParseCertsPEM(ss.ClientCAData); err != nil {
			why = append(why, "unusable client CA data")
		}
	}
	names := map[string]bool{}
	for _, s := range c.Spec.FlowControl.Schemas {
		names[s.Name] = true
		members := 0
		if s.Exempt != nil {
			members++
		}
		if s.MaxRequestsInflight != nil {
			members++
			if s.MaxRequestsInflight.Max < 0 {
				why = append(why, "out of range: maxRequestsInflight.max < 0")
			}
		}
		if s.TokenBucket != nil {
			members++
			if s.TokenBucket.QPS <= 0 {
				why = append(why, "out of range: tokenBucket.qps <= 0")
			}
			if s.TokenBucket.Burst < s.TokenBucket.QPS {
				why = append(why, "out of range: tokenBucket.burst < qps")
			}
		}
		if members > 1 {
			why = append(why, "contradictory: more than one flow-control type")
		}
		if members == 0 {
			why = append(why, "incomplete: no flow-control type")
		}
		if s.GlobalMaxRequestsInflight != nil {
			if s.MaxRequestsInflight == nil {
				why = append(why, "incomplete: globalMaxRequestsInflight without maxRequestsInflight")
			} else if s.GlobalMaxRequestsInflight.Max < s.MaxRequestsInflight.Max {
				why = append(why, "contradictory: global max < local max")
			}
			if s.GlobalMaxRequestsInflight.Max < 0 {
				why = append(why, "out of range: globalMaxRequestsInflight.max < 0")
			}
		}
		if s.GlobalTokenBucket != nil {
			if s.TokenBucket == nil {
				why = append(why, "incomplete: globalTokenBucket without tokenBucket")
			} else if s.GlobalTokenBucket.QPS < s.TokenBucket.QPS || s.GlobalTokenBucket.Burst < s.TokenBucket.Burst {
				why = append(why, "contradictory: global token bucket < local")
			}
			if s.GlobalTokenBucket.QPS <= 0 {
				why = append(why, "out of range: globalTokenBucket.qps <= 0")
			}
		}
	}
	for i, p := range c.Spec.DispatchPolicies {
		for _, u := range p.UpstreamSubset {
			if !eps[u] {
				why = append(why, fmt.Sprintf("policy[%d] refers to unknown endpoint %q", i, u))
			}
		}
		if p.FlowControlSchemaName != "" && !names[p.FlowControlSchemaName] {
			why = append(why, fmt.Sprintf("policy[%d] refers to unknown schema %q", i, p.FlowControlSchemaName))
		}
	}
	return why
}

// plugin is the real admission plugin; pluginStore is the store of its informer cache (empty unless a sub-check fills it)
var plugin, pluginStore = func() (admission.ValidationInterface, cache.Indexer) {
	p := upstreamclusteradmission.NewUpstreamClusterPlugin()
	f := gwinformers.NewSharedInformerFactory(gatewayfake.NewSimpleClientset(), 0)
	p.(interface {
		SetGatewayResourceInformerFactory(gwinformers.SharedInformerFactory)
	}).SetGatewayResourceInformerFactory(f)
	idx := f.Proxy().V1alpha1().UpstreamClusters().Informer().GetIndexer()
	stop := make(chan struct{})
	f.Start(stop)
	f.WaitForCacheSync(stop)
	return p.(admission.ValidationInterface), idx
}()

var objInterfaces = admission.NewObjectInterfacesFromScheme(scheme.Scheme)

// validate runs the real admission plugin's Validate (ValidateUpstreamCluster + feature-gate check + conflict check
// against an empty cluster list) and ValidateUpstreamCluster directly.
func validate(c *proxyv1alpha1.UpstreamCluster) (errs []string, panicked interface{}) {
	defer func() {
		if r := recover(); r != nil {
			panicked = r
		}
	}()
	for _, e := range validation.ValidateUpstreamCluster(c) {
		errs = append(errs, e.Error())
	}
	gvk := proxyv1alpha1.SchemeGroupVersion.WithKind("UpstreamCluster")
	gvr := proxyv1alpha1.SchemeGroupVersion.WithResource("upstreamclusters")
	attrs := admission.NewAttributesRecord(c.DeepCopy(), nil, gvk, "", c.Name, gvr, "", admission.Create, &metav1.CreateOptions{}, false, nil)
	if err := plugin.Validate(context.Background(), attrs, objInterfaces); err != nil {
		if len(errs) == 0 {
			errs = append(errs, err.Error())
		}
	} else if len(errs) > 0 {
		panicked = fmt.Sprintf("harness: plugin accepted what ValidateUpstreamCluster rejects: %v", errs)
	}
	if len(errs) > 0 && panicked == nil {
		// the same object submitted as an UPDATE of an object that differs only in metadata (annotations, labels): what
		// is refused on create must be refused there too - the gateway reads the feature gates from an annotation
		old := c.DeepCopy()
		old.Annotations = nil
		old.Labels = map[string]string{"previous": "version"}
		old.ResourceVersion = "1"
		upd := admission.NewAttributesRecord(c.DeepCopy(), old, gvk, "", c.Name, gvr, "", admission.Update, &metav1.UpdateOptions{}, false, nil)
		if err := plugin.Validate(context.Background(), upd, objInterfaces); err == nil {
			acceptedAsUpdate = true
		}
	}
	return
}

// acceptedAsUpdate is set by validate when the create path refused the object but the update path (old object with the
// same spec) accepted it.
var acceptedAsUpdate bool

type echoCS struct{ client gatewayclientset.Interface }

func (s *echoCS) GetAllClients() []gatewayclientset.Interface          { return nil }
func (s *echoCS) ClientFor(string) (gatewayclientset.Interface, error) { return s.client, nil }
func (s *echoCS) ShardIDFor(string) (int, error)                       { return 0, nil }
func (s *echoCS) IsReady(string) bool                                  { return true }
func (s *echoCS) ClientID() string                                     { return "gw-1" }

func newEcho() *echoCS {
	fc := gatewayfake.NewSimpleClientset()
	fc.PrependReactor("update", "ratelimitconditions", func(action clienttesting.Action) (bool, k8sruntime.Object, error) {
		ua, ok := action.(clienttesting.UpdateAction)
		if !ok || action.GetSubresource() != "status" {
			return false, nil, nil
		}
		in := ua.GetObject().(*proxyv1alpha1.RateLimitCondition).DeepCopy()
		for i := range in.Spec.LimitItemConfigurations {
			it := &in.Spec.LimitItemConfigurations[i]
			if it.MaxRequestsInflight == nil && it.TokenBucket == nil {
				it.MaxRequestsInflight = &proxyv1alpha1.MaxRequestsInflightFlowControlSchema{Max: 1}
			}
		}
		return true, in, nil
	})
	return &echoCS{client: fc}
}

// apply runs an accepted object through the data plane; returns "" or what failed.
func apply(c *proxyv1alpha1.UpstreamCluster, prev *proxyv1alpha1.UpstreamCluster) (msg string) {
	stage := "start"
	defer func() {
		if r := recover(); r != nil {
			msg = fmt.Sprintf("panic in %s: %v", stage, r)
		}
	}()
	health := func(e *clusters.EndpointInfo) bool { return false }
	stage = "CreateClusterInfo"
	ci, err := clusters.CreateClusterInfo(c, health, "", nil)
	if err != nil {
		return "CreateClusterInfo: " + err.Error()
	}
	closeCI := func(ci *clusters.ClusterInfo) {
		_ = ci.Sync(&proxyv1alpha1.UpstreamCluster{ObjectMeta: metav1.ObjectMeta{Name: ci.Cluster}})
		ci.Stop()
	}
	defer closeCI(ci)
	stage = "smoke"
	for _, p := range probes {
		picker, err := ci.MatchAttributes(p.Attributes())
		if err != nil {
			continue
		}
		_, _ = picker.Pop()
		if picker.FlowControl().TryAcquire() {
			picker.FlowControl().Release()
		}
	}
	for _, s := range c.Spec.FlowControl.Schemas {
		fc := ci.GetFlowSchema(s.Name)
		_ = fc.String()
		if fc.TryAcquire() {
			fc.Release()
		}
	}
	if prev != nil {
		stage = "Sync over a previously applied object"
		pci, err := clusters.CreateClusterInfo(prev, health, "", nil)
		if err == nil {
			defer closeCI(pci)
			cc := c.DeepCopy()
			cc.Name = prev.Name
			if err := pci.Sync(cc); err != nil {
				return "ClusterInfo.Sync over a previously applied object: " + err.Error()
			}
			for _, s := range c.Spec.FlowControl.Schemas {
				fc := pci.GetFlowSchema(s.Name)
				if fc.TryAcquire() {
					fc.Release()
				}
			}
		}
	}
	stage = "controller sync"
	box := ctlbox.New()
	defer box.Close()
	res, err := box.Apply(c)
	if err != nil {
		return "controller sync returned " + err.Error()
	}
	if res.RequeueAfter > 0 {
		return "controller sync failed and asked for a requeue"
	}
	if box.Owner(c.Name) == "" {
		return "after the controller sync the cluster does not resolve"
	}
	stage = "limiter server UpstreamConditionHandler"
	lb := limbox.New("local", 1, "srv")
	lb.LeadAll()
	if err := lb.SetCluster(c); err != nil {
		return "limiter server UpstreamConditionHandler: " + err.Error()
	}
	// gateway-side remote limiter for schemas with a global strategy
	for _, s := range c.Spec.FlowControl.Schemas {
		if s.Strategy == proxyv1alpha1.GlobalAllocateLimit || s.Strategy == proxyv1alpha1.GlobalCountLimit {
			stage = "gateway-side remote limiter (reconcile against an echoing limiter server), schema " + s.Name
			ctx, cancel := context.WithCancel(context.Background())
			ul := flowcontrols.NewUpstreamLimiter(ctx, strings.ToLower(c.Name), "", newEcho())
			flowcontrols.VerifSetLimiterType(ul, flowcontrol.RemoteFlowControls)
			ul.Sync(c.Spec.FlowControl)
			remote.VerifReconcileOnce(flowcontrols.VerifReconcile(ul))
			remote.VerifReconcileOnce(flowcontrols.VerifReconcile(ul))
			fc := ul.GetOrDefault(s.Name)
			if fc.TryAcquire() {
				fc.Release()
			}
			ul.Sync(proxyv1alpha1.FlowControl{})
			cancel()
			break
		}
	}
	return ""
}

var probes = func() []gen.Request {
	all := gen.ProbeRequests()
	var out []gen.Request
	for i, p := range all {
		if i%41 == 0 {
			out = append(out, p)
		}
	}
	return out
}()

func TestPropValidationTotalAndSound(t *testing.T) {
	sub := stats.NewSub("near-valid-objects", "rapid: a valid UpstreamCluster (shared generator: servers, policies, schemas incl. global members, serving TLS material, annotations) with 0-4 random field edits (junk / unparseable / mixed-scheme endpoints and unusual well-formed ones: IPv6 with a zone, user info, a path, upper case, no port, a trailing slash, punycode, any combination of the five flow-control members with values from {0,1,-1,2,5,100,-100,MaxInt32,MinInt32}, unknown subset endpoints / schema names, empty rules, junk strategies and log modes, client config and serving TLS material with garbage / mismatched PEM and bundles mixing good, unparseable and truncated blocks, https switch, invalid names, junk feature-gate annotations, global strategy without global member, schema with only a global member); oracle: validation never panics; an object refused on create is also refused as an update of an object that differs only in metadata; accepted => every apply stage succeeds; accepted => the must-reject predicate is empty; non-trivial = an edited object (accepted or rejected); distinct by FNV-64 of the object")
	remote.VerifSetWaitAcquireTimeout(1e6)
	var prevAccepted *proxyv1alpha1.UpstreamCluster
	stats.Check(t, stats.N(16000, 40000), func(t *rapid.T) {
		c := gen.GenValidCluster(t, "base", "alpha", gen.ObjOpts{Endpoints: []string{"http://127.0.0.1:1", "http://127.0.0.1:2"}, ServerNames: []string{"a.example.com"}, PKI: mats, SchemaNames: []string{"s1", "s2"}})
		edits := mutate(t, c)
		acceptedAsUpdate = false
		errs, p := validate(c)
		sub.Eval()
		desc := fmt.Sprintf("edits %q on %s", edits, gen.ClusterString(c))
		if p != nil {
			t.Fatalf("validation panicked: %v\n%s", p, desc)
		}
		if acceptedAsUpdate {
			t.Fatalf("the object is refused on create (%q) but accepted as an update of an object with the same spec\n%s", errs, desc)
		}
		if len(edits) > 0 {
			sub.NonTrivial(stats.HashString(desc))
		}
		if len(errs) > 0 {
			sub.Class("rejected")
			if sub.WantSample() && len(edits) > 0 {
				sub.Sample(map[string]interface{}{"object": desc, "validation_errors": errs})
			}
			return
		}
		if len(edits) > 0 {
			sub.Class("accepted-edited")
		} else {
			sub.Class("accepted-base")
		}
		if why := mustReject(c); len(why) > 0 {
			t.Fatalf("validation accepted an object the property says must be rejected: %q\n%s", why, desc)
		}
		if msg := apply(c, prevAccepted); msg != "" {
			t.Fatalf("validation accepted an object that cannot be applied: %s\n%s", msg, desc)
		}
		prevAccepted = c.DeepCopy()
	})
}

// TestReplayWitnesses: the two objects named in the property file.
func TestReplayWitnesses(t *testing.T) {
	base := func() *proxyv1alpha1.UpstreamCluster {
		c := &proxyv1alpha1.UpstreamCluster{ObjectMeta: metav1.ObjectMeta{Name: "alpha"}}
		c.Spec.Servers = []proxyv1alpha1.UpstreamClusterServer{{Endpoint: "http://127.0.0.1:1"}}
		c.Spec.DispatchPolicies = []proxyv1alpha1.DispatchPolicy{{Strategy: proxyv1alpha1.RoundRobin, Rules: []proxyv1alpha1.DispatchPolicyRule{{Verbs: []string{"*"}, NonResourceURLs: []string{"*"}}}}}
		return c
	}
	a := base()
	a.Spec.FlowControl.Schemas = []proxyv1alpha1.FlowControlSchema{{Name: "s", FlowControlSchemaConfiguration: proxyv1alpha1.FlowControlSchemaConfiguration{GlobalMaxRequestsInflight: &proxyv1alpha1.MaxRequestsInflightFlowControlSchema{Max: -1}}}}
	if _, p := validate(a); p != nil {
		t.Errorf("schema with only globalMaxRequestsInflight{max:-1}: validation panicked: %v", p)
	}
	b := base()
	b.Spec.Servers[0].Endpoint = "https://%zz"
	b.Spec.ClientConfig.Insecure = true
	b.Spec.ClientConfig.BearerToken = []byte("t")
	errs, p := validate(b)
	if p != nil {
		t.Errorf("endpoint https://%%zz: validation panicked: %v", p)
	} else if len(errs) == 0 {
		if msg := apply(b, nil); msg != "" {
			t.Errorf("endpoint https://%%zz accepted by validation but: %s", msg)
		}
	}
}
