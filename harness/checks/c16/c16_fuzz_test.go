//go:build verif

package c16

import (
	"encoding/json"
	"testing"

	proxyv1alpha1 "github.com/kubewharf/kubegateway/pkg/apis/proxy/v1alpha1"
	"verifharness/internal/gen"
)

// FuzzValidate: byte-level complement of TestPropValidationTotalAndSound (thorough tier, go test -fuzz). The bytes are
// decoded as the JSON form of an UpstreamCluster (what the control-plane API accepts); the oracle is the same: validation
// never panics, accepted objects are outside the must-reject classes and can be applied.
func FuzzValidate(f *testing.F) {
	seeds := []string{
		`{"metadata":{"name":"alpha"},"spec":{"servers":[{"endpoint":"http://127.0.0.1:1"}],"dispatchPolicies":[{"strategy":"RoundRobin","rules":[{"verbs":["*"],"nonResourceURLs":["*"]}]}]}}`,
		`{"metadata":{"name":"alpha"},"spec":{"servers":[{"endpoint":"https://%zz"}],"clientConfig":{"insecure":true,"bearerToken":"dA=="},"dispatchPolicies":[{"strategy":"RoundRobin","rules":[{"verbs":["*"]}]}]}}`,
		`{"metadata":{"name":"alpha"},"spec":{"servers":[{"endpoint":"http://a"}],"flowControl":{"flowControlSchemas":[{"name":"s","globalMaxRequestsInflight":{"max":-1}}]},"dispatchPolicies":[{"strategy":"RoundRobin","flowControlSchemaName":"s","rules":[{"verbs":["*"]}]}]}}`,
		`{"metadata":{"name":"alpha","annotations":{"proxy.kubegateway.io/feature-gates":"GlobalRateLimiter=true"}},"spec":{"servers":[{"endpoint":"http://a","disabled":true},{"endpoint":"http://b"}],"flowControl":{"flowControlSchemas":[{"name":"s","strategy":"globalCount","tokenBucket":{"qps":-1,"burst":0},"globalTokenBucket":{"qps":2147483647,"burst":-2147483648}},{"name":"t","exempt":{},"maxRequestsInflight":{"max":0}}]},"secureServing":{"certData":"Z2FyYmFnZQ==","keyData":"Z2FyYmFnZQ==","clientCAData":"eA==","serverNames":["X.io","x.io"]},"dispatchPolicies":[{"strategy":"RoundRobin","upstreamSubset":["http://c"],"flowControlSchemaName":"nope","logMode":"on","rules":[]}],"logging":{"mode":"off"}}}`,
		`{}`, `null`, `{"spec":null}`, `{"spec":{"servers":[null]}}`,
	}
	for _, s := range seeds {
		f.Add([]byte(s))
	}
	f.Fuzz(func(t *testing.T, data []byte) {
		c := &proxyv1alpha1.UpstreamCluster{}
		if err := json.Unmarshal(data, c); err != nil {
			return
		}
		errs, p := validate(c)
		if p != nil {
			t.Fatalf("validation panicked: %v\nobject: %s", p, gen.ClusterString(c))
		}
		if len(errs) > 0 {
			return
		}
		if why := mustReject(c); len(why) > 0 {
			t.Fatalf("validation accepted an object the property says must be rejected: %q\nobject: %s", why, gen.ClusterString(c))
		}
		if msg := apply(c, nil); msg != "" {
			t.Fatalf("validation accepted an object that cannot be applied: %s\nobject: %s", msg, gen.ClusterString(c))
		}
	})
}
