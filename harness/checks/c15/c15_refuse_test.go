//go:build verif

package c15

import (
	"fmt"
	"testing"
	"time"

	"pgregory.net/rapid"

	proxyv1alpha1 "github.com/kubewharf/kubegateway/pkg/apis/proxy/v1alpha1"
	"github.com/kubewharf/kubegateway/pkg/clusters"
	"verifharness/internal/gwbox"
	"verifharness/internal/stats"
)

// TestPropRemovalAfterAnEndpointDied: an endpoint that has just died (it refuses connections and its next probe is
// still to come) and long-lived requests dispatched meanwhile; then the dead endpoint is removed, then the live one.
func TestPropRemovalAfterAnEndpointDied(t *testing.T) {
	sub := stats.NewSub("removal-after-an-endpoint-died", "rapid: cluster c1 with endpoint A (reached through a TCP forwarder that can refuse connections) and endpoint B in one policy, probe period 3 s; A starts refusing connections (an API server that just died: still marked ready until its next probe), 2-4 streams are started (round-robin: some are dispatched to A), then A is removed from the spec, then B is replaced by a third endpoint; oracle (whatever the gateway does with a request whose endpoint refuses the connection - a gateway error, or another endpoint): a stream that IS BEING SERVED by B's stub keeps delivering chunks for 300 ms after the removal of A and is cut (ends at the client, context dead at the stub) within 2 s of the removal of B; streams that ended with a gateway error before are not judged; non-trivial = at least one stream was dispatched while A refused connections; distinct by FNV-64 of the plan")
	stats.Check(t, stats.N(8, 60), func(t *rapid.T) {
		nStreams := rapid.IntRange(2, 4).Draw(t, "streams")
		beforeRemoval := time.Duration(rapid.IntRange(0, 100).Draw(t, "waitBeforeRemovingTheDeadEndpointMS")) * time.Millisecond
		plan := fmt.Sprintf("%d streams while A refuses connections; A removed %v later; then B replaced", nStreams, beforeRemoval)
		g := gwbox.NewGateway()
		defer g.Close()
		g.SetToken("client-token", gwbox.Identity{Name: "alice"})
		for i := range pool.Upstreams {
			pool.Upstreams[i].SetHealth(200)
		}
		fwd := gwbox.NewForwarder(pool.Upstreams[0])
		defer fwd.Close()
		a, b, c := fwd.URL(), pool.Upstreams[1].URL, pool.Upstreams[4].URL
		obj := func(eps ...string) *proxyv1alpha1.UpstreamCluster {
			o := gwbox.ClusterObject("c1", "gateway-secret-token")
			for _, e := range eps {
				o.Spec.Servers = append(o.Spec.Servers, proxyv1alpha1.UpstreamClusterServer{Endpoint: e})
			}
			return o
		}
		// bootstrap with a dummy endpoint so that the real ones are added after the probe period was set
		if _, err := g.Box.Apply(obj("http://127.0.0.1:1")); err != nil {
			t.Fatalf("harness: %v", err)
		}
		if ci, ok := g.Box.Controller.Get("c1"); ok {
			clusters.VerifSetHealthCheckInterval(ci, 3*time.Second)
		}
		if res, err := g.Box.Apply(obj(a, b)); err != nil || res.RequeueAfter > 0 {
			t.Fatalf("harness: %v %v", err, res)
		}
		if !g.WaitReady("c1", func(string) bool { return true }, 10*time.Second) {
			sub.Inconclusive()
			t.Skip("upstreams did not become ready")
		}
		sub.Eval()
		fwd.Refuse(true) // A has just died; its next probe is up to 3 s away
		var streams []*stream
		defer func() {
			for _, s := range streams {
				s.release()
			}
			for _, s := range streams {
				<-s.done
				pool.Forget(s.id)
			}
		}()
		for i := 0; i < nStreams; i++ {
			streams = append(streams, startStream(g, "c1", "/api/v1/namespaces/default/pods", true))
		}
		// every stream is either being served by a stub or has ended
		servedByB := func(s *stream) bool {
			seen := pool.Find(s.id)
			_, ended, _, _ := s.snapshot()
			return len(seen) == 1 && seen[0].Upstream == 1 && ended.IsZero()
		}
		if !waitFor(10*time.Second, func() bool {
			for _, s := range streams {
				n, ended, _, _ := s.snapshot()
				if ended.IsZero() && n < 1 {
					return false
				}
			}
			return true
		}) {
			sub.Inconclusive()
			t.Skip("streams neither started nor ended")
		}
		var live []*stream
		for _, s := range streams {
			if servedByB(s) {
				live = append(live, s)
			}
		}
		sub.ClassN("streams-served-by-the-live-endpoint", len(live))
		sub.ClassN("streams-answered-with-a-gateway-error", len(streams)-len(live))
		time.Sleep(beforeRemoval)
		// ---- the dead endpoint is removed: B's streams are bystanders
		at := make([]int, len(live))
		for i, s := range live {
			at[i], _, _, _ = s.snapshot()
		}
		if res, err := g.Box.Apply(obj(b)); err != nil || res.RequeueAfter > 0 {
			t.Fatalf("removal of the dead endpoint failed: %v %v", err, res)
		}
		time.Sleep(300 * time.Millisecond)
		for i, s := range live {
			n, ended, err, _ := s.snapshot()
			if !ended.IsZero() {
				t.Fatalf("a stream served by the live endpoint B ended (%v) when the dead endpoint A was removed from the cluster\nplan: %s", err, plan)
			}
			if i := i; n < at[i]+5 && !waitFor(2*time.Second, func() bool { m, _, _, _ := s.snapshot(); return m >= at[i]+5 }) {
				t.Fatalf("a stream served by the live endpoint B stalled when the dead endpoint A was removed (%d chunks at removal, %d 300 ms later)\nplan: %s", at[i], n, plan)
			}
		}
		// ---- the live endpoint is replaced: its streams are cut
		if res, err := g.Box.Apply(obj(c)); err != nil || res.RequeueAfter > 0 {
			t.Fatalf("replacing B failed: %v %v", err, res)
		}
		for _, s := range live {
			ok := waitFor(2*time.Second, func() bool {
				_, ended, _, _ := s.snapshot()
				seen := pool.Find(s.id)
				return !ended.IsZero() && len(seen) == 1 && !seen[0].CtxDoneAt.IsZero()
			})
			if !ok {
				_, ended, _, st := s.snapshot()
				t.Fatalf("2 s after endpoint B was removed a stream it serves is still running (client ended: %v, status %d)\nplan: %s", !ended.IsZero(), st, plan)
			}
		}
		sub.NonTrivial(stats.HashString(plan))
		if sub.WantSample() {
			sub.Sample(fmt.Sprintf("%s: %d served by B, %d answered with a gateway error", plan, len(live), len(streams)-len(live)))
		}
	})
}
