//go:build verif

// C15 — removal: deleted clusters/endpoints get no traffic; in-flight requests are cut.
package c15

import (
	"bufio"
	"context"
	"fmt"
	"net/http"
	"sync"
	"sync/atomic"
	"testing"
	"time"

	"pgregory.net/rapid"

	proxyv1alpha1 "github.com/kubewharf/kubegateway/pkg/apis/proxy/v1alpha1"
	"github.com/kubewharf/kubegateway/pkg/clusters"
	"verifharness/internal/gwbox"
	"verifharness/internal/stats"
)

func TestMain(m *testing.M) {
	stats.Property("C15")
	stats.Assume(
		"two clusters x two stub upstreams behind the real chain, controller and transports; the policy 'pods' of a cluster is pinned to its first endpoint and the catch-all policy to the second, so the harness knows which endpoint serves which request",
		"'promptly' is checked as: the cut request ends at the client and its context dies at the stub within 2 s of the removal returning (an uncut stream would run until the harness stops it, > 20 s); bystanders must keep receiving chunks for 300 ms after the removal and finish normally",
		"a harness-side timeout (stub never reached, gateway not ready) is inconclusive, not a violation",
		"Go runtime, net/http loopback, pgregory.net/rapid v1.3.0",
	)
	stats.Main(m)
}

var (
	pool = gwbox.NewPool(5) // 0, 1, 4: endpoints of c1; 2, 3: endpoints of c2
	seq  int64
)

// third: index of a third endpoint serving the "nodes" policy, or -1
var third = map[string]int{"c1": 4, "c2": -1}

func clusterObj(name string, a, b int, both bool) *proxyv1alpha1.UpstreamCluster {
	return clusterObj3(name, a, b, both, both && third[name] >= 0)
}

func clusterObj3(name string, a, b int, both, withThird bool) *proxyv1alpha1.UpstreamCluster {
	ups := []*gwbox.Upstream{pool.Upstreams[a]}
	if both {
		ups = append(ups, pool.Upstreams[b])
	}
	if withThird {
		ups = append(ups, pool.Upstreams[third[name]])
	}
	c := gwbox.ClusterObject(name, "gateway-secret-token", ups...)
	pods := proxyv1alpha1.DispatchPolicy{Strategy: proxyv1alpha1.RoundRobin, Rules: []proxyv1alpha1.DispatchPolicyRule{{Verbs: []string{"*"}, APIGroups: []string{"*"}, Resources: []string{"pods"}}}}
	rest := c.Spec.DispatchPolicies[0]
	if both {
		pods.UpstreamSubset = []string{pool.Upstreams[a].URL}
		rest.UpstreamSubset = []string{pool.Upstreams[b].URL}
	}
	c.Spec.DispatchPolicies = []proxyv1alpha1.DispatchPolicy{pods, rest}
	if withThird {
		nodes := proxyv1alpha1.DispatchPolicy{Strategy: proxyv1alpha1.RoundRobin, Rules: []proxyv1alpha1.DispatchPolicyRule{{Verbs: []string{"*"}, APIGroups: []string{"*"}, Resources: []string{"nodes"}}},
			UpstreamSubset: []string{pool.Upstreams[third[name]].URL}}
		c.Spec.DispatchPolicies = []proxyv1alpha1.DispatchPolicy{pods, nodes, rest}
	}
	// every cluster is also reachable under an alias host name
	c.Spec.SecureServing.ServerNames = []string{name + "-alias.example.com"}
	return c
}

type stream struct {
	id      string
	host    string
	path    string
	hold    chan struct{}
	mu      sync.Mutex
	chunks  []time.Time
	status  int
	endedAt time.Time
	endErr  error
	done    chan struct{}
}

func (s *stream) snapshot() (int, time.Time, error, int) {
	s.mu.Lock()
	defer s.mu.Unlock()
	return len(s.chunks), s.endedAt, s.endErr, s.status
}

func startStream(g *gwbox.Gateway, host, path string, streaming bool) *stream {
	s := &stream{id: fmt.Sprintf("c15-%d", atomic.AddInt64(&seq, 1)), host: host, path: path, hold: make(chan struct{}), done: make(chan struct{})}
	pool.SetReply(s.id, &gwbox.Reply{Status: 200, Hold: s.hold, Stream: streaming, Every: 10 * time.Millisecond, Body: []byte("held-reply")})
	go func() {
		defer close(s.done)
		req, _ := http.NewRequest("GET", g.URL+path, nil)
		req.Host = host
		req.Header.Set(gwbox.IDHeader, s.id)
		req.Header.Set("Authorization", "Bearer client-token")
		ctx, cancel := context.WithTimeout(context.Background(), 40*time.Second)
		defer cancel()
		tr := &http.Transport{DisableKeepAlives: true}
		defer tr.CloseIdleConnections()
		resp, err := (&http.Client{Transport: tr}).Do(req.WithContext(ctx))
		if err != nil {
			s.mu.Lock()
			s.endedAt, s.endErr = time.Now(), err
			s.mu.Unlock()
			return
		}
		defer resp.Body.Close()
		s.mu.Lock()
		s.status = resp.StatusCode
		s.mu.Unlock()
		r := bufio.NewReader(resp.Body)
		for {
			_, err := r.ReadString('\n')
			s.mu.Lock()
			if err != nil {
				s.endedAt, s.endErr = time.Now(), err
				s.mu.Unlock()
				return
			}
			s.chunks = append(s.chunks, time.Now())
			s.mu.Unlock()
		}
	}()
	return s
}

func (s *stream) release() {
	select {
	case <-s.hold:
	default:
		close(s.hold)
	}
}

func waitFor(d time.Duration, cond func() bool) bool {
	deadline := time.Now().Add(d)
	for !cond() {
		if time.Now().After(deadline) {
			return false
		}
		time.Sleep(time.Millisecond)
	}
	return true
}

func quick(g *gwbox.Gateway, host, path string) (int, int) {
	id := fmt.Sprintf("c15q-%d", atomic.AddInt64(&seq, 1))
	ctx, cancel := context.WithTimeout(context.Background(), 10*time.Second)
	defer cancel()
	resp := g.Do(ctx, gwbox.RawRequest{Method: "GET", Target: path, Host: host, Headers: [][2]string{{gwbox.IDHeader, id}, {"Authorization", "Bearer client-token"}}})
	up := -1
	if seen := pool.Find(id); len(seen) == 1 {
		up = seen[0].Upstream
	}
	pool.Forget(id)
	return resp.Status, up
}

func TestPropRemovalCutsInflight(t *testing.T) {
	sub := stats.NewSub("removal-timing", "rapid: what is removed (cluster c1 / the first endpoint of c1 - by an update, or by deleting the cluster object and creating it again under the same name with a new uid before the deletion was processed / two of its three endpoints in ONE update, with a second request in flight on the other removed endpoint), when relative to a target request on that endpoint (before it is sent / while the stub delays its headers / after j = 1..5 streamed chunks), 0-3 bystanders (streams or held requests on the other endpoint of c1 and on cluster c2); oracle: the target ends at the client and its context dies at the stub within 2 s of the removal, and a target cut before the upstream answered gets a 5xx from the gateway (never a 2xx); the removed endpoint (optionally disabled and re-enabled before; optionally disabled - drained - while the target is in flight and still disabled when removed) receives no health probe later than 300 ms after the removal (probe period shortened to 20 ms by the verif hook); afterwards requests to the deleted cluster - by its name and by its alias server name - get 503 and nothing is forwarded, the removed endpoint is never picked again; bystander streams keep delivering chunks for 300 ms and finish normally when released, held bystander requests return 200; non-trivial = the removal happens while the target is connecting or streaming and there is >= 1 bystander; distinct by FNV-64 of the plan")
	stats.Check(t, stats.N(20, 150), func(t *rapid.T) {
		what := rapid.SampledFrom([]string{"cluster", "endpoint", "two endpoints in one update", "endpoint, by deleting the cluster and creating it again without it"}).Draw(t, "remove")
		recreated := what == "endpoint, by deleting the cluster and creating it again without it"
		if recreated {
			what = "endpoint"
		}
		when := rapid.SampledFrom([]string{"before", "connecting", "streaming", "streaming"}).Draw(t, "when")
		j := rapid.IntRange(1, 5).Draw(t, "chunksBefore")
		nBy := rapid.IntRange(0, 3).Draw(t, "bystanders")
		flap := rapid.Bool().Draw(t, "disableEnableBeforeRemoval")
		drained := rapid.Bool().Draw(t, "disabledWhenRemoved") // the usual drain procedure: disable first, remove later
		targetHost := rapid.SampledFrom([]string{"c1", "c1-alias.example.com"}).Draw(t, "targetHost")
		type by struct {
			host, path string
			streaming  bool
		}
		var bys []by
		for i := 0; i < nBy; i++ {
			b := by{streaming: rapid.Bool().Draw(t, fmt.Sprintf("by[%d].streaming", i))}
			switch rapid.IntRange(0, 2).Draw(t, fmt.Sprintf("by[%d].where", i)) {
			case 0:
				if what == "cluster" {
					b.host, b.path = "c2", "/healthz/x" // the whole of c1 goes away
				} else {
					b.host, b.path = "c1", "/healthz/x" // other endpoint of the same cluster
				}
			case 1:
				b.host, b.path = "c2", "/api/v1/pods"
			default:
				b.host, b.path = "c2", "/healthz/x"
			}
			bys = append(bys, b)
		}
		plan := fmt.Sprintf("remove %s (recreated=%v) %s (j=%d) disable/enable before=%v disabled when removed=%v bystanders %+v", what, recreated, when, j, flap, drained, bys)
		g := gwbox.NewGateway()
		defer g.Close()
		g.SetToken("client-token", gwbox.Identity{Name: "alice"})
		for i := range pool.Upstreams {
			pool.Upstreams[i].SetHealth(200)
		}
		c1, c2 := clusterObj("c1", 0, 1, true), clusterObj("c2", 2, 3, true)
		// bootstrap c1 with a dummy endpoint so that its real endpoints are added after the probe period was shortened
		boot := gwbox.ClusterObject("c1", "gateway-secret-token")
		boot.Spec.Servers = []proxyv1alpha1.UpstreamClusterServer{{Endpoint: "http://127.0.0.1:1"}}
		if _, err := g.Box.Apply(boot); err != nil {
			t.Fatalf("harness: %v", err)
		}
		if ci, ok := g.Box.Controller.Get("c1"); ok {
			clusters.VerifSetHealthCheckInterval(ci, 20*time.Millisecond)
		}
		for _, c := range []*proxyv1alpha1.UpstreamCluster{c1, c2} {
			if res, err := g.Box.Apply(c); err != nil || res.RequeueAfter > 0 {
				t.Fatalf("harness: %v %v", err, res)
			}
		}
		if flap {
			// the endpoint that will be removed is disabled and enabled again first (its probe loop is restarted)
			dis := clusterObj("c1", 0, 1, true)
			b := true
			dis.Spec.Servers[0].Disabled = &b
			for _, c := range []*proxyv1alpha1.UpstreamCluster{dis, c1} {
				if res, err := g.Box.Apply(c); err != nil || res.RequeueAfter > 0 {
					t.Fatalf("harness: %v %v", err, res)
				}
			}
		}
		if !g.WaitReady("c1", func(string) bool { return true }, 10*time.Second) || !g.WaitReady("c2", func(string) bool { return true }, 10*time.Second) {
			sub.Inconclusive()
			t.Skip("upstreams did not become ready")
		}
		sub.Eval()
		var streams []*stream
		defer func() {
			for _, s := range streams {
				s.release()
			}
			for _, s := range streams {
				<-s.done
				pool.Forget(s.id)
			}
		}()
		var bystanders []*stream
		for _, b := range bys {
			s := startStream(g, b.host, b.path, b.streaming)
			streams = append(streams, s)
			bystanders = append(bystanders, s)
		}
		var target *stream
		if when != "before" {
			target = startStream(g, targetHost, "/api/v1/namespaces/default/pods", when == "streaming")
			streams = append(streams, target)
		}
		// when two endpoints go away in ONE update, a second request is in flight on the other one of them
		var target2 *stream
		if what == "two endpoints in one update" {
			target2 = startStream(g, "c1", "/api/v1/nodes", rapid.Bool().Draw(t, "secondTargetStreaming"))
			streams = append(streams, target2)
		}
		// wait until everything is in the intended state
		for _, s := range streams {
			st := pool.Started(s.id)
			select {
			case <-st:
			case <-time.After(10 * time.Second):
				sub.Inconclusive()
				t.Skip("a request never reached its stub upstream")
			}
		}
		if target != nil {
			seen := pool.Find(target.id)
			if len(seen) != 1 || seen[0].Upstream != 0 {
				t.Fatalf("harness: target request is not on upstream 0 (%v)", seen)
			}
			if when == "streaming" {
				if !waitFor(10*time.Second, func() bool { n, _, _, _ := target.snapshot(); return n >= j }) {
					sub.Inconclusive()
					t.Skip("target stream did not deliver chunks")
				}
			}
		}
		for i, s := range bystanders {
			if bys[i].streaming {
				if !waitFor(10*time.Second, func() bool { n, _, _, _ := s.snapshot(); return n >= 1 }) {
					sub.Inconclusive()
					t.Skip("bystander stream did not deliver chunks")
				}
			}
		}
		if drained {
			// the endpoint is taken out of rotation while the target is in flight on it (requests in flight go on by design)
			dis := clusterObj("c1", 0, 1, true)
			b := true
			dis.Spec.Servers[0].Disabled = &b
			if res, err := g.Box.Apply(dis); err != nil || res.RequeueAfter > 0 {
				t.Fatalf("harness: disabling the endpoint failed: %v %v", err, res)
			}
			sub.Class("endpoint-disabled-when-removed")
		}
		// ---- the removal
		if what == "cluster" {
			if _, err := g.Box.Delete(c1); err != nil {
				t.Fatalf("delete failed: %v", err)
			}
		} else if what == "endpoint" {
			// endpoint 0 goes, 1 and the third endpoint stay
			if recreated {
				// the object is deleted and created again under the same name (a new uid) before the controller has
				// processed the deletion: the event it processes finds the new object
				g.Box.Remove(c1)
				sub.Class("cluster-deleted-and-created-again-without-the-endpoint")
			}
			if res, err := g.Box.Apply(clusterObj3("c1", 1, 0, false, true)); err != nil || res.RequeueAfter > 0 {
				t.Fatalf("endpoint removal failed: %v %v", err, res)
			}
		} else {
			// endpoint 0 AND the third endpoint go in one update, 1 stays
			if res, err := g.Box.Apply(clusterObj3("c1", 1, 0, false, false)); err != nil || res.RequeueAfter > 0 {
				t.Fatalf("endpoint removal failed: %v %v", err, res)
			}
		}
		removedAt := time.Now()
		byChunksAtRemoval := make([]int, len(bystanders))
		for i, s := range bystanders {
			byChunksAtRemoval[i], _, _, _ = s.snapshot()
		}
		// ---- the target is cut promptly
		if target != nil {
			ok := waitFor(2*time.Second, func() bool {
				_, ended, _, _ := target.snapshot()
				seen := pool.Find(target.id)
				return !ended.IsZero() && len(seen) == 1 && !seen[0].CtxDoneAt.IsZero()
			})
			_, ended, _, st := target.snapshot()
			seen := pool.Find(target.id)
			if !ok {
				t.Fatalf("2 s after the removal the request being proxied to the removed %s is still hanging (client ended: %v, status %d; stub context dead: %v)\nplan: %s", what, !ended.IsZero(), st, len(seen) == 1 && !seen[0].CtxDoneAt.IsZero(), plan)
			}
			if when == "connecting" && st > 0 && st < 500 {
				// the upstream had not answered yet: what the client gets is the gateway's own answer, and that says why
				t.Fatalf("the request cut before the upstream answered was answered %d to the client, expected a gateway error (5xx Status)\nplan: %s", st, plan)
			}
			sub.Note("target cut %.1f ms after the removal (%s, %s)", float64(ended.Sub(removedAt))/1e6, what, when)
		}
		if target2 != nil {
			ok := waitFor(2*time.Second, func() bool {
				_, ended, _, _ := target2.snapshot()
				seen := pool.Find(target2.id)
				return !ended.IsZero() && len(seen) == 1 && !seen[0].CtxDoneAt.IsZero()
			})
			if !ok {
				_, ended, _, st := target2.snapshot()
				t.Fatalf("2 s after an update that removed two endpoints the request being proxied to the second of them is still hanging (client ended: %v, status %d)\nplan: %s", !ended.IsZero(), st, plan)
			}
			sub.Class("two-endpoints-removed-by-one-update")
		}
		// ---- health probing of the removed endpoint stops (probe period 20 ms): nothing later than 300 ms after the removal
		probesChecked := false
		defer func() {
			if !probesChecked {
				return
			}
		}()
		checkProbes := func() {
			if d := time.Until(removedAt.Add(330 * time.Millisecond)); d > 0 {
				time.Sleep(d)
			}
			time.Sleep(80 * time.Millisecond)
			removed := []int{0}
			if what != "endpoint" {
				removed = append(removed, third["c1"])
			}
			if what == "cluster" {
				removed = append(removed, 1)
			}
			for _, ri := range removed {
				for _, p := range pool.Upstreams[ri].Probes() {
					if p.After(removedAt.Add(300 * time.Millisecond)) {
						t.Fatalf("the removed endpoint %d still receives health probes (%v after the removal)\nplan: %s", ri, p.Sub(removedAt), plan)
					}
				}
			}
			probesChecked = true
		}
		// ---- new requests
		if what == "cluster" {
			for _, host := range []string{"c1", "c1-alias.example.com", "C1-Alias.Example.com:6443"} {
				for _, p := range []string{"/api/v1/namespaces/default/pods", "/healthz/x"} {
					st, up := quick(g, host, p)
					if st != 503 || up >= 0 {
						t.Fatalf("request for host %s of the deleted cluster answered %d (forwarded to upstream %d), expected 503 and nothing forwarded\nplan: %s", host, st, up, plan)
					}
				}
			}
		} else {
			for k := 0; k < 4; k++ {
				st, up := quick(g, "c1", "/api/v1/namespaces/default/pods")
				if up == 0 || (what != "endpoint" && up == third["c1"]) {
					t.Fatalf("the removed endpoint %d was picked again (status %d)\nplan: %s", up, st, plan)
				}
				if st != 200 || (up != 1 && up != third["c1"]) {
					t.Fatalf("after the removal the remaining endpoints of the cluster do not serve (status %d upstream %d)\nplan: %s", st, up, plan)
				}
			}
		}
		for _, p := range []string{"/api/v1/pods", "/healthz/x"} {
			if st, up := quick(g, "c2", p); st != 200 || up < 2 {
				t.Fatalf("the other cluster is affected: status %d upstream %d\nplan: %s", st, up, plan)
			}
		}
		// ---- bystanders are unaffected
		if len(bystanders) > 0 {
			if d := time.Until(removedAt.Add(300 * time.Millisecond)); d > 0 {
				time.Sleep(d)
			}
			for i, s := range bystanders {
				n, ended, err, _ := s.snapshot()
				if !ended.IsZero() {
					t.Fatalf("bystander %+v ended %v after the removal (err %v)\nplan: %s", bys[i], ended.Sub(removedAt), err, plan)
				}
				if bys[i].streaming && n < byChunksAtRemoval[i]+5 {
					// 30 chunks are due in 300 ms; on a heavily loaded machine fewer may have arrived: a stream that is
					// really stalled makes no progress in two more seconds either
					if i := i; !waitFor(2*time.Second, func() bool { m, _, _, _ := s.snapshot(); return m >= byChunksAtRemoval[i]+5 }) {
						t.Fatalf("bystander stream %+v stalled after the removal (%d chunks at removal, %d 300 ms later, no progress in 2 more seconds)\nplan: %s", bys[i], byChunksAtRemoval[i], n, plan)
					}
				}
			}
			for i, s := range bystanders {
				s.release()
				select {
				case <-s.done:
				case <-time.After(5 * time.Second):
					t.Fatalf("bystander %+v did not finish after being released\nplan: %s", bys[i], plan)
				}
				_, _, err, st := s.snapshot()
				if st != 200 || (err != nil && err.Error() != "EOF") {
					t.Fatalf("bystander %+v finished abnormally: status %d err %v\nplan: %s", bys[i], st, err, plan)
				}
			}
		}
		checkProbes()
		if when != "before" && len(bystanders) > 0 {
			sub.NonTrivial(stats.HashString(plan))
			if sub.WantSample() {
				sub.Sample(plan)
			}
		}
		sub.Class("remove-" + what + "-" + when)
	})
}
