//go:build verif

package c15

import (
	"bufio"
	"fmt"
	"net"
	"net/http"
	"testing"
	"time"

	proxyv1alpha1 "github.com/kubewharf/kubegateway/pkg/apis/proxy/v1alpha1"
	"verifharness/internal/findings"
	"verifharness/internal/gwbox"
	"verifharness/internal/stats"
)

const upgradeFinding = "C15-upgraded-connections-are-not-cut"

// TestKnownUpgradedConnectionNotCut: witness of the finding C15-upgraded-connections-are-not-cut (repaired in the
// repository, a "fixed" entry now: nothing is suppressed, the test is a plain regression check). An upgraded (hijacked)
// connection - exec / attach / port-forward - that is being proxied to a cluster must end when the cluster is deleted.
// The generated search over upgraded connections is TestPropUpgradedConnectionsAreCut.
func TestKnownUpgradedConnectionNotCut(t *testing.T) {
	g := gwbox.NewGateway()
	defer g.Close()
	g.SetToken("client-token", gwbox.Identity{Name: "alice"})
	for i := range pool.Upstreams {
		pool.Upstreams[i].SetHealth(200)
	}
	c1 := clusterObj("c1", 0, 1, true)
	for _, c := range []*proxyv1alpha1.UpstreamCluster{c1} {
		if res, err := g.Box.Apply(c); err != nil || res.RequeueAfter > 0 {
			t.Fatalf("harness: %v %v", err, res)
		}
	}
	if !g.WaitReady("c1", func(string) bool { return true }, 10*time.Second) {
		t.Skip("upstreams did not become ready")
	}
	id := "c15-known-upgrade"
	pool.SetReply(id, &gwbox.Reply{Upgrade: "SPDY/3.1"})
	defer pool.Forget(id)
	conn, err := net.Dial("tcp", g.Addr)
	if err != nil {
		t.Fatalf("harness: %v", err)
	}
	defer conn.Close()
	fmt.Fprintf(conn, "POST /api/v1/namespaces/default/pods/p/exec?command=sh HTTP/1.1\r\nHost: c1\r\nAuthorization: Bearer client-token\r\n%s: %s\r\nConnection: Upgrade\r\nUpgrade: SPDY/3.1\r\n\r\n", gwbox.IDHeader, id)
	br := bufio.NewReader(conn)
	_ = conn.SetReadDeadline(time.Now().Add(10 * time.Second))
	resp, err := http.ReadResponse(br, nil)
	if err != nil || resp.StatusCode != 101 {
		t.Fatalf("harness: the upgrade was not answered 101: %v %v", err, resp)
	}
	b := make([]byte, 1)
	_, _ = conn.Write([]byte{1})
	if _, err := br.Read(b); err != nil {
		t.Fatalf("harness: the upgraded connection does not echo: %v", err)
	}
	if _, err := g.Box.Delete(c1); err != nil {
		t.Fatalf("delete failed: %v", err)
	}
	_ = conn.SetReadDeadline(time.Now().Add(2 * time.Second))
	_, err = br.Read(b)
	if ne, ok := err.(net.Error); !(ok && ne.Timeout()) {
		t.Logf("witness no longer fails: the upgraded connection ended within 2 s of the deletion of its cluster (%v)", err)
		return
	}
	if f, ok := findings.Get(upgradeFinding); ok && f.Status == "open" {
		stats.KnownFinding("C15", "an upgraded connection (exec / attach / port-forward) proxied to cluster c1 is still open 2 s after c1 was deleted (hijacked connections are not tied to the endpoint's context)")
		return
	}
	t.Errorf("an upgraded connection proxied to cluster c1 is still open 2 s after c1 was deleted")
}
