//go:build verif

package c15

import (
	"fmt"
	"os"
	"strconv"
	"testing"
	"time"

	proxyv1alpha1 "github.com/kubewharf/kubegateway/pkg/apis/proxy/v1alpha1"
	"github.com/kubewharf/kubegateway/pkg/clusters"
	"verifharness/internal/gwbox"
	"verifharness/internal/stats"
)

// TestPropHungUpstreamRemoved: the endpoint that is removed is one whose health probes hang (the gateway's probe
// time-out of 5 s is real time, so this is one scenario per run, like C03's probe-time-out).
func TestPropHungUpstreamRemoved(t *testing.T) {
	sub := stats.NewSub("hung-upstream-then-removed", "one scenario per run (first shard; real time, the gateway's probe time-out is 5 s; the probe period is set to one hour so that every probe is one the scenario asked for): a cluster with two endpoints, the second one's /healthz starts to answer 200 and then stalls in the body; probes time out that way one after the other until the gateway has rebuilt the endpoint's transport (from the third failure on, 3-6 probes); then, by VERIF_SEED, the endpoint is removed from the cluster's server list or the whole cluster is deleted while the upstream is still hung; oracle: no health probe reaches the removed endpoint later than 400 ms after the removal, observed for 6 s; non-trivial = the scenario ran")
	if sh, _ := stats.Shard(); sh != 0 {
		t.Skip("runs on the first shard only")
	}
	seed, _ := strconv.Atoi(os.Getenv("VERIF_SEED"))
	deleteCluster := seed%2 == 0
	g := gwbox.NewGateway()
	defer g.Close()
	stable, hung := pool.Upstreams[0], pool.Upstreams[4]
	stable.SetHealth(200)
	hung.SetHealth(200)
	defer hung.SetHealth(200)
	boot := gwbox.ClusterObject("hungc", "gateway-secret-token")
	boot.Spec.Servers = []proxyv1alpha1.UpstreamClusterServer{{Endpoint: "http://127.0.0.1:1"}}
	if _, err := g.Box.Apply(boot); err != nil {
		t.Fatalf("harness: %v", err)
	}
	if ci, ok := g.Box.Controller.Get("hungc"); ok {
		clusters.VerifSetHealthCheckInterval(ci, time.Hour)
	}
	both := gwbox.ClusterObject("hungc", "gateway-secret-token", stable, hung)
	if _, err := g.Box.Apply(both); err != nil {
		t.Fatalf("harness: %v", err)
	}
	if !g.WaitReady("hungc", func(string) bool { return true }, 10*time.Second) {
		sub.Inconclusive()
		t.Skip("endpoints did not become ready")
	}
	ci, _ := g.Box.Controller.Get("hungc")
	info, ok := ci.Endpoints.Load(hung.URL)
	if !ok {
		t.Fatalf("harness: endpoint missing")
	}
	sub.Eval()
	time.Sleep(300 * time.Millisecond) // probes asked for by WaitReady have been answered
	hung.SetHealth(-2)
	base := len(hung.Probes())
	waitProbe := func(k int, d time.Duration) bool {
		deadline := time.Now().Add(d)
		for time.Now().Before(deadline) {
			if len(hung.Probes()) >= base+k {
				return true
			}
			time.Sleep(20 * time.Millisecond)
		}
		return false
	}
	origTransport := info.ProxyTransport
	last := 0
	rebuilt := false
	for k := 1; k <= 6 && !rebuilt; k++ {
		info.TriggerHealthCheck() // queued behind the probe in flight, if any
		if !waitProbe(k, 8*time.Second) {
			sub.Inconclusive()
			t.Skipf("probe %d did not reach the hung upstream in time", k)
		}
		last = k
		if k >= 3 {
			// from the third failure on, a probe that fails with the 'while reading body' text makes the gateway rebuild
			// the endpoint's transport (whether net/http adds that text to a time-out is a race of its own)
			time.Sleep(time.Until(hung.Probes()[base+k-1].Add(5300 * time.Millisecond)))
			rebuilt = info.ProxyTransport != origTransport
		}
	}
	if !rebuilt {
		sub.Inconclusive()
		t.Skipf("six probes timed out and the transport was not rebuilt")
	}
	time.Sleep(time.Until(hung.Probes()[base+last-1].Add(5600 * time.Millisecond)))
	if info.IsReady() {
		t.Fatalf("harness: the endpoint whose probes time out is still ready")
	}
	sub.Note("before the removal: %d consecutive failed probes, %s", info.GetUnhealthyCount(), info.UnreadyReason())
	what := "the endpoint was removed from the server list"
	if deleteCluster {
		what = "the cluster was deleted"
		if _, err := g.Box.Delete(both); err != nil {
			t.Fatalf("harness: %v", err)
		}
	} else if _, err := g.Box.Apply(gwbox.ClusterObject("hungc", "gateway-secret-token", stable)); err != nil {
		t.Fatalf("harness: %v", err)
	}
	removedAt := time.Now()
	time.Sleep(6 * time.Second)
	for _, p := range hung.Probes() {
		if p.After(removedAt.Add(400 * time.Millisecond)) {
			t.Fatalf("%s while its upstream hangs (its probes timed out reading the body, the transport was rebuilt): the endpoint still receives a health probe %.1f s after the removal", what, p.Sub(removedAt).Seconds())
		}
	}
	sub.NonTrivial(stats.HashString(what))
	sub.Class(map[bool]string{true: "cluster-deleted-while-the-upstream-hangs", false: "endpoint-removed-while-the-upstream-hangs"}[deleteCluster])
	var at []string
	for _, p := range hung.Probes()[base:] {
		at = append(at, fmt.Sprintf("%.1f", p.Sub(removedAt).Seconds()))
	}
	sub.Note("%s; probes reached the hung upstream at %v s relative to the removal", what, at)
	t.Logf("%s; probes reached the hung upstream at %v s relative to the removal", what, at)
}
