//go:build verif

package c15

import (
	"bufio"
	"fmt"
	"net"
	"net/http"
	"testing"
	"time"

	"pgregory.net/rapid"

	"verifharness/internal/gwbox"
	"verifharness/internal/stats"
)

// upconn is one upgraded (hijacked) connection through the gateway; the stub echoes every byte XOR 0x5a.
type upconn struct {
	host, path string
	endpoint   int // index of the upstream that serves it
	cut        bool
	conn       net.Conn
	br         *bufio.Reader
	id         string
}

func (u *upconn) String() string {
	return fmt.Sprintf("%s%s->upstream %d (expected cut: %v)", u.host, u.path, u.endpoint, u.cut)
}

// echo writes one byte and reads its echo within d.
func (u *upconn) echo(b byte, d time.Duration) error {
	_ = u.conn.SetDeadline(time.Now().Add(d))
	if _, err := u.conn.Write([]byte{b}); err != nil {
		return err
	}
	got, err := u.br.ReadByte()
	if err != nil {
		return err
	}
	if got != b^0x5a {
		return fmt.Errorf("echo of %#x is %#x", b, got)
	}
	return nil
}

func openUpgrade(g *gwbox.Gateway, host, path, id string) (*upconn, error) {
	conn, err := net.Dial("tcp", g.Addr)
	if err != nil {
		return nil, err
	}
	fmt.Fprintf(conn, "POST %s HTTP/1.1\r\nHost: %s\r\nAuthorization: Bearer client-token\r\n%s: %s\r\nConnection: Upgrade\r\nUpgrade: SPDY/3.1\r\n\r\n", path, host, gwbox.IDHeader, id)
	br := bufio.NewReader(conn)
	_ = conn.SetReadDeadline(time.Now().Add(10 * time.Second))
	resp, err := http.ReadResponse(br, nil)
	if err != nil {
		conn.Close()
		return nil, err
	}
	if resp.StatusCode != 101 {
		conn.Close()
		return nil, fmt.Errorf("status %d", resp.StatusCode)
	}
	return &upconn{host: host, path: path, conn: conn, br: br, id: id}, nil
}

// TestPropUpgradedConnectionsAreCut: the in-flight requests are upgraded connections (exec / attach / port-forward).
// Regression search for the repaired finding C15-upgraded-connections-are-not-cut, and its converse: an upgraded
// connection whose endpoint stays is not disturbed by the removal of another one.
func TestPropUpgradedConnectionsAreCut(t *testing.T) {
	sub := stats.NewSub("upgraded-connections", "rapid: clusters c1 (three endpoints, one per policy) and c2; 1-4 upgraded connections (a watch over a websocket, exec, port-forward: answered 101, then 0-3 echoed bytes each) on the first endpoint of c1, on the second endpoint of c1 and on c2, at least one on the first endpoint of c1; then c1 is deleted, or its first endpoint is removed by an update, or its first and third endpoints are removed in one update; oracle: every connection whose endpoint was removed ends at the client (EOF or reset, not a read time-out) within 2 s of the removal and the stub sees its side closed; every connection whose endpoint stays still echoes 300 ms after the removal and 2 more exchanges later; non-trivial = at least one cut and one surviving connection; distinct by FNV-64 of the plan")
	stats.Check(t, stats.N(25, 200), func(t *rapid.T) {
		what := rapid.SampledFrom([]string{"cluster", "endpoint", "two-endpoints"}).Draw(t, "removed")
		type place struct {
			host, path string
			endpoint   int
		}
		// the "pods" policy of the test clusters matches the resource without a subresource: a watch over a websocket
		// goes to the first endpoint, exec / attach / port-forward (subresources) go with the rest to the second one
		places := []place{
			{"c1", "/api/v1/namespaces/default/pods?watch=true", 0},
			{"c1", "/api/v1/pods?watch=true&resourceVersion=5", 0},
			{"c1-alias.example.com", "/api/v1/namespaces/default/pods/p", 0},
			{"c1", "/api/v1/namespaces/default/pods/p/exec?command=sh", 1},
			{"c1", "/api/v1/namespaces/default/pods/p/portforward", 1},
			{"c1", "/api/v1/nodes?watch=true", 4},
			{"c2", "/api/v1/namespaces/default/pods?watch=true", 2},
			{"c2", "/api/v1/namespaces/default/pods/p/exec?command=sh", 3},
		}
		n := rapid.IntRange(1, 4).Draw(t, "connections")
		chosen := []place{places[rapid.IntRange(0, 2).Draw(t, "target")]}
		for i := 1; i < n; i++ {
			chosen = append(chosen, places[rapid.IntRange(0, len(places)-1).Draw(t, fmt.Sprintf("place[%d]", i))])
		}
		exchanges := make([]int, n)
		for i := range exchanges {
			exchanges[i] = rapid.IntRange(0, 3).Draw(t, fmt.Sprintf("exchanges[%d]", i))
		}
		removedEP := func(p place) bool {
			if p.host == "c2" {
				return false
			}
			switch what {
			case "cluster":
				return true
			case "endpoint":
				return p.endpoint == 0
			default:
				return p.endpoint == 0 || p.endpoint == 4
			}
		}
		plan := fmt.Sprintf("removed=%s connections=%v exchanges before the removal=%v", what, chosen, exchanges)

		g := gwbox.NewGateway()
		defer g.Close()
		g.SetToken("client-token", gwbox.Identity{Name: "alice"})
		for i := range pool.Upstreams {
			pool.Upstreams[i].SetHealth(200)
		}
		c1, c2 := clusterObj("c1", 0, 1, true), clusterObj("c2", 2, 3, true)
		if res, err := g.Box.Apply(c1); err != nil || res.RequeueAfter > 0 {
			t.Fatalf("harness: %v %v", err, res)
		}
		if res, err := g.Box.Apply(c2); err != nil || res.RequeueAfter > 0 {
			t.Fatalf("harness: %v %v", err, res)
		}
		if !g.WaitReady("c1", func(string) bool { return true }, 10*time.Second) || !g.WaitReady("c2", func(string) bool { return true }, 10*time.Second) {
			sub.Inconclusive()
			t.Skip("upstreams did not become ready")
		}
		var conns []*upconn
		defer func() {
			for _, u := range conns {
				u.conn.Close()
				pool.Forget(u.id)
			}
		}()
		for i, p := range chosen {
			id := fmt.Sprintf("c15-up-%d-%d", time.Now().UnixNano(), i)
			pool.SetReply(id, &gwbox.Reply{Upgrade: "SPDY/3.1"})
			u, err := openUpgrade(g, p.host, p.path, id)
			if err != nil {
				pool.Forget(id)
				t.Fatalf("harness: upgrade %v was not answered 101: %v\nplan: %s", p, err, plan)
			}
			u.endpoint, u.cut = p.endpoint, removedEP(p)
			conns = append(conns, u)
			for j := 0; j < exchanges[i]; j++ {
				if err := u.echo(byte(16*i+j+1), 5*time.Second); err != nil {
					t.Fatalf("harness: upgraded connection %v does not echo before the removal: %v\nplan: %s", u, err, plan)
				}
			}
			seen := pool.Find(id)
			if len(seen) != 1 || seen[0].Upstream != p.endpoint {
				t.Fatalf("harness: upgraded connection %v was served by %d upstream(s), first %+v\nplan: %s", u, len(seen), firstSeen(seen), plan)
			}
		}
		sub.Eval()

		switch what {
		case "cluster":
			if _, err := g.Box.Delete(c1); err != nil {
				t.Fatalf("delete failed: %v", err)
			}
		case "endpoint":
			if res, err := g.Box.Apply(clusterObj3("c1", 1, 0, false, true)); err != nil || res.RequeueAfter > 0 {
				t.Fatalf("endpoint removal failed: %v %v", err, res)
			}
		default:
			if res, err := g.Box.Apply(clusterObj3("c1", 1, 0, false, false)); err != nil || res.RequeueAfter > 0 {
				t.Fatalf("endpoint removal failed: %v %v", err, res)
			}
		}
		removedAt := time.Now()

		ncut, nkept := 0, 0
		for _, u := range conns {
			if !u.cut {
				continue
			}
			ncut++
			_ = u.conn.SetReadDeadline(removedAt.Add(2 * time.Second))
			_, err := u.br.ReadByte()
			if err == nil {
				t.Fatalf("upgraded connection %v delivered a byte nobody sent after the removal\nplan: %s", u, plan)
			}
			if ne, ok := err.(net.Error); ok && ne.Timeout() {
				t.Fatalf("upgraded connection %v is still open 2 s after its endpoint was removed (%s)\nplan: %s", u, what, plan)
			}
			sub.Note("upgraded connection cut %.1f ms after the removal (%s)", float64(time.Since(removedAt))/1e6, what)
		}
		if d := 300*time.Millisecond - time.Since(removedAt); d > 0 {
			time.Sleep(d)
		}
		for i, u := range conns {
			if u.cut {
				continue
			}
			nkept++
			for j := 0; j < 2; j++ {
				if err := u.echo(byte(0x80+16*i+j), 5*time.Second); err != nil {
					t.Fatalf("upgraded connection %v, whose endpoint stays, no longer echoes %v after the removal of %s: %v\nplan: %s", u, time.Since(removedAt), what, err, plan)
				}
			}
		}
		// the stub saw the cut connections end
		for _, u := range conns {
			if !u.cut {
				continue
			}
			id := u.id
			if !waitFor(2*time.Second, func() bool {
				seen := pool.Find(id)
				return len(seen) == 1 && !seen[0].CtxDoneAt.IsZero()
			}) {
				t.Fatalf("the upstream side of the cut upgraded connection %v is still open 2 s after the client side ended\nplan: %s", u, plan)
			}
		}
		sub.Class("removed-" + what)
		if ncut >= 1 && nkept >= 1 {
			sub.NonTrivial(stats.HashString(plan))
			sub.Class("cut-and-kept")
			if sub.WantSample() {
				sub.Sample(plan)
			}
		}
	})
}

func firstSeen(seen []*gwbox.Seen) string {
	if len(seen) == 0 {
		return "none"
	}
	return fmt.Sprintf("upstream %d %s %s", seen[0].Upstream, seen[0].Method, seen[0].Path)
}
