//go:build verif

package c15

import (
	"fmt"
	"testing"
	"time"

	"pgregory.net/rapid"

	proxyv1alpha1 "github.com/kubewharf/kubegateway/pkg/apis/proxy/v1alpha1"
	"verifharness/internal/gwbox"
	"verifharness/internal/stats"
)

// TestPropRemovedWhileAuthenticating: the removal falls between the moment the gateway resolved the request's cluster
// and the moment the request is dispatched: the request waits in the authenticator (a slow token review) meanwhile.
func TestPropRemovedWhileAuthenticating(t *testing.T) {
	sub := stats.NewSub("removed-while-authenticating", "rapid: a target request (a stream or a held request, by cluster name or alias) for the 'pods' policy of cluster c1 is held inside the authenticator (what a slow token-review webhook does), i.e. after the gateway resolved its cluster and before it is dispatched; meanwhile cluster c1 is deleted, or the endpoint of that policy is removed, or it is removed and the policy re-pointed to another endpoint; 0-150 ms later the authenticator answers; 0-2 bystanders on cluster c2; oracle: 2 s after the authenticator answered no stub of a removed endpoint / cluster is still serving the request (its context is dead or it never arrived); a request for the deleted cluster has ended at the client - with a gateway error, or cut after the upstream's answer had begun (never a complete answer); a request that is being served by an endpoint that is still in the cluster finishes normally when released; bystanders are unaffected; non-trivial = all; distinct by FNV-64 of the plan")
	stats.Check(t, stats.N(12, 100), func(t *rapid.T) {
		what := rapid.SampledFrom([]string{"cluster", "cluster", "endpoint", "endpoint and policy re-pointed"}).Draw(t, "remove")
		streaming := rapid.Bool().Draw(t, "streaming")
		targetHost := rapid.SampledFrom([]string{"c1", "c1-alias.example.com"}).Draw(t, "targetHost")
		delay := time.Duration(rapid.IntRange(0, 150).Draw(t, "authnAnswersAfterMS")) * time.Millisecond
		nBy := rapid.IntRange(0, 2).Draw(t, "bystanders")
		plan := fmt.Sprintf("remove %s while the target (%s, streaming=%v) is authenticating; authenticator answers %v later; %d bystanders", what, targetHost, streaming, delay, nBy)
		g := gwbox.NewGateway()
		defer g.Close()
		g.SetToken("client-token", gwbox.Identity{Name: "alice"})
		for i := range pool.Upstreams {
			pool.Upstreams[i].SetHealth(200)
		}
		c1, c2 := clusterObj("c1", 0, 1, true), clusterObj("c2", 2, 3, true)
		for _, c := range []*proxyv1alpha1.UpstreamCluster{c1, c2} {
			if res, err := g.Box.Apply(c); err != nil || res.RequeueAfter > 0 {
				t.Fatalf("harness: %v %v", err, res)
			}
		}
		if !g.WaitReady("c1", func(string) bool { return true }, 10*time.Second) || !g.WaitReady("c2", func(string) bool { return true }, 10*time.Second) {
			sub.Inconclusive()
			t.Skip("upstreams did not become ready")
		}
		sub.Eval()
		var streams []*stream
		defer func() {
			for _, s := range streams {
				s.release()
			}
			for _, s := range streams {
				<-s.done
				pool.Forget(s.id)
			}
		}()
		var bystanders []*stream
		for i := 0; i < nBy; i++ {
			s := startStream(g, "c2", []string{"/api/v1/pods", "/healthz/x"}[i%2], true)
			streams = append(streams, s)
			bystanders = append(bystanders, s)
		}
		for _, s := range bystanders {
			select {
			case <-pool.Started(s.id):
			case <-time.After(10 * time.Second):
				sub.Inconclusive()
				t.Skip("a bystander never reached its stub upstream")
			}
		}
		// the target: held in the authenticator
		id := fmt.Sprintf("c15-%d", seq+1) // the id startStream is going to use
		parked, release := g.ParkInAuthn(id)
		defer release()
		target := startStream(g, targetHost, "/api/v1/namespaces/default/pods", streaming)
		streams = append(streams, target)
		if target.id != id {
			t.Fatalf("harness: request id %s, expected %s", target.id, id)
		}
		select {
		case <-parked:
		case <-time.After(10 * time.Second):
			sub.Inconclusive()
			t.Skip("the target never reached the authenticator")
		}
		// ---- the removal, while the request waits for the authenticator
		removed := []int{0}
		switch what {
		case "cluster":
			if _, err := g.Box.Delete(c1); err != nil {
				t.Fatalf("delete failed: %v", err)
			}
			removed = []int{0, 1, third["c1"]}
		case "endpoint":
			// endpoint 0 goes; the 'pods' policy keeps pointing at it (nothing eligible is left for the target)
			n := clusterObj("c1", 0, 1, true)
			n.Spec.Servers = n.Spec.Servers[1:]
			if res, err := g.Box.Apply(n); err != nil || res.RequeueAfter > 0 {
				t.Fatalf("endpoint removal failed: %v %v", err, res)
			}
		default:
			// endpoint 0 goes and the 'pods' policy now points at endpoint 1
			if res, err := g.Box.Apply(clusterObj3("c1", 1, 0, false, true)); err != nil || res.RequeueAfter > 0 {
				t.Fatalf("endpoint removal failed: %v %v", err, res)
			}
		}
		byChunks := make([]int, len(bystanders))
		for i, s := range bystanders {
			byChunks[i], _, _, _ = s.snapshot()
		}
		time.Sleep(delay)
		release()
		releasedAt := time.Now()
		// ---- 2 s later nothing of the removed part serves the request
		isRemoved := func(up int) bool {
			for _, r := range removed {
				if r == up {
					return true
				}
			}
			return false
		}
		settled := func() bool {
			_, ended, _, _ := target.snapshot()
			for _, s := range pool.Find(target.id) {
				if isRemoved(s.Upstream) && s.CtxDoneAt.IsZero() && s.FinishedAt.IsZero() {
					return false // a stub of the removed part is still serving it
				}
			}
			if !ended.IsZero() {
				return true
			}
			// still running at the client: fine only if an endpoint that is still in the cluster serves it
			for _, s := range pool.Find(target.id) {
				if !isRemoved(s.Upstream) {
					return true
				}
			}
			return false
		}
		ok := waitFor(2*time.Second, settled)
		time.Sleep(20 * time.Millisecond)
		ok = ok && settled()
		_, ended, endErr, st := target.snapshot()
		seen := pool.Find(target.id)
		var where []string
		for _, s := range seen {
			where = append(where, fmt.Sprintf("upstream %d (context dead: %v)", s.Upstream, !s.CtxDoneAt.IsZero()))
		}
		if !ok {
			t.Fatalf("%.1f s after the authenticator answered, the request that was authenticating while the %s was removed is still being proxied to what was removed (client ended: %v, status %d; seen by %v)\nplan: %s", time.Since(releasedAt).Seconds(), what, !ended.IsZero(), st, where, plan)
		}
		if what == "cluster" {
			if ended.IsZero() {
				t.Fatalf("the request for the deleted cluster is still running 2 s after the authenticator answered (status %d, seen by %v)\nplan: %s", st, where, plan)
			}
			if st >= 200 && st < 300 {
				// the proxied request may reach the stub before the cancellation does: the upstream's own status and
				// the beginning of its answer are relayed, then the request is cut. That is "cancelled promptly"; an
				// answer that is COMPLETE although its cluster was deleted before it was dispatched is not
				cut := false
				for _, s := range seen {
					if !s.CtxDoneAt.IsZero() {
						cut = true
					}
				}
				if !cut {
					t.Fatalf("the request for the deleted cluster was answered %d and ran to completion (seen by %v, err %v), expected a gateway error or a cut request\nplan: %s", st, where, endErr, plan)
				}
				sub.Class("deleted-cluster-upstream-answer-begun-then-cut")
			}
		}
		if ended.IsZero() {
			// served by an endpoint that is still there: it finishes normally
			target.release()
			select {
			case <-target.done:
			case <-time.After(5 * time.Second):
				t.Fatalf("the target, served by a remaining endpoint (%v), did not finish after being released\nplan: %s", where, plan)
			}
			if _, _, err, st := target.snapshot(); st != 200 || (err != nil && err.Error() != "EOF") {
				t.Fatalf("the target, served by a remaining endpoint (%v), finished abnormally: status %d err %v\nplan: %s", where, st, err, plan)
			}
			sub.Class("served-by-remaining-endpoint")
		} else {
			sub.Class(fmt.Sprintf("ended-with-%d", st))
		}
		// ---- bystanders are unaffected
		if len(bystanders) > 0 {
			time.Sleep(100 * time.Millisecond)
		}
		for i, s := range bystanders {
			n, bended, err, _ := s.snapshot()
			if !bended.IsZero() {
				t.Fatalf("bystander %d on cluster c2 ended (err %v)\nplan: %s", i, err, plan)
			}
			if n < byChunks[i]+3 && !waitFor(2*time.Second, func() bool { m, _, _, _ := s.snapshot(); return m >= byChunks[i]+3 }) {
				t.Fatalf("bystander stream %d on cluster c2 stalled (%d chunks at removal, %d later, no progress in 2 more seconds)\nplan: %s", i, byChunks[i], n, plan)
			}
			s.release()
			select {
			case <-s.done:
			case <-time.After(5 * time.Second):
				t.Fatalf("bystander %d did not finish after being released\nplan: %s", i, plan)
			}
			if _, _, err, st := s.snapshot(); st != 200 || (err != nil && err.Error() != "EOF") {
				t.Fatalf("bystander %d finished abnormally: status %d err %v\nplan: %s", i, st, err, plan)
			}
		}
		sub.NonTrivial(stats.HashString(plan))
		sub.Class("remove-" + what)
		if sub.WantSample() {
			sub.Sample(plan)
		}
	})
}
