//go:build verif

// C09 — the gateway never exceeds the global limit; falls back to the local limit on failure.
package c09

import (
	"context"
	"encoding/json"
	"fmt"
	"math"
	"net/http"
	"net/http/httptest"
	"runtime"
	"strconv"
	"strings"
	"sync"
	"sync/atomic"
	"testing"
	"time"

	k8sruntime "k8s.io/apimachinery/pkg/runtime"
	clienttesting "k8s.io/client-go/testing"
	"pgregory.net/rapid"

	proxyv1alpha1 "github.com/kubewharf/kubegateway/pkg/apis/proxy/v1alpha1"
	gatewayclientset "github.com/kubewharf/kubegateway/pkg/client/kubernetes"
	gatewayfake "github.com/kubewharf/kubegateway/pkg/client/kubernetes/fake"
	"github.com/kubewharf/kubegateway/pkg/flowcontrols"
	"github.com/kubewharf/kubegateway/pkg/flowcontrols/flowcontrol"
	"github.com/kubewharf/kubegateway/pkg/flowcontrols/remote"
	"github.com/kubewharf/kubegateway/pkg/ratelimiter/clientsets"
	"k8s.io/client-go/rest"
	"verifharness/internal/findings"
	"verifharness/internal/stats"
)

const overlapFinding = "C09-local-and-remote-counters-overlap"

func TestMain(m *testing.M) {
	stats.Property("C09")
	stats.Assume(
		"the limiter server is a scripted stub: a ClientSets implementation whose readiness and client availability are set by the history, and a fake gateway clientset whose update-status reactor answers the allocate call with the scripted quota / burst / error; replies keep the schema's type (arbitrary int32 numbers, not arbitrary types)",
		"the remote path is selected and driven synchronously through the verif hooks (VerifSetLimiterType, VerifReconcileOnce, SetLimit with VerifNewAcquireResult); the 2 s reconcile loop, the 900 ms counter worker and real heartbeats are not run",
		"requests use the dispatcher's path: fc := GetOrDefault(name); fc.TryAcquire(); later fc.Release() on the same object",
		"token-bucket bounds use timestamps that bracket the window (can only loosen the bound)",
		"Go runtime, pgregory.net/rapid v1.3.0",
	)
	remote.VerifSetWaitAcquireTimeout(time.Millisecond)
	stats.Main(m)
}

type stubCS struct {
	ready      bool
	clientFail bool
	workerFail bool // only the case's goroutine gets a client (the background counter worker finds no server)
	client     gatewayclientset.Interface
	owner      uint64 // goroutine of the case: only it sees the scripted readiness
}

// goid returns the id of the calling goroutine (parsed from the stack header; harness use only).
func goid() uint64 {
	var buf [64]byte
	n := runtime.Stack(buf[:], false)
	f := strings.Fields(string(buf[:n]))
	if len(f) < 2 {
		return 0
	}
	id, _ := strconv.ParseUint(f[1], 10, 64)
	return id
}

func (s *stubCS) GetAllClients() []gatewayclientset.Interface { return nil }
func (s *stubCS) ClientFor(cluster string) (gatewayclientset.Interface, error) {
	if s.clientFail || (s.workerFail && goid() != s.owner) {
		return nil, fmt.Errorf("server shard 0 has no leader")
	}
	return s.client, nil
}
func (s *stubCS) ShardIDFor(cluster string) (int, error) { return 0, nil }

// IsReady: the limiter's own background loop (waitForReady, then a reconcile every 2 s) never sees the server as ready,
// so that every reconcile round of a case is one the history scheduled (VerifReconcileOnce); otherwise a background
// round could run concurrently with a scheduled one - two concurrent callers of remoteWrapper.Sync do not exist in
// the gateway - and the case would depend on timing.
func (s *stubCS) IsReady(cluster string) bool { return s.ready && goid() == s.owner }
func (s *stubCS) ClientID() string            { return "gw-1" }

type reply struct {
	Err   bool
	Quota int32
	Burst int32
}

type server struct {
	cs    *stubCS
	next  reply
	calls int
	// answers to the acquire calls of the background counter worker (used by the missing-replies sub-check only)
	acqMode   int32 // acqGrant / acqSilent / acqFail
	acqQuota  int32
	acqCalls  int32
	acqTokens int64 // tokens granted in mode acqGrantAsked
}

const (
	acqGrant      = iota // every asked flow control is accepted with acqQuota
	acqSilent            // the server answers, but without a result for the flow control (a missing reply)
	acqFail              // the call fails
	acqGrantAsked        // every asked flow control is accepted with the number of tokens it asked for (token bucket)
)

func newServer(tb bool) *server {
	s := &server{cs: &stubCS{owner: goid()}}
	fc := gatewayfake.NewSimpleClientset()
	fc.PrependReactor("update", "ratelimitconditions", func(action clienttesting.Action) (bool, k8sruntime.Object, error) {
		ua, ok := action.(clienttesting.UpdateAction)
		if !ok || action.GetSubresource() != "status" {
			return false, nil, nil
		}
		s.calls++
		if s.next.Err {
			return true, &proxyv1alpha1.RateLimitCondition{}, fmt.Errorf("limit store for upstream c1 upstream shard 0 not found")
		}
		in := ua.GetObject().(*proxyv1alpha1.RateLimitCondition).DeepCopy()
		for i := range in.Spec.LimitItemConfigurations {
			it := &in.Spec.LimitItemConfigurations[i]
			if tb {
				it.TokenBucket = &proxyv1alpha1.TokenBucketFlowControlSchema{QPS: s.next.Quota, Burst: s.next.Burst}
				it.MaxRequestsInflight = nil
			} else {
				it.MaxRequestsInflight = &proxyv1alpha1.MaxRequestsInflightFlowControlSchema{Max: s.next.Quota}
				it.TokenBucket = nil
			}
		}
		return true, in, nil
	})
	fc.PrependReactor("create", "ratelimitconditions", func(action clienttesting.Action) (bool, k8sruntime.Object, error) {
		if action.GetSubresource() != "acquire" {
			return false, nil, nil
		}
		atomic.AddInt32(&s.acqCalls, 1)
		req := action.(clienttesting.CreateAction).GetObject().(*proxyv1alpha1.RateLimitAcquire)
		ans := req.DeepCopy()
		ans.Status.Results = nil
		switch atomic.LoadInt32(&s.acqMode) {
		case acqFail:
			return true, nil, fmt.Errorf("limiter server unreachable")
		case acqGrant:
			for _, r := range req.Spec.Requests {
				ans.Status.Results = append(ans.Status.Results, proxyv1alpha1.RateLimitAcquireResult{FlowControl: r.FlowControl, Accept: true, Limit: atomic.LoadInt32(&s.acqQuota)})
			}
		case acqGrantAsked:
			for _, r := range req.Spec.Requests {
				ans.Status.Results = append(ans.Status.Results, proxyv1alpha1.RateLimitAcquireResult{FlowControl: r.FlowControl, Accept: true, Limit: r.Tokens})
				atomic.AddInt64(&s.acqTokens, int64(r.Tokens))
			}
		}
		return true, ans, nil
	})
	s.cs.client = fc
	return s
}

var hostile = []int32{0, 1, -1, -5, math.MinInt32, math.MaxInt32}

func genQuota(t *rapid.T, label string, g int32) int32 {
	switch rapid.IntRange(0, 3).Draw(t, label+".class") {
	case 0:
		return rapid.SampledFrom(hostile).Draw(t, label)
	case 1:
		return g + int32(rapid.IntRange(0, 3).Draw(t, label+".over"))
	default:
		return int32(rapid.IntRange(1, int(g)).Draw(t, label))
	}
}

type handle struct {
	fc     flowcontrol.FlowControl
	remote bool
}

func schemaMIF(strategy proxyv1alpha1.LimitStrategy, l, g int32) proxyv1alpha1.FlowControl {
	return proxyv1alpha1.FlowControl{Schemas: []proxyv1alpha1.FlowControlSchema{{Name: "s", Strategy: strategy, FlowControlSchemaConfiguration: proxyv1alpha1.FlowControlSchemaConfiguration{
		MaxRequestsInflight:       &proxyv1alpha1.MaxRequestsInflightFlowControlSchema{Max: l},
		GlobalMaxRequestsInflight: &proxyv1alpha1.MaxRequestsInflightFlowControlSchema{Max: g}}}}}
}

func schemaTB(strategy proxyv1alpha1.LimitStrategy, lq, lb, gq, gb int32) proxyv1alpha1.FlowControl {
	return proxyv1alpha1.FlowControl{Schemas: []proxyv1alpha1.FlowControlSchema{{Name: "s", Strategy: strategy, FlowControlSchemaConfiguration: proxyv1alpha1.FlowControlSchemaConfiguration{
		TokenBucket:       &proxyv1alpha1.TokenBucketFlowControlSchema{QPS: lq, Burst: lb},
		GlobalTokenBucket: &proxyv1alpha1.TokenBucketFlowControlSchema{QPS: gq, Burst: gb}}}}}
}

// isRemote tells which limiter a request was admitted by.
func isRemote(ul flowcontrols.UpstreamLimiter, fc flowcontrol.FlowControl) bool {
	cache := ul.AllFlowControls()["s"]
	if cache == nil {
		return false
	}
	return fc != flowcontrol.FlowControl(cache.LocalFlowControl())
}

// TestPropAllocateMaxInflight: global-allocate, max-in-flight.
func TestPropAllocateMaxInflight(t *testing.T) {
	sub := stats.NewSub("allocate-max-in-flight", "rapid state machine on the real UpstreamLimiter in remote mode (global-allocate, max-in-flight, local L <= global G <= 10) with a scripted limiter server: ops readiness up/down, client unavailable, schema update (new local/global limits; the new global limit is demanded from the next applied answer on, also if the server repeats its previous quota), reconcile with reply quota in {0,1,-1,-5,MinInt32,MaxInt32, G..G+3, 1..G} or an error, acquire, release, drain+probe; oracle: admitted-and-unreleased <= G at every admission (G+L for histories matching the listed open finding: requests admitted by the local and by the remote limiter in flight together); while the server is unknown / not ready / has never answered exactly L requests are admitted from empty; after a reply Q in [1,G] exactly Q, after Q > G at most G, after Q <= 0 at most G; non-trivial = history has a hostile quota (<=0 or >G) or a readiness flip with requests in flight; distinct by FNV-64 of the op trace")
	known := findings.Open(overlapFinding)
	stats.Check(t, stats.N(6000, 40000), func(t *rapid.T) {
		l := int32(rapid.IntRange(1, 5).Draw(t, "L"))
		g := l + int32(rapid.IntRange(0, 5).Draw(t, "Gextra"))
		srv := newServer(false)
		ctx, cancel := context.WithCancel(context.Background())
		defer cancel()
		ul := flowcontrols.NewUpstreamLimiter(ctx, "c1", "", srv.cs)
		defer ul.Sync(proxyv1alpha1.FlowControl{})
		flowcontrols.VerifSetLimiterType(ul, flowcontrol.RemoteFlowControls)
		ul.Sync(schemaMIF(proxyv1alpha1.GlobalAllocateLimit, l, g))
		var handles []handle
		trace := fmt.Sprintf("L=%d G=%d;", l, g)
		nt := false
		synced := false      // the remote wrapper exists (a reply was applied at least once)
		pendingG := int32(0) // global limit of a schema update that no applied answer has followed yet
		lastQ := int32(0)    // last applied quota
		sub.Eval()
		count := func() (loc, rem int) {
			for _, h := range handles {
				if h.remote {
					rem++
				} else {
					loc++
				}
			}
			return
		}
		expectRemote := func() bool { return srv.cs.ready && synced }
		acquire := func(t *rapid.T) bool {
			fc := ul.GetOrDefault("s")
			r := isRemote(ul, fc)
			ok := fc.TryAcquire()
			trace += fmt.Sprintf("acq=%v(%s);", ok, map[bool]string{true: "remote", false: "local"}[r])
			if r != expectRemote() {
				t.Fatalf("request handled by the %s limiter, expected %s (ready=%v, a reply was applied=%v)\ntrace: %s",
					map[bool]string{true: "remote", false: "local"}[r], map[bool]string{true: "remote", false: "local"}[expectRemote()], srv.cs.ready, synced, trace)
			}
			if ok {
				handles = append(handles, handle{fc, r})
				loc, rem := count()
				bound := int(g)
				if loc > 0 && rem > 0 {
					if known {
						bound = int(g + l)
						sub.ExcludedByKnownFinding()
					}
				}
				if loc+rem > bound {
					t.Fatalf("%d requests in flight (%d admitted by the local limiter, %d by the remote one) exceed the global limit %d\ntrace: %s", loc+rem, loc, rem, g, trace)
				}
				if !r && loc > int(l) {
					t.Fatalf("%d requests admitted by the local limiter exceed the local limit %d\ntrace: %s", loc, l, trace)
				}
			}
			return ok
		}
		t.Repeat(map[string]func(*rapid.T){
			"ready": func(t *rapid.T) {
				v := rapid.Bool().Draw(t, "ready")
				if v != srv.cs.ready && len(handles) > 0 {
					nt = true
					sub.Class("readiness-flip-with-requests-in-flight")
				}
				srv.cs.ready = v
				trace += fmt.Sprintf("ready=%v;", v)
			},
			"clientFail": func(t *rapid.T) {
				srv.cs.clientFail = rapid.Bool().Draw(t, "fail")
				trace += fmt.Sprintf("clientFail=%v;", srv.cs.clientFail)
			},
			"reconcile": func(t *rapid.T) {
				srv.next = reply{Err: rapid.IntRange(0, 5).Draw(t, "err") == 0, Quota: genQuota(t, "quota", g)}
				before := srv.calls
				remote.VerifReconcileOnce(flowcontrols.VerifReconcile(ul))
				applied := srv.calls > before && !srv.next.Err
				trace += fmt.Sprintf("reconcile(q=%d,err=%v,applied=%v);", srv.next.Quota, srv.next.Err, applied)
				if applied {
					if pendingG > 0 {
						// the answer (also a repeated one) must now be clamped to the new global limit; requests admitted
						// under the previous configuration are drained so that the ledger is judged against one limit
						for _, h := range handles {
							h.fc.Release()
						}
						handles = nil
						g = pendingG
						pendingG = 0
					}
					synced = true
					lastQ = srv.next.Quota
					if lastQ <= 0 || lastQ > g {
						nt = true
						sub.Class("hostile-quota")
					}
				}
			},
			"acquire": func(t *rapid.T) { acquire(t) },
			"schemaUpdate": func(t *rapid.T) {
				// the configured limits change (a new object, as the controller delivers it); the remote limiter is re-clamped
				// by the next applied answer, so the new global limit is only demanded from then on; requests admitted
				// before the update are drained first so that the ledger is judged against one configuration
				for _, h := range handles {
					h.fc.Release()
				}
				handles = nil
				nl := int32(rapid.IntRange(1, 5).Draw(t, "newL"))
				ng := nl + int32(rapid.IntRange(0, 5).Draw(t, "newGextra"))
				ul.Sync(schemaMIF(proxyv1alpha1.GlobalAllocateLimit, nl, ng))
				trace += fmt.Sprintf("schema(L=%d,G=%d);", nl, ng)
				l = nl
				pendingG = ng
				if ng > g {
					g = ng // until the next applied answer either bound may be in force
				}
				nt = true
				sub.Class("schema-update")
			},
			"release": func(t *rapid.T) {
				if len(handles) == 0 {
					t.Skip("nothing in flight")
				}
				i := rapid.IntRange(0, len(handles)-1).Draw(t, "which")
				handles[i].fc.Release()
				handles = append(handles[:i], handles[i+1:]...)
				trace += "rel;"
			},
			"drainProbe": func(t *rapid.T) {
				for _, h := range handles {
					h.fc.Release()
				}
				handles = nil
				n := 0
				for acquire(t) {
					n++
					if n > int(g)+int(l)+2 {
						t.Fatalf("more than G+L requests admitted from empty\ntrace: %s", trace)
					}
				}
				trace += fmt.Sprintf("probe=%d;", n)
				if pendingG > 0 && expectRemote() {
					// limits changed and no answer was applied since: only the upper bound (older or newer G) is demanded
					if n > int(g) {
						t.Fatalf("%d requests admitted from empty exceed the global limit %d\ntrace: %s", n, g, trace)
					}
					for _, h := range handles {
						h.fc.Release()
					}
					handles = nil
					return
				}
				if !expectRemote() {
					if n != int(l) {
						t.Fatalf("limiter server unknown/not ready/never answered: %d requests admitted from empty, the local limit is %d\ntrace: %s", n, l, trace)
					}
					sub.Class("probe-local-fallback")
				} else {
					switch {
					case lastQ >= 1 && lastQ <= g:
						if n != int(lastQ) {
							t.Fatalf("server granted quota %d (global limit %d) but %d requests are admitted from empty\ntrace: %s", lastQ, g, n, trace)
						}
					default:
						if n > int(g) {
							t.Fatalf("server answered quota %d, %d requests admitted from empty exceed the global limit %d\ntrace: %s", lastQ, n, g, trace)
						}
					}
					sub.Class("probe-remote")
				}
				for _, h := range handles {
					h.fc.Release()
				}
				handles = nil
			},
		})
		if nt {
			sub.NonTrivial(stats.HashString(trace))
			if sub.WantSample() {
				sub.Sample(trace)
			}
		}
	})
}

type tcall struct {
	before, after time.Duration
	ok            bool
}

func windowViolation(calls []tcall, qps, burst int32) string {
	var adm []tcall
	for _, c := range calls {
		if c.ok {
			adm = append(adm, c)
		}
	}
	for i := range adm {
		for j := i; j < len(adm); j++ {
			n := j - i + 1
			T := (adm[j].after - adm[i].before).Seconds()
			if float64(n) > float64(burst)+float64(qps)*T+1e-6 {
				return fmt.Sprintf("%d requests admitted in %.6f s, bound burst %d + qps %d * T = %.2f", n, T, burst, qps, float64(burst)+float64(qps)*T)
			}
		}
	}
	return ""
}

// TestPropAllocateTokenBucket: global-allocate, token bucket.
func TestPropAllocateTokenBucket(t *testing.T) {
	sub := stats.NewSub("allocate-token-bucket", "rapid: global-allocate token-bucket schema (local qps/burst <= global qps/burst), scripted replies with qps and burst in {0,1,-1,MinInt32,MaxInt32, around global, below global} or errors, readiness flips, bursts of 1-400 sequential TryAcquire calls between events; oracle: over every window of the run admitted calls <= global burst + global qps*T; over every window in which the server was unknown / not ready / never answered admitted calls <= local burst + local qps*T and the first call from idle is admitted (local limit, not none and not zero); non-trivial = a hostile reply or a readiness flip; distinct by FNV-64 of the op trace")
	stats.Check(t, stats.N(2500, 15000), func(t *rapid.T) {
		lq := int32(rapid.IntRange(1, 50).Draw(t, "localQPS"))
		lb := lq + int32(rapid.IntRange(0, 10).Draw(t, "localBurstExtra"))
		gq := lq + int32(rapid.IntRange(0, 100).Draw(t, "globalQPSExtra"))
		gb := lb + int32(rapid.IntRange(0, 100).Draw(t, "globalBurstExtra"))
		if gb < gq {
			gb = gq
		}
		srv := newServer(true)
		ctx, cancel := context.WithCancel(context.Background())
		defer cancel()
		ul := flowcontrols.NewUpstreamLimiter(ctx, "c1", "", srv.cs)
		defer ul.Sync(proxyv1alpha1.FlowControl{})
		flowcontrols.VerifSetLimiterType(ul, flowcontrol.RemoteFlowControls)
		ul.Sync(schemaTB(proxyv1alpha1.GlobalAllocateLimit, lq, lb, gq, gb))
		start := time.Now()
		var seg []tcall // current segment: calls decided by one limiter under one configuration
		segLocal := true
		firstCall := true
		trace := fmt.Sprintf("local=%d/%d global=%d/%d;", lq, lb, gq, gb)
		synced := false
		nt := false
		sub.Eval()
		flush := func() {
			if len(seg) == 0 {
				return
			}
			if segLocal {
				if msg := windowViolation(seg, lq, lb); msg != "" {
					t.Fatalf("while the limiter server was unknown / not ready / had never answered the local limit was not enforced: %s\ntrace: %s", msg, trace)
				}
				sub.Class("local-segment")
			} else {
				if msg := windowViolation(seg, gq, gb); msg != "" {
					t.Fatalf("global token-bucket limit exceeded: %s\ntrace: %s", msg, trace)
				}
				sub.Class("remote-segment")
			}
			seg = nil
		}
		steps := rapid.IntRange(1, 12).Draw(t, "steps")
		for i := 0; i < steps; i++ {
			switch rapid.IntRange(0, 4).Draw(t, "op") {
			case 0:
				v := rapid.Bool().Draw(t, "ready")
				if v != srv.cs.ready {
					nt = true
					flush()
				}
				srv.cs.ready = v
				trace += fmt.Sprintf("ready=%v;", v)
			case 1:
				srv.next = reply{Err: rapid.IntRange(0, 5).Draw(t, "err") == 0, Quota: genQuota(t, "qps", gq), Burst: genQuota(t, "burst", gb)}
				before := srv.calls
				remote.VerifReconcileOnce(flowcontrols.VerifReconcile(ul))
				applied := srv.calls > before && !srv.next.Err
				trace += fmt.Sprintf("reconcile(q=%d,b=%d,err=%v,applied=%v);", srv.next.Quota, srv.next.Burst, srv.next.Err, applied)
				if applied {
					flush() // an applied answer is a reconfiguration: it starts a new window
					synced = true
					if srv.next.Quota <= 0 || srv.next.Quota > gq || srv.next.Burst <= 0 || srv.next.Burst > gb {
						nt = true
						sub.Class("hostile-reply")
					}
				}
			default:
				n := rapid.IntRange(1, 400).Draw(t, "calls")
				local := !(srv.cs.ready && synced)
				if local != segLocal {
					flush()
					segLocal = local
				}
				admitted := 0
				for k := 0; k < n; k++ {
					b := time.Since(start)
					fc := ul.GetOrDefault("s")
					ok := fc.TryAcquire()
					a := time.Since(start)
					seg = append(seg, tcall{b, a, ok})
					if ok {
						admitted++
					}
					if firstCall {
						firstCall = false
						if local && !ok {
							t.Fatalf("the very first request was refused while the limiter server is unknown: the local limit qps=%d burst=%d must be in force, not zero\ntrace: %s", lq, lb, trace)
						}
					}
				}
				trace += fmt.Sprintf("calls(%d,admitted=%d,%s);", n, admitted, map[bool]string{true: "local", false: "remote"}[local])
			}
		}
		flush()
		if nt {
			sub.NonTrivial(stats.HashString(trace))
			if sub.WantSample() {
				sub.Sample(trace)
			}
		}
	})
}

// TestPropCountMaxInflight: global-count, max-in-flight: the wrapper under arbitrary acquire results.
func TestPropCountMaxInflight(t *testing.T) {
	sub := stats.NewSub("count-max-in-flight", "rapid state machine on the real UpstreamLimiter in remote mode (global-count, max-in-flight, L <= G <= 10); the answers of the limiter server are delivered synchronously to the wrapper's SetLimit (hook-built AcquireResult): accept/limit with limit in {0,1,-1,-5,MinInt32,MaxInt32,G..G+3,1..G}, error strings, RequestIDTooOld, stale and reordered request times; ops readiness up/down, schema update followed by one reconcile round (new local/global limits, also while the server is failing; the new global limit is demanded from the next applied answer on), acquire, release, drain+probe; oracle: admitted-and-unreleased <= G at every admission (G+L under the listed open finding); after an error answer the probe admits between L and G (local limit, not none); not ready => exactly L; otherwise exactly the limit of the last answer that was not stale (kept in [1,G] if accepted, [0,G] if refused): a stale answer, also a stale error, changes nothing; non-trivial = a hostile limit, an error answer or a stale request time was delivered; distinct by FNV-64 of the op trace")
	known := findings.Open(overlapFinding)
	stats.Check(t, stats.N(5000, 30000), func(t *rapid.T) {
		l := int32(rapid.IntRange(1, 5).Draw(t, "L"))
		g := l + int32(rapid.IntRange(0, 5).Draw(t, "Gextra"))
		srv := newServer(false)
		srv.cs.workerFail = true // the background counter worker finds no server; answers come from the history only
		ctx, cancel := context.WithCancel(context.Background())
		defer cancel()
		ul := flowcontrols.NewUpstreamLimiter(ctx, "c1", "", srv.cs)
		defer ul.Sync(proxyv1alpha1.FlowControl{})
		flowcontrols.VerifSetLimiterType(ul, flowcontrol.RemoteFlowControls)
		ul.Sync(schemaMIF(proxyv1alpha1.GlobalCountLimit, l, g))
		remote.VerifReconcileOnce(flowcontrols.VerifReconcile(ul)) // creates the remote wrapper from the global member (no server call for the count strategy)
		cache := ul.AllFlowControls()["s"]
		if cache == nil || cache.FlowControl() == nil {
			t.Fatalf("harness: remote wrapper was not created")
		}
		var handles []handle
		trace := fmt.Sprintf("L=%d G=%d;", l, g)
		nt := false
		reqTime := int64(1000)
		errorMode := false
		lastApplied := int64(0) // request time of the last answer the wrapper did not skip
		pendingG := int32(0)    // global limit of a schema update that no applied answer has followed yet
		lLow := l               // smallest local limit configured since the last applied answer
		gMax := g               // largest global limit ever configured in this history
		// the wrapper's own watchdog injects a "timeout" error answer once 4 s pass without a reply of the worker; this
		// history delivers its answers by hand, so a case that lasts longer (a loaded machine) would meet answers the
		// model does not know: after 2.5 s the rest of the case is discarded (inconclusive, never a verdict)
		caseStart := time.Now()
		expiredNoted := false
		expired := func() bool {
			if time.Since(caseStart) < 2500*time.Millisecond {
				return false
			}
			if !expiredNoted {
				expiredNoted = true
				sub.Inconclusive()
			}
			return true
		}
		lastKind := ""        // "accept" / "refuse": kind of the last applied answer since the last schema update ("" = none)
		lastLimit := int32(0) // its limit
		overlapPeak := 0      // most requests seen in flight while local and remote ones overlapped (known finding only)
		sub.Eval()
		count := func() (loc, rem int) {
			for _, h := range handles {
				if h.remote {
					rem++
				} else {
					loc++
				}
			}
			return
		}
		acquire := func(t *rapid.T) bool {
			fc := ul.GetOrDefault("s")
			r := isRemote(ul, fc)
			ok := fc.TryAcquire()
			trace += fmt.Sprintf("acq=%v(%s);", ok, map[bool]string{true: "remote", false: "local"}[r])
			if r != srv.cs.ready {
				t.Fatalf("request handled by the wrong limiter (remote=%v, ready=%v)\ntrace: %s", r, srv.cs.ready, trace)
			}
			if ok {
				handles = append(handles, handle{fc, r})
				loc, rem := count()
				bound := int(g)
				if errorMode {
					// while the server is failing the wrapper admits max(recent in-flight peak, local limit); the peak is
					// measured over a wall-clock window and may stem from a larger global limit configured earlier in the
					// history (reconfigurations are outside this property's quantifier): the largest limit ever configured bounds it
					bound = int(gMax)
					if overlapPeak > bound {
						// known finding, second face: the peak is metered over both limiters, so an overlap of local and
						// remote requests earlier in the history (tolerated as the known finding) is what the fallback keeps
						bound = overlapPeak
						if loc+rem > int(gMax) {
							sub.ExcludedByKnownFinding()
						}
					}
				}
				if loc > 0 && rem > 0 && known {
					// known finding: the two limiters do not see each other's requests, each keeps its own bound
					bound += int(l)
					sub.ExcludedByKnownFinding()
					if loc+rem > overlapPeak && loc+rem <= bound {
						overlapPeak = loc + rem
					}
				}
				if loc+rem > bound {
					t.Fatalf("%d requests in flight (%d local, %d remote) exceed the limit in force %d\ntrace: %s", loc+rem, loc, rem, bound, trace)
				}
				if !r && loc > int(l) {
					t.Fatalf("%d requests admitted by the local limiter exceed the local limit %d\ntrace: %s", loc, l, trace)
				}
			}
			return ok
		}
		t.Repeat(map[string]func(*rapid.T){
			"ready": func(t *rapid.T) {
				if expired() {
					return
				}
				v := rapid.Bool().Draw(t, "ready")
				srv.cs.ready = v
				trace += fmt.Sprintf("ready=%v;", v)
			},
			"answer": func(t *rapid.T) {
				if expired() {
					return
				}
				res := &proxyv1alpha1.RateLimitAcquireResult{FlowControl: "s"}
				kind := rapid.IntRange(0, 9).Draw(t, "kind")
				switch {
				case kind < 5:
					res.Accept = true
					res.Limit = genQuota(t, "limit", g)
				case kind < 7:
					res.Accept = false
					res.Limit = genQuota(t, "limit", g)
				case kind < 8:
					res.Error = "RequestIDTooOld"
				default:
					res.Error = rapid.SampledFrom([]string{"upstream c1, shard 0, leader is other", "context deadline exceeded", "x"}).Draw(t, "error")
				}
				rt := reqTime
				switch rapid.IntRange(0, 4).Draw(t, "time") {
				case 0:
					rt = reqTime - int64(rapid.IntRange(0, 5).Draw(t, "stale")) // stale or reordered
					nt = true
				case 1:
					rt = 0
				default:
					reqTime += 10
					rt = reqTime
				}
				cache.FlowControl().SetLimit(remote.VerifNewAcquireResult(&proxyv1alpha1.RateLimitAcquireRequest{FlowControl: "s"}, res, rt))
				trace += fmt.Sprintf("answer(accept=%v,limit=%d,err=%q,t=%d);", res.Accept, res.Limit, res.Error, rt)
				if res.Error == "" && (rt == 0 || rt > lastApplied) {
					lastApplied = rt
					lLow = l
					if errorMode {
						// an applied answer ends the error mode (stale ones are skipped by the wrapper). Requests admitted
						// while the server was failing were admitted under the fallback's own bound (the metered peak,
						// at most the largest limit of the history); they are drained so that the ledger is judged
						// against the limit that is in force from now on
						for _, h := range handles {
							h.fc.Release()
						}
						handles = nil
					}
					errorMode = false
					lastKind, lastLimit = "refuse", res.Limit
					if res.Accept {
						lastKind = "accept"
					}
					if pendingG > 0 {
						// this answer is clamped to the new global limit; requests admitted under the previous
						// configuration are drained so that the ledger is judged against one limit
						for _, h := range handles {
							h.fc.Release()
						}
						handles = nil
						g, pendingG = pendingG, 0
					}
				}
				if res.Error != "" && res.Error != "RequestIDTooOld" {
					if rt == 0 || rt > lastApplied {
						errorMode = true
					}
					nt = true
					sub.Class("error-answer")
				} else if res.Error == "" {
					if res.Limit <= 0 || res.Limit > g {
						nt = true
						sub.Class("hostile-limit")
					}
				}
			},
			"acquire": func(t *rapid.T) {
				if expired() {
					return
				}
				acquire(t)
			},
			"schemaUpdate": func(t *rapid.T) {
				if expired() {
					return
				}
				// the configured limits change and one reconcile round hands them to the remote wrapper (also while
				// the server is failing); the wrapper re-clamps at the next applied answer, so the new global limit is
				// demanded from then on; requests admitted before the update are drained first
				for _, h := range handles {
					h.fc.Release()
				}
				handles = nil
				nl := int32(rapid.IntRange(1, 5).Draw(t, "newL"))
				ng := nl + int32(rapid.IntRange(0, 5).Draw(t, "newGextra"))
				ul.Sync(schemaMIF(proxyv1alpha1.GlobalCountLimit, nl, ng))
				// the allocate round trip of this reconcile round succeeds, finds no server for the shard, or is refused
				// by the server (the counted schema does not depend on it)
				alloc := rapid.SampledFrom([]string{"ok", "no-client", "refused"}).Draw(t, "allocate")
				srv.cs.clientFail, srv.next.Err = alloc == "no-client", alloc == "refused"
				remote.VerifReconcileOnce(flowcontrols.VerifReconcile(ul))
				srv.cs.clientFail, srv.next.Err = false, false
				trace += fmt.Sprintf("schema(L=%d,G=%d,allocate=%s);", nl, ng, alloc)
				if alloc != "ok" {
					sub.Class("schema-update-while-the-allocate-call-fails")
				}
				l = nl
				if nl < lLow {
					lLow = nl
				}
				pendingG = ng
				lastKind = ""
				if ng > g {
					g = ng // until the next applied answer either bound may be in force
				}
				if ng > gMax {
					gMax = ng
				}
				nt = true
				if errorMode {
					sub.Class("schema-update-while-the-server-is-failing")
				} else {
					sub.Class("schema-update")
				}
			},
			"release": func(t *rapid.T) {
				if expired() {
					return
				}
				if len(handles) == 0 {
					t.Skip("nothing in flight")
				}
				i := rapid.IntRange(0, len(handles)-1).Draw(t, "which")
				handles[i].fc.Release()
				handles = append(handles[:i], handles[i+1:]...)
				trace += "rel;"
			},
			"drainProbe": func(t *rapid.T) {
				if expired() {
					return
				}
				for _, h := range handles {
					h.fc.Release()
				}
				handles = nil
				n := 0
				for acquire(t) {
					n++
					if n > int(gMax)+int(l)+2 {
						t.Fatalf("more than G+L requests admitted from empty\ntrace: %s", trace)
					}
				}
				trace += fmt.Sprintf("probe=%d;", n)
				if !srv.cs.ready {
					if n != int(l) {
						t.Fatalf("limiter server not ready: %d requests admitted from empty, the local limit is %d\ntrace: %s", n, l, trace)
					}
				} else if n > int(g) && !errorMode {
					t.Fatalf("%d requests admitted from empty exceed the global limit %d\ntrace: %s", n, g, trace)
				} else if !errorMode && pendingG == 0 && lastKind != "" {
					// the last answer the server gave (stale and skipped ones do not count) is in force exactly: an accepted
					// limit is kept in [1, G], a refusal's in [0, G]
					want := lastLimit
					if lastKind == "accept" && want < 1 {
						want = 1
					}
					if want < 0 {
						want = 0
					}
					if want > g {
						want = g
					}
					if n != int(want) {
						t.Fatalf("the last applied answer of the limiter server was %s with limit %d (global limit %d): %d requests should be admitted from empty, %d are\ntrace: %s", lastKind, lastLimit, g, want, n, trace)
					}
					sub.Class("probe-matches-the-last-applied-answer")
				}
				for _, h := range handles {
					h.fc.Release()
				}
				handles = nil
			},
			"errorProbe": func(t *rapid.T) {
				if expired() {
					return
				}
				// deliver an error answer, then probe: the local limit must be in force, not none
				if !srv.cs.ready {
					t.Skip("not in remote mode")
				}
				for _, h := range handles {
					h.fc.Release()
				}
				handles = nil
				reqTime += 10
				res := &proxyv1alpha1.RateLimitAcquireResult{FlowControl: "s", Error: "limiter server unreachable"}
				cache.FlowControl().SetLimit(remote.VerifNewAcquireResult(&proxyv1alpha1.RateLimitAcquireRequest{FlowControl: "s"}, res, reqTime))
				errorMode = true
				hi := int(gMax)
				if overlapPeak > hi {
					hi = overlapPeak // see acquire: the metered peak includes a tolerated overlap
				}
				n := 0
				for acquire(t) {
					n++
					if n > hi+2 {
						break
					}
				}
				trace += fmt.Sprintf("errorProbe=%d;", n)
				if n < int(lLow) || n > hi {
					t.Fatalf("after an error answer of the limiter server %d requests are admitted from empty; expected between the local limit %d and the global limit %d\ntrace: %s", n, lLow, gMax, trace)
				}
				for _, h := range handles {
					h.fc.Release()
				}
				handles = nil
				nt = true
				sub.Class("error-probe")
			},
		})
		if nt {
			sub.NonTrivial(stats.HashString(trace))
			if sub.WantSample() {
				sub.Sample(trace)
			}
		}
	})
}

// TestPropMissingReplies: the real background worker and watchdog against a server that stops answering for a flow
// control. The 4 s watchdog of the gateway is real time, so a case lasts about 10 s; several configurations run side by side.
func TestPropMissingReplies(t *testing.T) {
	sub := stats.NewSub("count-missing-replies", "rapid: 3-4 configurations side by side (global-count max-in-flight, local L in 1..3 < global G <= L+6, quotas Q1 in (L, G], Q2 in [1, G]) on the real UpstreamLimiter with its real background counter worker and reply watchdog; the scripted limiter server grants Q1, then for 7 s answers every acquire call WITHOUT a result for the flow control (or fails every call) while one request at a time keeps flowing, then grants Q2; oracle: never more than G admitted; after the silent period exactly L requests are admitted from empty (local limit, not the stale quota; judged when the limit is reached or at the latest 9.5 s after the last reply - the gateway's own bound is about 6 s); after recovery Q2 are admitted within 5 s; non-trivial = all; distinct by FNV-64 of the configuration")
	stats.Check(t, stats.N(1, 4), func(t *rapid.T) {
		type conf struct {
			L, G, Q1, Q2 int32
			Fail         bool
		}
		var confs []conf
		for i, n := 0, rapid.IntRange(3, 4).Draw(t, "configurations"); i < n; i++ {
			l := int32(rapid.IntRange(1, 3).Draw(t, fmt.Sprintf("L[%d]", i)))
			g := l + int32(rapid.IntRange(2, 6).Draw(t, fmt.Sprintf("Gextra[%d]", i)))
			confs = append(confs, conf{L: l, G: g,
				Q1:   l + int32(rapid.IntRange(1, int(g-l)).Draw(t, fmt.Sprintf("Q1extra[%d]", i))),
				Q2:   int32(rapid.IntRange(1, int(g)).Draw(t, fmt.Sprintf("Q2[%d]", i))),
				Fail: rapid.IntRange(0, 3).Draw(t, fmt.Sprintf("failInsteadOfSilent[%d]", i)) == 0})
		}
		var wg sync.WaitGroup
		var mu sync.Mutex
		var problems []string
		for _, c := range confs {
			wg.Add(1)
			go func(c conf) {
				defer wg.Done()
				desc := fmt.Sprintf("%+v", c)
				fail := func(format string, a ...interface{}) {
					mu.Lock()
					problems = append(problems, fmt.Sprintf(format, a...)+" ("+desc+")")
					mu.Unlock()
				}
				srv := newServer(false) // this goroutine owns the scripted readiness
				atomic.StoreInt32(&srv.acqQuota, c.Q1)
				ctx, cancel := context.WithCancel(context.Background())
				defer cancel()
				ul := flowcontrols.NewUpstreamLimiter(ctx, "c1", "", srv.cs)
				defer ul.Sync(proxyv1alpha1.FlowControl{})
				flowcontrols.VerifSetLimiterType(ul, flowcontrol.RemoteFlowControls)
				ul.Sync(schemaMIF(proxyv1alpha1.GlobalCountLimit, c.L, c.G))
				remote.VerifReconcileOnce(flowcontrols.VerifReconcile(ul))
				srv.cs.ready = true
				probe := func() int {
					var hs []flowcontrol.FlowControl
					for i := 0; i < int(c.G)+3; i++ {
						fc := ul.GetOrDefault("s")
						if !fc.TryAcquire() {
							break
						}
						hs = append(hs, fc)
					}
					for _, h := range hs {
						h.Release()
					}
					return len(hs)
				}
				waitProbe := func(want int, d time.Duration) (int, bool) {
					deadline := time.Now().Add(d)
					for {
						n := probe()
						if n > int(c.G) {
							fail("%d requests admitted from empty exceed the global limit %d", n, c.G)
							return n, false
						}
						if n == want {
							return n, true
						}
						if time.Now().After(deadline) {
							return n, false
						}
						time.Sleep(50 * time.Millisecond)
					}
				}
				sub.Eval()
				// 1. the server grants Q1
				if n, ok := waitProbe(int(c.Q1), 5*time.Second); !ok {
					if n <= int(c.G) {
						sub.Inconclusive() // the grant did not arrive in time (loaded machine): nothing to judge
					}
					return
				}
				// 2. replies for the flow control stop; one request at a time keeps flowing
				mode := int32(acqSilent)
				if c.Fail {
					mode = acqFail
				}
				atomic.StoreInt32(&srv.acqMode, mode)
				silentFrom := time.Now()
				for time.Since(silentFrom) < 7*time.Second {
					fc := ul.GetOrDefault("s")
					if fc.TryAcquire() {
						time.Sleep(20 * time.Millisecond)
						fc.Release()
					}
					time.Sleep(80 * time.Millisecond)
				}
				if n, ok := waitProbe(int(c.L), 2500*time.Millisecond); !ok && n <= int(c.G) {
					fail("%.1f s after the last reply of the limiter server %d requests are admitted from empty: the local limit %d is not in force (stale quota %d)", time.Since(silentFrom).Seconds(), n, c.L, c.Q1)
					return
				}
				// 3. the server recovers and grants Q2
				atomic.StoreInt32(&srv.acqQuota, c.Q2)
				atomic.StoreInt32(&srv.acqMode, acqGrant)
				if n, ok := waitProbe(int(c.Q2), 5*time.Second); !ok && n <= int(c.G) {
					fail("5 s after the limiter server answers again with quota %d, %d requests are admitted from empty", c.Q2, n)
					return
				}
				sub.NonTrivial(stats.HashString(desc))
				sub.Class(map[bool]string{true: "calls-fail", false: "replies-without-result"}[c.Fail])
				if sub.WantSample() {
					sub.Sample(desc)
				}
			}(c)
		}
		// side by side with the above: the same outage for token-bucket schemas under the count strategy
		for i, n := 0, rapid.IntRange(1, 2).Draw(t, "tokenBucketConfigurations"); i < n; i++ {
			c := tbConf{LQ: int32(rapid.IntRange(2, 6).Draw(t, fmt.Sprintf("tbLocalQPS[%d]", i))), GQ: int32(rapid.IntRange(60, 200).Draw(t, fmt.Sprintf("tbGlobalQPS[%d]", i))),
				Fail: rapid.IntRange(0, 2).Draw(t, fmt.Sprintf("tbFailInsteadOfSilent[%d]", i)) == 0}
			wg.Add(1)
			go func() {
				defer wg.Done()
				if msg := tokenBucketOutage(c, tbSub); msg != "" {
					mu.Lock()
					problems = append(problems, msg)
					mu.Unlock()
				}
			}()
		}
		// side by side with the above: the gateway's view of the limiter server's readiness, from the REAL client set
		hbFail := rapid.SampledFrom([]string{"status-503", "hang-up"}).Draw(t, "heartbeatFailure")
		wg.Add(1)
		go func() {
			defer wg.Done()
			if msg := heartbeatScenario(hbFail); msg != "" {
				mu.Lock()
				problems = append(problems, msg)
				mu.Unlock()
			}
		}()
		wg.Wait()
		if len(problems) > 0 {
			t.Fatalf("%s", strings.Join(problems, "\n"))
		}
	})
}

var hbSub = stats.NewSub("readiness-follows-heartbeats", "real gateway-side client set (verif constructor; discovery and heartbeat rounds driven by hand at their real periods, 2 s and 1 s) against two loopback servers: discovery keeps answering and keeps naming the same leader, the leader's heartbeat endpoint answers, then fails for up to 10 s (503 or hang-up), then answers again; oracle: ready after the first good heartbeat; NOT ready at the latest 10 s after heartbeats started failing (the gateway's bound is 5 s) although discovery rounds keep succeeding; ready again after the next good heartbeat; runs side by side with count-missing-replies; non-trivial = all; distinct by the failure kind")

// heartbeatScenario returns "" or a violation message.
func heartbeatScenario(failKind string) string {
	var down int32
	leader := httptest.NewServer(http.HandlerFunc(func(w http.ResponseWriter, r *http.Request) {
		if atomic.LoadInt32(&down) == 1 {
			if failKind == "hang-up" {
				if hj, ok := w.(http.Hijacker); ok {
					if c, _, err := hj.Hijack(); err == nil {
						c.Close()
						return
					}
				}
			}
			w.WriteHeader(http.StatusServiceUnavailable)
			return
		}
		w.WriteHeader(http.StatusOK)
		_, _ = w.Write([]byte("ok"))
	}))
	defer leader.Close()
	discovery := httptest.NewServer(http.HandlerFunc(func(w http.ResponseWriter, r *http.Request) {
		info := proxyv1alpha1.RateLimitServerInfo{Server: "replica", ShardCount: 1, Endpoints: []proxyv1alpha1.EndpointInfo{{Leader: leader.URL, ShardID: 0}}}
		b, _ := json.Marshal(info)
		w.Header().Set("Content-Type", "application/json")
		_, _ = w.Write(b)
	}))
	defer discovery.Close()
	cs := clientsets.VerifNewClientSets(&rest.Config{}, "gw-1", func(string) []string { return []string{discovery.URL} })
	hbSub.Eval()
	// the two loops by hand: a heartbeat round every second, a discovery round every other second
	tick := 0
	round := func() {
		if tick%2 == 0 {
			clientsets.VerifSync(cs)
		}
		clientsets.VerifHeartbeat(cs)
		tick++
	}
	round()
	if !cs.IsReady("c1") {
		round()
		if !cs.IsReady("c1") {
			hbSub.Inconclusive()
			return ""
		}
	}
	atomic.StoreInt32(&down, 1)
	failingFrom := time.Now()
	notReadyAfter := time.Duration(0)
	for time.Since(failingFrom) < 10*time.Second {
		time.Sleep(time.Second)
		round()
		if !cs.IsReady("c1") {
			notReadyAfter = time.Since(failingFrom)
			break
		}
	}
	if notReadyAfter == 0 {
		return fmt.Sprintf("heartbeats to the leader of the shard have been failing (%s) for %.1f s while discovery keeps naming it, and the gateway still considers the limiter server ready for the upstream", failKind, time.Since(failingFrom).Seconds())
	}
	hbSub.Note("not ready %.1f s after heartbeats started failing (%s)", notReadyAfter.Seconds(), failKind)
	atomic.StoreInt32(&down, 0)
	for i := 0; i < 3 && !cs.IsReady("c1"); i++ {
		time.Sleep(300 * time.Millisecond)
		round()
	}
	if !cs.IsReady("c1") {
		return "the leader answers heartbeats again but the gateway still considers the limiter server not ready"
	}
	hbSub.NonTrivial(stats.HashString(failKind))
	hbSub.Class("heartbeats-" + failKind)
	return ""
}

// TestKnownLocalRemoteOverlap replays the witness of the listed open finding and reports it as KNOWN-FINDING while it
// still fails (never as a violation); if the finding is not listed the same witness is a plain regression test.
func TestKnownLocalRemoteOverlap(t *testing.T) {
	srv := newServer(false)
	ctx, cancel := context.WithCancel(context.Background())
	defer cancel()
	ul := flowcontrols.NewUpstreamLimiter(ctx, "c1", "", srv.cs)
	defer ul.Sync(proxyv1alpha1.FlowControl{})
	flowcontrols.VerifSetLimiterType(ul, flowcontrol.RemoteFlowControls)
	ul.Sync(schemaMIF(proxyv1alpha1.GlobalAllocateLimit, 1, 1))
	a := ul.GetOrDefault("s")
	if !a.TryAcquire() {
		t.Fatal("harness: first request refused by the local limiter")
	}
	srv.cs.ready = true
	srv.next = reply{Quota: 1}
	remote.VerifReconcileOnce(flowcontrols.VerifReconcile(ul))
	b := ul.GetOrDefault("s")
	second := b.TryAcquire()
	if second {
		b.Release()
	}
	a.Release()
	if !second {
		t.Log("witness no longer fails: the second request is refused while the first is unfinished")
		return
	}
	if f, ok := findings.Get(overlapFinding); ok && f.Status == "open" {
		stats.KnownFinding("C09", "L=1 G=1: request admitted by the local limiter still in flight, server becomes ready with quota 1, remote limiter admits a second request (2 in flight > global limit 1)")
		return
	}
	t.Errorf("2 requests in flight under global limit 1 (one admitted by the local limiter, one by the remote limiter)")
}

// TestReplayWitnesses: hostile answers found on the pinned tree.
func TestReplayWitnesses(t *testing.T) {
	// negative token-bucket qps
	srv := newServer(true)
	ctx, cancel := context.WithCancel(context.Background())
	defer cancel()
	ul := flowcontrols.NewUpstreamLimiter(ctx, "c1", "", srv.cs)
	defer ul.Sync(proxyv1alpha1.FlowControl{})
	flowcontrols.VerifSetLimiterType(ul, flowcontrol.RemoteFlowControls)
	ul.Sync(schemaTB(proxyv1alpha1.GlobalAllocateLimit, 6, 8, 9, 41))
	srv.cs.ready = true
	srv.next = reply{Quota: -1, Burst: 1}
	remote.VerifReconcileOnce(flowcontrols.VerifReconcile(ul))
	n := 0
	for i := 0; i < 200; i++ {
		if ul.GetOrDefault("s").TryAcquire() {
			n++
		}
	}
	if n > 41+1 {
		t.Errorf("reply qps=-1: %d of 200 immediate requests admitted under global qps 9 burst 41", n)
	}
	// first reply above the global max-in-flight limit
	srv2 := newServer(false)
	ul2 := flowcontrols.NewUpstreamLimiter(ctx, "c2", "", srv2.cs)
	defer ul2.Sync(proxyv1alpha1.FlowControl{})
	flowcontrols.VerifSetLimiterType(ul2, flowcontrol.RemoteFlowControls)
	ul2.Sync(schemaMIF(proxyv1alpha1.GlobalAllocateLimit, 1, 2))
	srv2.cs.ready = true
	srv2.next = reply{Quota: math.MaxInt32}
	remote.VerifReconcileOnce(flowcontrols.VerifReconcile(ul2))
	m := 0
	var hs []flowcontrol.FlowControl
	for i := 0; i < 10; i++ {
		fc := ul2.GetOrDefault("s")
		if fc.TryAcquire() {
			m++
			hs = append(hs, fc)
		}
	}
	for _, h := range hs {
		h.Release()
	}
	if m > 2 {
		t.Errorf("first reply quota MaxInt32: %d requests in flight under global limit 2", m)
	}
}
