//go:build verif

package c09

import (
	"context"
	"fmt"
	"math"
	"sync/atomic"
	"testing"
	"time"

	"pgregory.net/rapid"

	proxyv1alpha1 "github.com/kubewharf/kubegateway/pkg/apis/proxy/v1alpha1"
	"github.com/kubewharf/kubegateway/pkg/flowcontrols"
	"github.com/kubewharf/kubegateway/pkg/flowcontrols/flowcontrol"
	"github.com/kubewharf/kubegateway/pkg/flowcontrols/remote"
	"verifharness/internal/stats"
)

// TestPropCountTokenBucket: global-count strategy on a token-bucket schema. The instance asks the limiter server for
// tokens in rounds (what its counter worker does: ExpectToken, AddAcquiring, the call, SetLimit with the answer); the
// history plays the server.
func TestPropCountTokenBucket(t *testing.T) {
	sub := stats.NewSub("count-token-bucket", "rapid state machine on the real UpstreamLimiter in remote mode (global-count, token bucket, local qps/burst <= global qps/burst, global qps 1..2000); the history drives the token protocol the way the counter worker does (round: ExpectToken, AddAcquiring, request recorded as pending; answer: SetLimit with a hook-built AcquireResult for a pending request, in order or reordered) and plays the server: accept with the asked tokens, fewer, 0, or a hostile number {-1,-5,MinInt32,MaxInt32,asked+3}; refuse; error strings; RequestIDTooOld; ops readiness up/down, schema update followed by one reconcile round (new local and global qps / burst, also while the server is failing), bursts of 1-200 sequential TryAcquire calls, recovery probe (the server answers every pending and every further request, also one resync request for 0 tokens, with exactly the tokens asked for, then the instance must hold a token and - global qps >= 25, one probe in three - one request is made after waiting 1.5/qps s for the instance's own bucket); oracle: per segment (one limiter, one configuration) admitted calls <= burst + qps*T with the global values while the server answers, the local values while it is not ready, and max(local qps, metered rate read around the failing answer) while it is failing; the very first request is admitted, and so is the first request after the server starts failing when it is made 1.5/qps s later (rate in force >= 25; local limit, not zero); after a recovery probe the instance holds >= 1 token and the request is admitted (server-granted tokens take effect again) unless the server ever granted a negative or absurd number of tokens; non-trivial = an error answer, a hostile number or a readiness flip was delivered; distinct by FNV-64 of the op trace")
	stats.Check(t, stats.N(800, 8000), func(t *rapid.T) {
		var gq int32
		if rapid.Bool().Draw(t, "smallGlobal") {
			gq = int32(rapid.IntRange(1, 40).Draw(t, "globalQPS"))
		} else {
			gq = int32(rapid.IntRange(40, 2000).Draw(t, "globalQPS"))
		}
		gb := gq + int32(rapid.IntRange(0, int(gq)).Draw(t, "globalBurstExtra"))
		lq := int32(rapid.IntRange(1, int(gq)).Draw(t, "localQPS"))
		lbMax := int(gb - lq)
		if lbMax > 10 {
			lbMax = 10
		}
		lb := lq + int32(rapid.IntRange(0, lbMax).Draw(t, "localBurstExtra"))
		srv := newServer(true)
		srv.cs.workerFail = true // the background counter worker finds no server; the protocol is driven by the history only
		ctx, cancel := context.WithCancel(context.Background())
		defer cancel()
		ul := flowcontrols.NewUpstreamLimiter(ctx, "c1", "", srv.cs)
		defer ul.Sync(proxyv1alpha1.FlowControl{})
		flowcontrols.VerifSetLimiterType(ul, flowcontrol.RemoteFlowControls)
		ul.Sync(schemaTB(proxyv1alpha1.GlobalCountLimit, lq, lb, gq, gb))
		remote.VerifReconcileOnce(flowcontrols.VerifReconcile(ul)) // creates the remote wrapper from the global member (no server call for the count strategy)
		cache := ul.AllFlowControls()["s"]
		if cache == nil || cache.FlowControl() == nil {
			t.Fatalf("harness: remote wrapper was not created")
		}
		w := cache.FlowControl()
		type pend struct {
			hits int32
			rt   int64
		}
		var pending []pend
		start := time.Now()
		caseStart := start
		trace := fmt.Sprintf("local=%d/%d global=%d/%d;", lq, lb, gq, gb)
		var seg []tcall
		segKind := ""
		errorMode := false
		errBound := int32(0)
		errFirst := false // the next request is the first one after the server started failing
		poisoned := false // the server granted a negative or absurd number of tokens at some point
		firstCall := true
		nt := false
		expiredNoted := false
		// the wrapper's own watchdog injects a "timeout" error answer once 4 s pass without a reply of the worker; a case
		// that lasts longer (a loaded machine) would meet answers the model does not know: after 2.5 s the rest of the
		// case is discarded (inconclusive, never a verdict)
		expired := func() bool {
			if time.Since(caseStart) < 2500*time.Millisecond {
				return false
			}
			if !expiredNoted {
				expiredNoted = true
				sub.Inconclusive()
			}
			return true
		}
		sub.Eval()
		flush := func() {
			if len(seg) == 0 {
				return
			}
			switch segKind {
			case "local":
				if msg := windowViolation(seg, lq, lb); msg != "" {
					t.Fatalf("while the limiter server was not ready the local limit was not enforced: %s\ntrace: %s", msg, trace)
				}
			case "remote":
				if msg := windowViolation(seg, gq, gb); msg != "" {
					t.Fatalf("global token-bucket limit exceeded: %s\ntrace: %s", msg, trace)
				}
			case "error":
				if msg := windowViolation(seg, errBound, errBound); msg != "" {
					t.Fatalf("while the limiter server was failing more was admitted than max(local qps, metered rate) = %d allows: %s\ntrace: %s", errBound, msg, trace)
				}
			}
			sub.Class(segKind + "-segment")
			seg = nil
		}
		deliver := func(p pend, res *proxyv1alpha1.RateLimitAcquireResult) {
			res.FlowControl = "s"
			r0 := cache.Rate()
			w.SetLimit(remote.VerifNewAcquireResult(&proxyv1alpha1.RateLimitAcquireRequest{FlowControl: "s", Tokens: p.hits}, res, p.rt))
			r1 := cache.Rate()
			trace += fmt.Sprintf("answer(asked=%d,accept=%v,limit=%d,err=%q);", p.hits, res.Accept, res.Limit, res.Error)
			switch {
			case res.Error == "RequestIDTooOld":
			case res.Error != "":
				nt = true
				sub.Class("error-answer")
				if !errorMode {
					flush()
					errorMode, errFirst = true, true
					r := math.Max(math.Max(r0, r1), float64(lq))
					errBound = int32(math.Ceil(r))
				}
			case res.Accept:
				if errorMode {
					flush()
					errorMode = false
				}
				if res.Limit < 0 || res.Limit > 1<<20 {
					poisoned = true
				}
				if res.Limit < 0 || res.Limit > p.hits {
					nt = true
					sub.Class("hostile-tokens")
				}
			}
		}
		call := func(kind string) bool {
			if kind != segKind {
				flush()
				segKind = kind
			}
			probeErr := false
			if kind == "error" && errFirst {
				// the first request after the server started failing: the bucket in force may have been drained before
				// (it is only rebuilt when its values change), so wait for one token of the rate in force first
				errFirst = false
				if errBound >= 25 {
					probeErr = true
					time.Sleep(time.Duration(1.5*float64(time.Second)/float64(errBound)) + time.Millisecond)
					sub.Class("failure-mode-probe")
				}
			}
			b := time.Since(start)
			fc := ul.GetOrDefault("s")
			r := isRemote(ul, fc)
			ok := fc.TryAcquire()
			a := time.Since(start)
			if ok {
				fc.Release()
			}
			if r != srv.cs.ready {
				t.Fatalf("request handled by the wrong limiter (remote=%v, ready=%v)\ntrace: %s", r, srv.cs.ready, trace)
			}
			seg = append(seg, tcall{b, a, ok})
			if firstCall {
				firstCall = false
				if kind == "local" && !ok {
					t.Fatalf("the very first request was refused while the limiter server is not ready: the local limit qps=%d burst=%d must be in force, not zero\ntrace: %s", lq, lb, trace)
				}
			}
			if probeErr && !ok {
				t.Fatalf("the limiter server is failing and no request was admitted for %.0f ms, yet a request is refused: the local limit qps=%d (in force: %d) must be enforced, not zero\ntrace: %scall=false;", 1500.0/float64(errBound), lq, errBound, trace)
			}
			return ok
		}
		kindNow := func() string {
			if !srv.cs.ready {
				return "local"
			}
			if errorMode {
				return "error"
			}
			return "remote"
		}
		t.Repeat(map[string]func(*rapid.T){
			"ready": func(t *rapid.T) {
				if expired() {
					return
				}
				v := rapid.Bool().Draw(t, "ready")
				if v != srv.cs.ready {
					nt = true
					flush()
				}
				srv.cs.ready = v
				trace += fmt.Sprintf("ready=%v;", v)
			},
			"round": func(t *rapid.T) {
				if expired() {
					return
				}
				hits := w.ExpectToken()
				resync := rapid.IntRange(0, 7).Draw(t, "resync") == 0
				if hits <= 0 && !resync {
					trace += "round(nothing asked);"
					return
				}
				w.AddAcquiring(hits)
				pending = append(pending, pend{hits, time.Now().UnixNano()})
				trace += fmt.Sprintf("round(ask %d);", hits)
			},
			"answer": func(t *rapid.T) {
				if expired() {
					return
				}
				if len(pending) == 0 {
					t.Skip("no request pending")
				}
				i := 0
				if rapid.IntRange(0, 3).Draw(t, "reordered") == 0 {
					i = rapid.IntRange(0, len(pending)-1).Draw(t, "which")
				}
				p := pending[i]
				pending = append(pending[:i], pending[i+1:]...)
				res := &proxyv1alpha1.RateLimitAcquireResult{}
				tokens := func() int32 {
					switch rapid.IntRange(0, 5).Draw(t, "tokens") {
					case 0, 1, 2:
						return p.hits
					case 3:
						return int32(rapid.IntRange(0, int(p.hits)).Draw(t, "fewer"))
					default:
						return rapid.SampledFrom([]int32{0, -1, -5, math.MinInt32, math.MaxInt32, p.hits + 3}).Draw(t, "hostile")
					}
				}
				kind := rapid.IntRange(0, 9).Draw(t, "kind")
				switch {
				case kind < 5:
					res.Accept, res.Limit = true, tokens()
				case kind < 6:
					res.Accept, res.Limit = false, tokens()
				case kind < 7:
					res.Error = "RequestIDTooOld"
				default:
					res.Error = rapid.SampledFrom([]string{"upstream c1, shard 0, leader is other", "context deadline exceeded", "flowcontrol s not found", "x"}).Draw(t, "error")
				}
				deliver(p, res)
			},
			"calls": func(t *rapid.T) {
				if expired() {
					return
				}
				kind := kindNow()
				max := 200
				if kind == "remote" {
					max = 15 // a refused request waits for the next answer (1 ms here)
				}
				n := rapid.IntRange(1, max).Draw(t, "calls")
				admitted := 0
				for k := 0; k < n; k++ {
					if call(kind) {
						admitted++
					}
				}
				trace += fmt.Sprintf("calls(%d,admitted=%d,%s);", n, admitted, kind)
			},
			"schemaUpdate": func(t *rapid.T) {
				if expired() {
					return
				}
				// the configured limits change and one reconcile round hands them to the remote wrapper; the limiter in
				// force is rebuilt or resized, so a new window starts; while the server is failing the fallback keeps
				// its own rate until the recovery
				flush()
				if rapid.Bool().Draw(t, "smallGlobal") {
					gq = int32(rapid.IntRange(1, 40).Draw(t, "newGlobalQPS"))
				} else {
					gq = int32(rapid.IntRange(40, 2000).Draw(t, "newGlobalQPS"))
				}
				gb = gq + int32(rapid.IntRange(0, int(gq)).Draw(t, "newGlobalBurstExtra"))
				lq = int32(rapid.IntRange(1, int(gq)).Draw(t, "newLocalQPS"))
				m := int(gb - lq)
				if m > 10 {
					m = 10
				}
				lb = lq + int32(rapid.IntRange(0, m).Draw(t, "newLocalBurstExtra"))
				ul.Sync(schemaTB(proxyv1alpha1.GlobalCountLimit, lq, lb, gq, gb))
				remote.VerifReconcileOnce(flowcontrols.VerifReconcile(ul))
				if errorMode && errBound < lq {
					// (the fallback was sized max(metered rate, local qps) with the local qps of that time)
				}
				trace += fmt.Sprintf("schema(local=%d/%d,global=%d/%d);", lq, lb, gq, gb)
				nt = true
				sub.Class("schema-update")
			},
			"recoveryProbe": func(t *rapid.T) {
				if expired() {
					return
				}
				if !srv.cs.ready {
					t.Skip("server not ready")
				}
				// the server works again: every pending and every further request is answered with exactly the tokens asked for
				for _, p := range pending {
					deliver(p, &proxyv1alpha1.RateLimitAcquireResult{Accept: true, Limit: p.hits})
				}
				pending = nil
				resynced := false
				for k := 0; k < 12; k++ {
					hits := w.ExpectToken()
					if hits <= 0 {
						// nothing to ask for: the worker still sends a request (for 0 tokens) once 2 s have passed
						// without an answer - a resync; the server grants it
						if !resynced {
							resynced = true
							w.AddAcquiring(hits)
							trace += fmt.Sprintf("resync(ask %d);", hits)
							deliver(pend{hits, time.Now().UnixNano()}, &proxyv1alpha1.RateLimitAcquireResult{Accept: true, Limit: 0})
						}
						continue
					}
					w.AddAcquiring(hits)
					trace += fmt.Sprintf("round(ask %d);", hits)
					deliver(pend{hits, time.Now().UnixNano()}, &proxyv1alpha1.RateLimitAcquireResult{Accept: true, Limit: hits})
				}
				if errorMode {
					t.Fatalf("harness: the failure mode did not end with an accepted answer\ntrace: %s", trace)
				}
				if poisoned {
					sub.Class("probe-skipped-poisoned")
					return
				}
				if cur := w.CurrentToken(); cur < 1 {
					t.Fatalf("the limiter server answers again and grants every token it is asked for, but after 12 rounds the instance holds %d tokens: it does not ask for quota any more\ntrace: %s", cur, trace)
				}
				// the instance's own bucket (global qps) may have been drained by earlier requests: wait for one token
				if gq < 25 || rapid.IntRange(0, 2).Draw(t, "withRequest") != 0 {
					sub.Class("recovery-probe-tokens-only")
					return
				}
				time.Sleep(time.Duration(1.5*float64(time.Second)/float64(gq)) + time.Millisecond)
				ok := call("remote")
				trace += fmt.Sprintf("probe=%v;", ok)
				if !ok {
					t.Fatalf("the limiter server answers again and grants every token it is asked for, but a request is refused (tokens in hand %d): server-granted quota does not take effect after the recovery\ntrace: %s", w.CurrentToken(), trace)
				}
				sub.Class("recovery-probe")
			},
		})
		flush()
		if nt {
			sub.NonTrivial(stats.HashString(trace))
			if sub.WantSample() {
				sub.Sample(trace)
			}
		}
	})
}

type tbConf struct {
	LQ, GQ int32
	Fail   bool
}

var tbSub = stats.NewSub("count-token-bucket-missing-replies", "runs side by side with count-missing-replies (real time, about 14 s): 1-2 configurations (global-count token bucket, local qps 2..6 = burst, global qps 60..200 = burst) on the real UpstreamLimiter with its real background counter worker and reply watchdog; one request every 10 ms; the scripted limiter server grants every token asked for 2 s, then for 7 s answers every acquire call WITHOUT a result for the flow control (or fails every call), then grants again; oracle: never more than global burst + global qps*T admitted in any window of a phase (one extra burst in the phases into which the begin or the end of the failure mode can fall: the instance's bucket is rebuilt there); during the last 1.5 s of the outage at least one request is admitted (local limit, not zero); within 5 s after the recovery the instance is granted tokens again and over the following 2 s more requests are admitted than 3 x (local burst + local qps*T) (server-granted quota is in force again, not the local fallback, not nothing); non-trivial = all; distinct by FNV-64 of the configuration")

// tokenBucketOutage: grant, outage, recovery for one token-bucket schema under the count strategy, with the real worker.
func tokenBucketOutage(c tbConf, sub *stats.Sub) string {
	desc := fmt.Sprintf("%+v", c)
	srv := newServer(true) // this goroutine owns the scripted readiness
	atomic.StoreInt32(&srv.acqMode, acqGrantAsked)
	ctx, cancel := context.WithCancel(context.Background())
	defer cancel()
	ul := flowcontrols.NewUpstreamLimiter(ctx, "c1", "", srv.cs)
	defer ul.Sync(proxyv1alpha1.FlowControl{})
	flowcontrols.VerifSetLimiterType(ul, flowcontrol.RemoteFlowControls)
	ul.Sync(schemaTB(proxyv1alpha1.GlobalCountLimit, c.LQ, c.LQ, c.GQ, c.GQ))
	remote.VerifReconcileOnce(flowcontrols.VerifReconcile(ul))
	srv.cs.ready = true
	sub.Eval()
	start := time.Now()
	// run makes one request every 10 ms for d and returns the calls
	run := func(d time.Duration) []tcall {
		var out []tcall
		until := time.Now().Add(d)
		for time.Now().Before(until) {
			b := time.Since(start)
			fc := ul.GetOrDefault("s")
			ok := fc.TryAcquire()
			a := time.Since(start)
			if ok {
				fc.Release()
			}
			out = append(out, tcall{b, a, ok})
			time.Sleep(10 * time.Millisecond)
		}
		return out
	}
	admitted := func(cs []tcall) int {
		n := 0
		for _, x := range cs {
			if x.ok {
				n++
			}
		}
		return n
	}
	localMost := func(T float64) float64 { return float64(c.LQ) + float64(c.LQ)*T }
	// 1. the server grants what is asked
	p1 := run(2 * time.Second)
	if admitted(p1) == 0 {
		sub.Inconclusive() // the grants did not arrive (loaded machine): nothing to judge
		return ""
	}
	// 2. outage
	mode := int32(acqSilent)
	if c.Fail {
		mode = acqFail
	}
	atomic.StoreInt32(&srv.acqMode, mode)
	run(5500 * time.Millisecond)
	tail := run(1500 * time.Millisecond)
	if admitted(tail) == 0 {
		return fmt.Sprintf("between 5.5 s and 7 s after the limiter server stopped answering for the flow control not one of %d requests was admitted: the local limit qps=%d is not in force (%s)", len(tail), c.LQ, desc)
	}
	// 3. recovery
	tokensBefore := atomic.LoadInt64(&srv.acqTokens)
	atomic.StoreInt32(&srv.acqMode, acqGrantAsked)
	recovered := false
	for i := 0; i < 10 && !recovered; i++ {
		run(500 * time.Millisecond)
		recovered = atomic.LoadInt64(&srv.acqTokens) > tokensBefore
	}
	after := run(2 * time.Second)
	T := (after[len(after)-1].after - after[0].before).Seconds()
	// the instance's own bucket is rebuilt (full) when the failure mode begins and when it ends, so windows are judged
	// per phase, with one extra burst where such a switch can fall into the phase
	if msg := windowViolation(p1, c.GQ, c.GQ); msg != "" {
		return fmt.Sprintf("global token-bucket limit exceeded while the server granted tokens: %s (%s)", msg, desc)
	}
	if msg := windowViolation(tail, c.GQ, 2*c.GQ); msg != "" {
		return fmt.Sprintf("global token-bucket limit exceeded during the outage: %s (%s)", msg, desc)
	}
	if msg := windowViolation(after, c.GQ, 2*c.GQ); msg != "" {
		return fmt.Sprintf("global token-bucket limit exceeded after the recovery: %s (%s)", msg, desc)
	}
	if !recovered {
		return fmt.Sprintf("5 s after the limiter server answers again (it grants every token it is asked for) the instance has not asked for a single token; %d of %d requests admitted in the following %.1f s (%s)", admitted(after), len(after), T, desc)
	}
	if n := admitted(after); float64(n) <= 3*localMost(T) {
		return fmt.Sprintf("the limiter server answers again and grants every token it is asked for, but in %.1f s only %d of %d requests were admitted (the local limit alone allows %.0f, the global one all of them): server-granted quota is not in force again (%s)", T, n, len(after), localMost(T), desc)
	}
	sub.NonTrivial(stats.HashString(desc))
	sub.Class(map[bool]string{true: "calls-fail", false: "replies-without-result"}[c.Fail])
	if sub.WantSample() {
		sub.Sample(fmt.Sprintf("%s: admitted %d of %d while granted, %d of %d in the last 1.5 s of the outage, %d of %d after the recovery", desc, admitted(p1), len(p1), admitted(tail), len(tail), admitted(after), len(after)))
	}
	return ""
}

// TestReplayMissingReplyTokenBucket: regression for the fixed finding C09-missing-reply-leaks-asked-tokens (real worker,
// real time): replies without a result for the flow control for 7 s, then the server grants again.
func TestReplayMissingReplyTokenBucket(t *testing.T) {
	if msg := tokenBucketOutage(tbConf{LQ: 3, GQ: 76}, tbSub); msg != "" {
		t.Fatalf("%s", msg)
	}
}
