//go:build verif

package c11

import (
	"fmt"
	"testing"

	"pgregory.net/rapid"

	proxyv1alpha1 "github.com/kubewharf/kubegateway/pkg/apis/proxy/v1alpha1"
	gatewayclientset "github.com/kubewharf/kubegateway/pkg/client/kubernetes"
	"github.com/kubewharf/kubegateway/pkg/clusters"
	"github.com/kubewharf/kubegateway/pkg/flowcontrols/flowcontrol"
	"verifharness/internal/ctlbox"
	"verifharness/internal/gen"
	"verifharness/internal/stats"
)

// neverReady is a limiter-server client set that knows no server: the gateway runs with --rate-limiter=remote, clusters
// whose GlobalRateLimiter gate is on try to reconcile and stay on their local limits.
type neverReady struct{}

func (neverReady) GetAllClients() []gatewayclientset.Interface { return nil }
func (neverReady) ClientFor(string) (gatewayclientset.Interface, error) {
	return nil, fmt.Errorf("no limiter server")
}
func (neverReady) ShardIDFor(string) (int, error) { return 0, nil }
func (neverReady) IsReady(string) bool            { return false }
func (neverReady) ClientID() string               { return "gw-1" }

// TestPropConvergenceRemoteMode: the same history-independence on a gateway started with the remote rate limiter.
func TestPropConvergenceRemoteMode(t *testing.T) {
	sub := stats.NewSub("convergence-in-remote-limiter-mode", "rapid: 2-6 valid versions of one cluster (shared generator, global members and the GlobalRateLimiter gate allowed; one version in three takes parts back from an earlier one) applied in order with ClusterInfo.Sync to a ClusterInfo created for --rate-limiter=remote with a limiter-server client set that knows no server; oracle: fingerprint(live) == fingerprint(a ClusterInfo created from the latest version alone); non-trivial = the GlobalRateLimiter gate is switched between two versions; distinct by FNV-64 of the versions")
	noProbe := func(e *clusters.EndpointInfo) bool { return false }
	stats.Check(t, stats.N(1200, 6000), func(t *rapid.T) {
		n := rapid.IntRange(2, 6).Draw(t, "versions")
		var versions []*proxyv1alpha1.UpstreamCluster
		desc := ""
		gateFlips := 0
		for i := 0; i < n; i++ {
			obj := genObj(t, fmt.Sprintf("v%d", i), "alpha", nil)
			if i > 0 && rapid.IntRange(0, 2).Draw(t, fmt.Sprintf("v%d.restore", i)) == 0 {
				old := versions[rapid.IntRange(0, i-1).Draw(t, fmt.Sprintf("v%d.from", i))].DeepCopy()
				if rapid.Bool().Draw(t, fmt.Sprintf("v%d.annotations", i)) {
					obj.Annotations = old.Annotations
				} else {
					obj.Spec.FlowControl = old.Spec.FlowControl
					for p := range obj.Spec.DispatchPolicies {
						obj.Spec.DispatchPolicies[p].FlowControlSchemaName = ""
					}
				}
			}
			if i > 0 && gateOn(versions[i-1]) != gateOn(obj) {
				gateFlips++
			}
			versions = append(versions, obj)
			desc += gen.ClusterString(obj) + "\n"
		}
		live, err := clusters.CreateClusterInfo(versions[0], noProbe, flowcontrol.RemoteFlowControls, neverReady{})
		if err != nil {
			t.Fatalf("harness: CreateClusterInfo: %v", err)
		}
		defer live.Stop()
		for i := 1; i < n; i++ {
			if err := live.Sync(versions[i]); err != nil {
				t.Fatalf("sync of valid version %d failed: %v\n%s", i, err, desc)
			}
		}
		fresh, err := clusters.CreateClusterInfo(versions[n-1], noProbe, flowcontrol.RemoteFlowControls, neverReady{})
		if err != nil {
			t.Fatalf("harness: CreateClusterInfo: %v", err)
		}
		defer fresh.Stop()
		sub.Eval()
		a, b := ctlbox.Fingerprint(live, probes, schemaNames), ctlbox.Fingerprint(fresh, probes, schemaNames)
		if a != b {
			t.Fatalf("the live cluster (remote limiter mode) differs from one created from the latest version alone:\n%s\nversions:\n%s", diffLines(a, b), desc)
		}
		if gateFlips > 0 {
			sub.NonTrivial(stats.HashString(desc))
			sub.ClassN("global-rate-limiter-gate-switched", gateFlips)
			if sub.WantSample() {
				sub.Sample(desc)
			}
		}
	})
}

func gateOn(c *proxyv1alpha1.UpstreamCluster) bool {
	v := c.Annotations[gen.FeatureGateAnnotation]
	for _, kv := range splitComma(v) {
		if kv == "GlobalRateLimiter=true" {
			return true
		}
	}
	return false
}

func splitComma(s string) []string {
	var out []string
	cur := ""
	for _, r := range s {
		if r == ',' {
			out = append(out, cur)
			cur = ""
			continue
		}
		cur += string(r)
	}
	return append(out, cur)
}
