//go:build verif

// C11 — hot reload converges to the latest object's config, whatever the history.
package c11

import (
	"fmt"
	"strings"
	"testing"

	metav1 "k8s.io/apimachinery/pkg/apis/meta/v1"
	"pgregory.net/rapid"

	proxyv1alpha1 "github.com/kubewharf/kubegateway/pkg/apis/proxy/v1alpha1"
	"github.com/kubewharf/kubegateway/pkg/apis/proxy/v1alpha1/validation"
	"verifharness/internal/ctlbox"
	"verifharness/internal/findings"
	"verifharness/internal/gen"
	"verifharness/internal/pki"
	"verifharness/internal/stats"
)

const staleRetryFinding = "C11-stale-requeue-overwrites-newer-object"

func TestMain(m *testing.M) {
	stats.Property("C11")
	stats.Assume(
		"oracle is differential: after quiescence the live gateway's fingerprint (public accessors only: endpoints and disabled flags, MatchAttributes over a probe set, schema strings / types / behavioural limits, feature gates, server names, TLS material, name resolution) equals that of a fresh controller given only the latest stored objects",
		"only objects accepted by ValidateUpstreamCluster are used; client connection settings are constant (excluded by the property)",
		"events are delivered in API order, with duplicates; a superseded version is re-delivered only if an earlier delivery of it failed (what the passthrough queue can do): failures are provoked by a transient server-name conflict between two stored objects (admission race), which is resolved before the comparison",
		"Go runtime, pgregory.net/rapid v1.3.0",
	)
	stats.Main(m)
}

var names = []string{"alpha", "beta"}
var aliases = []string{"a.example.com", "A.EXAMPLE.com", "B.Example.com", "shared.io", "Shared.IO"}
var endpoints = []string{"http://127.0.0.1:1", "http://127.0.0.1:2", "http://127.0.0.1:3"}
var schemaNames = []string{"s1", "s2"}
var probes = func() []gen.Request {
	all := gen.ProbeRequests()
	var out []gen.Request
	for i, p := range all {
		if i%7 == 0 {
			out = append(out, p)
		}
	}
	return out
}()

func claimed(stored map[string]*proxyv1alpha1.UpstreamCluster, except string) map[string]bool {
	out := map[string]bool{}
	for n, c := range stored {
		if n == except {
			continue
		}
		out[n] = true
		for _, sn := range c.Spec.SecureServing.ServerNames {
			out[strings.ToLower(sn)] = true
		}
	}
	return out
}

func genObj(t *rapid.T, label, name string, free []string) *proxyv1alpha1.UpstreamCluster {
	obj := gen.GenValidCluster(t, label, name, gen.ObjOpts{Endpoints: endpoints, ServerNames: free, PKI: pki.WithRenewals(3), SchemaNames: schemaNames})
	if errs := validation.ValidateUpstreamCluster(obj); len(errs) > 0 {
		t.Fatalf("harness: generated object is not valid: %v", errs)
	}
	return obj
}

func fingerprintAll(b *ctlbox.Box) string {
	var sb strings.Builder
	for _, n := range names {
		ci, ok := b.Controller.Get(n)
		if !ok {
			fmt.Fprintf(&sb, "== %s: absent\n", n)
			continue
		}
		fmt.Fprintf(&sb, "== %s (%s)\n%s", n, ci.Cluster, ctlbox.Fingerprint(ci, probes, schemaNames))
	}
	for _, a := range aliases {
		fmt.Fprintf(&sb, "resolve %s -> %q\n", strings.ToLower(a), b.Owner(a))
	}
	return sb.String()
}

func diffLines(a, b string) string {
	al, bl := strings.Split(a, "\n"), strings.Split(b, "\n")
	var out []string
	for i := 0; i < len(al) || i < len(bl); i++ {
		var x, y string
		if i < len(al) {
			x = al[i]
		}
		if i < len(bl) {
			y = bl[i]
		}
		if x != y {
			out = append(out, fmt.Sprintf("  live : %s\n  fresh: %s", x, y))
			if len(out) > 6 {
				break
			}
		}
	}
	return strings.Join(out, "\n")
}

func TestPropConvergence(t *testing.T) {
	sub := stats.NewSub("convergence-vs-fresh-gateway", "rapid: history of 2-10 events over two clusters (create/update with a new valid version: servers, disabled flags, policies, schemas incl. type changes and removals, feature-gate annotation added/changed/dropped, logging, serving cert / client CA / server names; one upsert in three takes annotations / schemas / servers / policies / serving material / logging back from an EARLIER version of the cluster exactly as they were; delete; duplicate delivery; a version whose sync fails (unusable client CA / key pair stored past admission) with other fields changed too, later superseded by a valid one), optionally followed by an admission-race episode (a version claiming a name owned by the other cluster fails and is retried after newer versions were applied) and an intruder episode (an object NAMED like a server name one of the clusters owns is stored, refused by the controller and deleted again, with optional retries before and after the deletion); oracle: fingerprint(live) == fingerprint(fresh controller with only the latest objects); non-trivial = a field is removed or restored between versions of a cluster, or a retry of a superseded version is delivered after a newer one; distinct by FNV-64 of the op trace")
	known := findings.Open(staleRetryFinding)
	stats.Check(t, stats.N(3000, 12000), func(t *rapid.T) {
		live := ctlbox.New()
		defer live.Close()
		stored := map[string]*proxyv1alpha1.UpstreamCluster{}
		trace := ""
		nt := false
		unapplicable := map[string]bool{}
		history := map[string][]*proxyv1alpha1.UpstreamCluster{} // every valid version ever applied, per cluster
		sub.Eval()
		upsert := func(t *rapid.T, label, name string) {
			taken := claimed(stored, name)
			var free []string
			for _, a := range aliases {
				if !taken[strings.ToLower(a)] {
					free = append(free, a)
				}
			}
			obj := genObj(t, label, name, free)
			prev := stored[name]
			if len(history[name]) > 0 && rapid.IntRange(0, 2).Draw(t, label+".restore") == 0 {
				// parts of an EARLIER version of this cluster come back exactly as they were (set, removed, restored)
				old := rapid.SampledFrom(history[name]).Draw(t, label+".restoreFrom").DeepCopy()
				mask := rapid.IntRange(1, 63).Draw(t, label+".restoreMask")
				if mask&1 != 0 {
					obj.Annotations = old.Annotations
				}
				if mask&8 != 0 {
					mask |= 2 | 4 // policies name schemas and endpoints: they come back together
					obj.Spec.DispatchPolicies = old.Spec.DispatchPolicies
				}
				if mask&2 != 0 {
					obj.Spec.FlowControl = old.Spec.FlowControl
				}
				if mask&4 != 0 {
					obj.Spec.Servers = old.Spec.Servers
					if mask&8 == 0 {
						for i := range obj.Spec.DispatchPolicies {
							obj.Spec.DispatchPolicies[i].UpstreamSubset = nil
						}
					}
				}
				if mask&2 != 0 && mask&8 == 0 {
					for i := range obj.Spec.DispatchPolicies {
						obj.Spec.DispatchPolicies[i].FlowControlSchemaName = ""
					}
				}
				if mask&16 != 0 {
					obj.Spec.SecureServing = old.Spec.SecureServing
					var keep []string
					for _, sn := range obj.Spec.SecureServing.ServerNames {
						if !taken[strings.ToLower(sn)] {
							keep = append(keep, sn)
						}
					}
					obj.Spec.SecureServing.ServerNames = keep
				}
				if mask&32 != 0 {
					obj.Spec.Logging = old.Spec.Logging
				}
				nt = true
				sub.Class("parts-restored-from-an-earlier-version")
			}
			history[name] = append(history[name], obj)
			res, err := live.Apply(obj)
			trace += "upsert " + gen.ClusterString(obj) + "\n"
			if err != nil || res.RequeueAfter > 0 {
				t.Fatalf("sync of a valid, conflict-free object failed: err=%v requeue=%v\ntrace:\n%s", err, res.RequeueAfter, trace)
			}
			if prev != nil {
				if (prev.Annotations != nil && obj.Annotations == nil) || len(prev.Annotations[gen.FeatureGateAnnotation]) > len(obj.Annotations[gen.FeatureGateAnnotation]) ||
					len(prev.Spec.FlowControl.Schemas) > len(obj.Spec.FlowControl.Schemas) || len(prev.Spec.Servers) > len(obj.Spec.Servers) ||
					len(prev.Spec.SecureServing.CertData) > len(obj.Spec.SecureServing.CertData) || len(prev.Spec.SecureServing.ClientCAData) > len(obj.Spec.SecureServing.ClientCAData) ||
					len(prev.Spec.SecureServing.ServerNames) > len(obj.Spec.SecureServing.ServerNames) {
					nt = true
					sub.Class("field-removed")
				}
			}
			stored[name] = obj
		}
		steps := rapid.IntRange(2, 10).Draw(t, "steps")
		for i := 0; i < steps; i++ {
			name := rapid.SampledFrom(names).Draw(t, "cluster")
			switch rapid.IntRange(0, 9).Draw(t, "op") {
			case 0:
				if obj := stored[name]; obj != nil {
					delete(stored, name)
					delete(unapplicable, name)
					if _, err := live.Delete(obj); err != nil {
						t.Fatalf("delete failed: %v", err)
					}
					trace += "delete " + name + "\n"
					sub.Class("delete")
				}
			case 1:
				if obj := stored[name]; obj != nil {
					if _, err := live.Deliver(obj); err != nil {
						t.Fatalf("duplicate delivery failed: %v", err)
					}
					trace += "redeliver " + name + "\n"
				}
			case 2:
				// a version that cannot be applied (stored although admission would refuse it, e.g. written before a
				// validation rule existed): unusable client CA or key pair, together with other changes; its sync fails
				taken := claimed(stored, name)
				var free []string
				for _, a := range aliases {
					if !taken[strings.ToLower(a)] {
						free = append(free, a)
					}
				}
				bad := genObj(t, fmt.Sprintf("bad%d", i), name, free)
				// the gateway keeps serving the last applied version while this one cannot be applied, so names that
				// version owns are not given up by the failed one (otherwise another cluster could legitimately be
				// refused them until the repair, which is not what is checked here); names may be added
				if prev := stored[name]; prev != nil {
					have := map[string]bool{}
					for _, sn := range bad.Spec.SecureServing.ServerNames {
						have[strings.ToLower(sn)] = true
					}
					for _, sn := range prev.Spec.SecureServing.ServerNames {
						if !have[strings.ToLower(sn)] {
							bad.Spec.SecureServing.ServerNames = append(bad.Spec.SecureServing.ServerNames, sn)
						}
					}
				}
				if rapid.Bool().Draw(t, "badCA") {
					bad.Spec.SecureServing.ClientCAData = []byte("-----BEGIN CERTIFICATE-----\nAAAA\n-----END CERTIFICATE-----\n")
				} else {
					bad.Spec.SecureServing.CertData, bad.Spec.SecureServing.KeyData = pki.Pool(3)[0].CertPEM, pki.Pool(3)[1].KeyPEM
				}
				res, err := live.Apply(bad)
				trace += "UNAPPLICABLE upsert " + gen.ClusterString(bad) + fmt.Sprintf(" -> err=%v requeue=%v\n", err != nil, res.RequeueAfter > 0)
				if err == nil && res.RequeueAfter == 0 {
					t.Fatalf("harness: the corrupted version was applied without failure\ntrace:\n%s", trace)
				}
				nt = true
				sub.Class("failed-attempt")
				// the stored object is what the lister returns; a later valid version supersedes it
				stored[name] = bad
				unapplicable[name] = true
			default:
				upsert(t, fmt.Sprintf("v%d", i), name)
				delete(unapplicable, name)
			}
		}
		// the comparison needs latest objects that can be applied: supersede versions that cannot
		for _, name := range names {
			if unapplicable[name] {
				if rapid.Bool().Draw(t, "retryFailed."+name) {
					_, _ = live.Deliver(stored[name]) // the queue retries the failed attempt first
					trace += "RETRY of the failed version of " + name + "\n"
				}
				upsert(t, "repair."+name, name)
				delete(unapplicable, name)
			}
		}
		// optional admission-race episode
		if stored["alpha"] != nil && stored["beta"] != nil && rapid.IntRange(0, 2).Draw(t, "race") == 0 {
			// beta claims a name alpha owns (both objects got stored because their admission checks raced)
			owned := append([]string{}, stored["alpha"].Spec.SecureServing.ServerNames...)
			if len(owned) == 0 {
				// make alpha own one first
				a2 := stored["alpha"].DeepCopy()
				a2.Spec.SecureServing.ServerNames = []string{"shared.io"}
				for _, sn := range stored["beta"].Spec.SecureServing.ServerNames {
					if strings.EqualFold(sn, "shared.io") {
						a2 = nil
					}
				}
				if a2 != nil {
					if res, err := live.Apply(a2); err != nil || res.RequeueAfter > 0 {
						t.Fatalf("harness: could not give alpha an alias: %v %v", err, res)
					}
					stored["alpha"] = a2
					owned = a2.Spec.SecureServing.ServerNames
					trace += "upsert " + gen.ClusterString(a2) + "\n"
				}
			}
			if len(owned) > 0 {
				x := owned[0]
				racer := genObj(t, "racer", "beta", nil)
				racer.Spec.SecureServing.ServerNames = []string{x}
				res, err := live.Apply(racer)
				trace += "RACE upsert " + gen.ClusterString(racer) + fmt.Sprintf(" -> requeue=%v\n", res.RequeueAfter > 0)
				if err != nil {
					t.Fatalf("sync returned an error: %v", err)
				}
				if res.RequeueAfter == 0 {
					t.Fatalf("a cluster claiming a name owned by another cluster was applied without conflict\ntrace:\n%s", trace)
				}
				stored["beta"] = racer
				// newer versions resolve the conflict: alpha drops x and/or beta drops x
				a2 := stored["alpha"].DeepCopy()
				var keep []string
				for _, sn := range a2.Spec.SecureServing.ServerNames {
					if !strings.EqualFold(sn, x) {
						keep = append(keep, sn)
					}
				}
				a2.Spec.SecureServing.ServerNames = keep
				b2 := genObj(t, "betaAfterRace", "beta", nil)
				order := rapid.Permutation([]string{"alpha2", "beta2", "retry", "retry2"}).Draw(t, "raceOrder")
				newerApplied := false
				for _, ev := range order {
					switch ev {
					case "alpha2":
						if res, err := live.Apply(a2); err != nil || res.RequeueAfter > 0 {
							t.Fatalf("alpha dropping the contested name failed: %v %v\ntrace:\n%s", err, res, trace)
						}
						stored["alpha"] = a2
						trace += "upsert " + gen.ClusterString(a2) + "\n"
					case "beta2":
						if res, err := live.Apply(b2); err != nil || res.RequeueAfter > 0 {
							t.Fatalf("beta's newer conflict-free version failed: %v %v\ntrace:\n%s", err, res, trace)
						}
						stored["beta"] = b2
						newerApplied = true
						trace += "upsert " + gen.ClusterString(b2) + "\n"
					default:
						// the queue re-delivers the object of the failed attempt
						if newerApplied {
							if known {
								sub.ExcludedByKnownFinding()
								trace += "(retry of the superseded version skipped: listed finding)\n"
								continue
							}
							nt = true
							sub.Class("stale-retry-after-newer-version")
						}
						_, _ = live.Deliver(racer)
						trace += "RETRY of superseded " + racer.Name + " version claiming " + x + "\n"
					}
				}
				sub.Class("admission-race-episode")
			}
		}
		// optional intruder episode: an object NAMED like a server name that a stored cluster owns got stored (its
		// admission check raced), is refused by the controller and is deleted again; the latest objects are unchanged
		if rapid.IntRange(0, 2).Draw(t, "intruder") == 0 {
			for _, n := range names {
				obj := stored[n]
				if obj == nil || len(obj.Spec.SecureServing.ServerNames) == 0 {
					continue
				}
				x := strings.ToLower(obj.Spec.SecureServing.ServerNames[0])
				if stored[x] != nil {
					continue
				}
				intr := genObj(t, "intruder", x, nil)
				res, err := live.Apply(intr)
				if err == nil && res.RequeueAfter == 0 {
					t.Fatalf("an object named like a server name of cluster %s was applied without conflict\ntrace:\n%s", n, trace)
				}
				trace += "INTRUDER " + x + " (server name of " + n + ") stored and refused\n"
				if rapid.Bool().Draw(t, "intruderRetry") {
					_, _ = live.Deliver(intr)
				}
				if _, err := live.Delete(intr); err != nil {
					t.Fatalf("delete of the refused object failed: %v", err)
				}
				trace += "INTRUDER deleted\n"
				if rapid.Bool().Draw(t, "intruderLateRetry") {
					_, _ = live.Deliver(intr) // a queued retry of the refused object arrives after its deletion
					trace += "INTRUDER retry after the deletion\n"
				}
				nt = true
				sub.Class("refused-intruder-created-and-deleted")
				break
			}
		}
		// quiescence: compare with a fresh gateway given only the latest objects
		fresh := ctlbox.New()
		defer fresh.Close()
		for _, n := range names {
			if obj := stored[n]; obj != nil {
				if res, err := fresh.Apply(obj); err != nil || res.RequeueAfter > 0 {
					t.Fatalf("harness: fresh gateway could not apply the latest object of %s: %v %v", n, err, res)
				}
			}
		}
		lf, ff := fingerprintAll(live), fingerprintAll(fresh)
		if lf != ff {
			t.Fatalf("the live gateway differs from a fresh gateway given only the latest objects:\n%s\nhistory:\n%s", diffLines(lf, ff), trace)
		}
		if nt {
			sub.NonTrivial(stats.HashString(trace))
			if sub.WantSample() {
				sub.Sample(trace)
			}
		}
	})
}

// TestReplayStickyFeatureGates: witnesses from the design phase (feature gates stay on after removal).
func TestReplayStickyFeatureGates(t *testing.T) {
	base := func(ann map[string]string) *proxyv1alpha1.UpstreamCluster {
		c := &proxyv1alpha1.UpstreamCluster{ObjectMeta: metav1.ObjectMeta{Name: "alpha", Annotations: ann}}
		c.Spec.Servers = []proxyv1alpha1.UpstreamClusterServer{{Endpoint: "http://127.0.0.1:1"}}
		c.Spec.DispatchPolicies = []proxyv1alpha1.DispatchPolicy{{Strategy: proxyv1alpha1.RoundRobin, Rules: []proxyv1alpha1.DispatchPolicyRule{{Verbs: []string{"*"}, NonResourceURLs: []string{"*"}}}}}
		return c
	}
	for _, second := range []map[string]string{nil, {"other": "x"}, {gen.FeatureGateAnnotation: "Tracing=true"}} {
		live := ctlbox.New()
		_, _ = live.Apply(base(map[string]string{gen.FeatureGateAnnotation: "DenyAllRequests=true"}))
		_, _ = live.Apply(base(second))
		fresh := ctlbox.New()
		_, _ = fresh.Apply(base(second))
		if a, b := fingerprintAll(live), fingerprintAll(fresh); a != b {
			t.Errorf("after replacing annotations with %v:\n%s", second, diffLines(a, b))
		}
		live.Close()
		fresh.Close()
	}
}
