//go:build verif

package c07

import (
	"fmt"
	"testing"

	metav1 "k8s.io/apimachinery/pkg/apis/meta/v1"
	"pgregory.net/rapid"

	proxyv1alpha1 "github.com/kubewharf/kubegateway/pkg/apis/proxy/v1alpha1"
	"github.com/kubewharf/kubegateway/pkg/ratelimiter/limiter"
	"verifharness/internal/limbox"
	"verifharness/internal/stats"
	"verifharness/internal/vsched"
)

func mkReport(name string, quota int32, used int32) *proxyv1alpha1.RateLimitCondition {
	cond := &proxyv1alpha1.RateLimitCondition{ObjectMeta: metav1.ObjectMeta{Name: limbox.ConditionName("up", name)}}
	cond.Spec.UpstreamCluster = "up"
	cond.Spec.Instance = name
	cfg := proxyv1alpha1.RateLimitItemConfiguration{Name: "s1", Strategy: proxyv1alpha1.GlobalAllocateLimit}
	st := proxyv1alpha1.RateLimitItemStatus{Name: "s1", LimitItemDetail: item(false, used, used)}
	if quota > 0 {
		cfg.LimitItemDetail = item(false, quota, 0)
		st.RequestLevel = int32(float64(used) / float64(quota) * 100)
	}
	cond.Spec.LimitItemConfigurations = []proxyv1alpha1.RateLimitItemConfiguration{cfg}
	cond.Status.LimitItemStatuses = []proxyv1alpha1.RateLimitItemStatus{st}
	return cond
}

// TestPropOverlappingReports: concurrent overlap of honest reports (and a limit change) under a harness-owned schedule.
func TestPropOverlappingReports(t *testing.T) {
	sub := stats.NewSub("overlapping-report-schedules", "rapid + deterministic scheduler (schedule points and scheduler-aware mutexes inserted into ratelimter.go at check time): 2-3 honest instances are first driven sequentially for 0-12 rounds at full usage (so the allocation approaches the global limit 8..120), then each reports once more (and optionally the global limit is changed) as logical threads; oracle at quiescence: the quotas on record sum to at most the limit in force at the end (instances at the minimum quota 1 aside) if the sum was within the limit before, every answered quota is in [1, limit in force during the run], the recorded sum equals the actual sum; deadlock or panic is a violation; the interleaving is given by 0-5 rapid-drawn pre-emption points (decision number, thread to switch to); non-trivial = at least one report is pre-empted inside UpdateRateLimitConditionStatus while the allocation is within 25% of the limit; distinct by FNV-64 of (setup, schedule)")
	stats.Check(t, stats.N(4000, 25000), func(t *rapid.T) {
		limit := int32(rapid.IntRange(8, 120).Draw(t, "limit"))
		nInst := rapid.IntRange(2, 3).Draw(t, "instances")
		rounds := rapid.IntRange(0, 12).Draw(t, "warmupRounds")
		box := limbox.New(rapid.SampledFrom([]string{"local", "k8s"}).Draw(t, "store"), 1, "srv")
		box.LeadAll()
		mk := func(l int32) *proxyv1alpha1.UpstreamCluster {
			return limbox.Cluster("up", limbox.GlobalSchema("s1", proxyv1alpha1.GlobalAllocateLimit, false, 1, l, 0, 0))
		}
		if err := box.SetCluster(mk(limit)); err != nil {
			t.Fatalf("harness: %v", err)
		}
		names := []string{"i1", "i2", "i3"}[:nInst]
		quota := map[string]int32{}
		for r := 0; r < rounds; r++ {
			for _, n := range names {
				_ = box.Limiter.Heartbeat(n)
				out, err := box.Limiter.UpdateRateLimitConditionStatus("up", mkReport(n, quota[n], quota[n]))
				if err != nil {
					t.Fatalf("harness: warm-up report failed: %v", err)
				}
				quota[n] = out.Spec.LimitItemConfigurations[0].MaxRequestsInflight.Max
			}
		}
		var before int64
		for _, q := range quota {
			before += int64(q)
		}
		newLimit := int32(0)
		if rapid.IntRange(0, 3).Draw(t, "limitChange") == 0 {
			newLimit = int32(rapid.IntRange(8, 120).Draw(t, "newLimit"))
		}
		answers := map[string]int32{}
		errs := map[string]error{}
		var bodies []func()
		for _, n := range names {
			n := n
			rep := mkReport(n, quota[n], quota[n])
			_ = box.Limiter.Heartbeat(n)
			bodies = append(bodies, func() {
				out, err := box.Limiter.UpdateRateLimitConditionStatus("up", rep)
				if err != nil {
					errs[n] = err
					return
				}
				answers[n] = out.Spec.LimitItemConfigurations[0].MaxRequestsInflight.Max
			})
		}
		if newLimit > 0 {
			obj := mk(newLimit)
			_ = box.Controller.Indexer.Add(obj)
			bodies = append(bodies, func() { _ = box.Limiter.UpstreamConditionHandler(obj) })
		}
		s := vsched.New()
		limiter.VerifPoint, limiter.VerifLockHook = s.Point, s.LockHook
		reset := func() { limiter.VerifPoint, limiter.VerifLockHook = func(int) {}, nil }
		defer reset()
		res := s.Run(bodies, vsched.PreemptionChooser(genPreemptions(t, 40, 450)))
		reset()
		sub.Eval()
		desc := fmt.Sprintf("limit=%d newLimit=%d quotas before=%v answers=%v schedule(thread per step)=%v", limit, newLimit, quota, answers, s.Trace)
		if res.Deadlock || res.Panic != nil || res.Overrun {
			t.Fatalf("deadlock=%v panic=%v overrun=%v\n%s", res.Deadlock, res.Panic, res.Overrun, desc)
		}
		for n, e := range errs {
			t.Fatalf("report of %s failed: %v\n%s", n, e, desc)
		}
		maxLimit, final := limit, limit
		if newLimit > 0 {
			final = newLimit
			if newLimit > maxLimit {
				maxLimit = newLimit
			}
		}
		var after int64
		ones := 0
		for n, a := range answers {
			if a < 1 || a > maxLimit {
				t.Fatalf("instance %s was answered quota %d outside [1, %d]\n%s", n, a, maxLimit, desc)
			}
			after += int64(a)
			if a == 1 {
				ones++
			}
		}
		if before <= int64(limit) && newLimit == 0 && after > int64(final)+int64(ones) {
			t.Fatalf("the quotas on record summed to %d <= limit %d before the overlapping reports and sum to %d afterwards\n%s", before, limit, after, desc)
		}
		state, err := box.Limiter.GetUpstreamStatus("up")
		if err != nil {
			t.Fatalf("GetUpstreamStatus: %v", err)
		}
		for _, it := range state.Status.LimitItemStatuses {
			if it.Name == "s1" && it.MaxRequestsInflight != nil && int64(it.MaxRequestsInflight.Max) != after {
				t.Fatalf("recorded sum %d differs from the sum of the answers %d\n%s", it.MaxRequestsInflight.Max, after, desc)
			}
		}
		switches := vsched.Switches(s.Trace)
		if switches >= 1 && before*4 >= int64(limit)*3 {
			sub.NonTrivial(stats.HashString(desc))
			sub.Class("interleaved-near-limit")
			if sub.WantSample() {
				sub.Sample(desc)
			}
		}
	})
}

// genPreemptions draws 0-5 pre-emption points; half of them early (decision < early), the rest anywhere below max.
func genPreemptions(t *rapid.T, early, max int) []vsched.Preempt {
	n := rapid.IntRange(0, 5).Draw(t, "npreemptions")
	var ps []vsched.Preempt
	for i := 0; i < n; i++ {
		hi := max
		if rapid.Bool().Draw(t, fmt.Sprintf("preempt[%d].early", i)) {
			hi = early
		}
		ps = append(ps, vsched.Preempt{At: rapid.IntRange(0, hi).Draw(t, fmt.Sprintf("preempt[%d].at", i)), Pick: rapid.IntRange(0, 2).Draw(t, fmt.Sprintf("preempt[%d].pick", i))})
	}
	return ps
}
