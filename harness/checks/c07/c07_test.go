//go:build verif

// C07 — global allocation: quotas never exceed the global limit and are never < 1.
package c07

import (
	"fmt"
	"math"
	"testing"
	"time"

	metav1 "k8s.io/apimachinery/pkg/apis/meta/v1"
	"pgregory.net/rapid"

	proxyv1alpha1 "github.com/kubewharf/kubegateway/pkg/apis/proxy/v1alpha1"
	"github.com/kubewharf/kubegateway/pkg/ratelimiter/limiter"
	"verifharness/internal/limbox"
	"verifharness/internal/stats"
)

func TestMain(m *testing.M) {
	stats.Property("C07")
	stats.Assume(
		"oracle is the validity predicate of the property statement: 1 <= quota <= limit; sum on record <= limit stays <= limit unless the answered quota is the minimum 1; sum > limit => the answered quota does not grow (a new instance gets the minimum 1); token-bucket burst in [0, global burst] and within 1 of quota/limit*burst",
		"instances are honest: they report the configuration last answered to them and a usage derived from it (the gateway's own formula for the request level, plus arbitrary levels in the pure check)",
		"the limiter is the real rateLimiter assembled by the verif hook around the real leader elector (driven by leadership events through a hook, no leases) and a lister over a plain indexer; stores: local and API-backed write-through over the fake clientset",
		"Go runtime, pgregory.net/rapid v1.3.0",
	)
	stats.Main(m)
}

type quotaCase struct {
	TB         bool
	Total      int32
	Burst      int32
	Allocated  int32
	AllocBurst int32
	Current    int32
	Used       int32
	Level      int32
	GlobalLvl  int32
	Clients    int
}

func genInt32Around(t *rapid.T, label string, lo, hi int32) int32 {
	if hi < lo {
		hi = lo
	}
	return int32(rapid.IntRange(int(lo), int(hi)).Draw(t, label))
}

func genQuotaCase(t *rapid.T) quotaCase {
	c := quotaCase{}
	c.TB = rapid.Bool().Draw(t, "tokenBucket")
	// totals: small values are where the floors and ceilings interact
	switch rapid.IntRange(0, 3).Draw(t, "totalClass") {
	case 0:
		c.Total = genInt32Around(t, "total", 1, 20)
	case 1:
		c.Total = genInt32Around(t, "total", 1, 1000)
	default:
		c.Total = genInt32Around(t, "total", 1, 100000)
	}
	if c.TB {
		c.Burst = c.Total + genInt32Around(t, "burstExtra", 0, c.Total)
		if rapid.IntRange(0, 3).Draw(t, "burstBelowQPS") == 0 {
			// a global burst below the global qps is legal (validation only demands global >= local for each value)
			c.Burst = genInt32Around(t, "smallBurst", 1, c.Total)
		}
	}
	c.Clients = rapid.IntRange(1, 50).Draw(t, "clients")
	switch rapid.IntRange(0, 4).Draw(t, "allocatedClass") {
	case 0:
		c.Allocated = genInt32Around(t, "allocated", 0, c.Total)
	case 1: // within 10% of total
		lo := c.Total - c.Total/10
		c.Allocated = genInt32Around(t, "allocated", lo, c.Total)
	case 2:
		c.Allocated = c.Total
	default: // over-allocated (limit was lowered)
		c.Allocated = genInt32Around(t, "allocated", c.Total+1, 2*c.Total+10)
	}
	if c.Allocated == 0 || rapid.IntRange(0, 3).Draw(t, "newInstance") == 0 {
		c.Current = 0
	} else {
		c.Current = genInt32Around(t, "current", 1, c.Allocated)
	}
	if c.Current > 0 {
		c.Used = genInt32Around(t, "used", 0, c.Current+c.Current/2)
		if rapid.Bool().Draw(t, "honestLevel") {
			c.Level = int32(float64(c.Used) / float64(c.Current) * 100)
		} else {
			c.Level = genInt32Around(t, "level", 0, 200)
		}
	} else if rapid.IntRange(0, 4).Draw(t, "newInstanceReportsUsage") == 0 {
		c.Used = genInt32Around(t, "used", 0, c.Total)
	}
	c.GlobalLvl = genInt32Around(t, "globalLevel", 0, 150)
	return c
}

func item(tb bool, q, burst int32) proxyv1alpha1.LimitItemDetail {
	if tb {
		return proxyv1alpha1.LimitItemDetail{TokenBucket: &proxyv1alpha1.TokenBucketFlowControlSchema{QPS: q, Burst: burst}}
	}
	return proxyv1alpha1.LimitItemDetail{MaxRequestsInflight: &proxyv1alpha1.MaxRequestsInflightFlowControlSchema{Max: q}}
}

func quotaOf(d proxyv1alpha1.LimitItemDetail, tb bool) (int32, int32, bool) {
	if tb {
		if d.TokenBucket == nil {
			return 0, 0, false
		}
		return d.TokenBucket.QPS, d.TokenBucket.Burst, true
	}
	if d.MaxRequestsInflight == nil {
		return 0, 0, false
	}
	return d.MaxRequestsInflight.Max, 0, true
}

func runCalc(c quotaCase) (next, burst int32, ok bool) {
	total := proxyv1alpha1.RateLimitItemConfiguration{Name: "s", LimitItemDetail: item(c.TB, c.Total, c.Burst)}
	used := proxyv1alpha1.RateLimitItemStatus{Name: "s", LimitItemDetail: item(c.TB, c.Allocated, c.AllocBurst), RequestLevel: c.GlobalLvl}
	cfg := proxyv1alpha1.RateLimitItemConfiguration{Name: "s", Strategy: proxyv1alpha1.GlobalAllocateLimit}
	if c.Current > 0 {
		cfg.LimitItemDetail = item(c.TB, c.Current, c.Current)
	}
	st := proxyv1alpha1.RateLimitItemStatus{Name: "s", LimitItemDetail: item(c.TB, c.Used, c.Used), RequestLevel: c.Level}
	cond := &proxyv1alpha1.RateLimitCondition{ObjectMeta: metav1.ObjectMeta{Name: "up.i"}}
	out := limiter.VerifCalculateNextQuota(total, used, cfg, st, c.Clients, cond)
	return quotaOf(out.LimitItemDetail, c.TB)
}

// checkQuota is the validity predicate; returns "" when the answer is allowed.
func checkQuota(tb bool, total, globalBurst, sumBefore, current, next, burst int32) string {
	if next < 1 {
		return fmt.Sprintf("answered quota %d is below the minimum of 1", next)
	}
	if next > total {
		return fmt.Sprintf("answered quota %d exceeds the global limit %d", next, total)
	}
	if sumBefore <= total {
		if after := int64(sumBefore) - int64(current) + int64(next); after > int64(total) && next != 1 {
			return fmt.Sprintf("sum on record was %d <= limit %d; answering %d (previous quota %d) makes it %d > limit", sumBefore, total, next, current, after)
		}
	} else {
		max := current
		if max < 1 {
			max = 1
		}
		if next > max {
			return fmt.Sprintf("sum on record %d exceeds the limit %d but the quota grew %d -> %d", sumBefore, total, current, next)
		}
	}
	if tb {
		if burst < 0 || burst > globalBurst {
			return fmt.Sprintf("answered burst %d outside [0, global burst %d]", burst, globalBurst)
		}
		want := float64(next) / float64(total) * float64(globalBurst)
		if math.Abs(float64(burst)-want) > 1.0001 {
			return fmt.Sprintf("answered burst %d is not the global burst scaled with the quota (quota %d of %d, global burst %d => %.2f)", burst, next, total, globalBurst, want)
		}
	}
	return ""
}

// TestPropCalculateNextQuota: the allocation arithmetic for every numeric input.
func TestPropCalculateNextQuota(t *testing.T) {
	sub := stats.NewSub("calculateNextQuota", "rapid: (type, global limit 1..1e5, burst (above the limit or, one time in four, in 1..limit), clients 1..50, sum on record 0..2*limit+10, previous quota 0 or 1..sum, reported usage, request level honest or 0..200, global level 0..150) -> calculateNextQuota (hook); oracle = validity predicate of the statement; non-trivial = sum on record within 10% of the limit or above it, or previous quota 0; distinct by FNV-64 of the tuple")
	stats.Check(t, stats.N(200000, 3000000), func(t *rapid.T) {
		c := genQuotaCase(t)
		next, burst, ok := runCalc(c)
		sub.Eval()
		if !ok {
			t.Fatalf("answer has no limit member for the schema type: case %+v", c)
		}
		nt := c.Current == 0 || c.Allocated > c.Total || int64(c.Allocated)*10 >= int64(c.Total)*9
		if nt {
			sub.NonTrivial(stats.Hash(c))
		}
		switch {
		case c.Allocated > c.Total:
			sub.Class("sum-over-limit")
		case c.Allocated == c.Total:
			sub.Class("sum-equals-limit")
		default:
			sub.Class("sum-below-limit")
		}
		if c.Current == 0 {
			sub.Class("new-instance")
		}
		if sub.WantSample() && nt {
			sub.Sample(map[string]interface{}{"case": fmt.Sprintf("%+v", c), "answered_quota": next, "answered_burst": burst})
		}
		if msg := checkQuota(c.TB, c.Total, c.Burst, c.Allocated, c.Current, next, burst); msg != "" {
			t.Fatalf("%s\ncase: %+v", msg, c)
		}
	})
}

// ---- history check through the real UpdateRateLimitConditionStatus ---------------------------

type schemaModel struct {
	tb    bool
	total int32
	burst int32
}

type instState struct {
	quota map[string]proxyv1alpha1.LimitItemDetail // last answered per schema
}

func buildCluster(schemas map[string]schemaModel, order []string) *proxyv1alpha1.UpstreamCluster {
	var ss []proxyv1alpha1.FlowControlSchema
	for _, n := range order {
		m := schemas[n]
		local := m.total/4 + 1
		ss = append(ss, limbox.GlobalSchema(n, proxyv1alpha1.GlobalAllocateLimit, m.tb, local, m.total, local, m.burst))
	}
	return limbox.Cluster("up", ss...)
}

func TestPropReportHistories(t *testing.T) {
	sub := stats.NewSub("report-histories", "rapid state machine on the real limiter (local store / API-backed write-through store; token-bucket schemas with a global burst of 1-2 times the global qps or, one time in four, below it): ops remove a schema (1-3 schemas per upstream), report(instance, usage) by honest instances, new instance, change of the global limit (cluster object -> UpstreamConditionHandler), reclaim of a silent instance; after every report: answered quota in [1, limit], the two sum clauses against the model's sum of last answers, store contents (ListUpstream) = model, recorded status sum in <upstream>.state = actual sum; non-trivial = history contains a limit change or a report while the sum is within 10% of / above the limit; distinct by FNV-64 of the op trace")
	stats.Check(t, stats.N(1500, 25000), func(t *rapid.T) {
		storeKind := rapid.SampledFrom([]string{"local", "k8s"}).Draw(t, "store")
		box := limbox.New(storeKind, 1, "srv")
		box.LeadAll()
		order := []string{"s1"}
		schemas := map[string]schemaModel{}
		if rapid.Bool().Draw(t, "twoSchemas") {
			order = append(order, "s2")
			if rapid.Bool().Draw(t, "threeSchemas") {
				order = append(order, "s3")
			}
		}
		genSchema := func(label string, keepType *bool) schemaModel {
			m := schemaModel{}
			if keepType != nil {
				m.tb = *keepType
			} else {
				m.tb = rapid.Bool().Draw(t, label+".tb")
			}
			if rapid.Bool().Draw(t, label+".small") {
				m.total = int32(rapid.IntRange(1, 30).Draw(t, label+".total"))
			} else {
				m.total = int32(rapid.IntRange(1, 3000).Draw(t, label+".total"))
			}
			if m.tb {
				m.burst = m.total + int32(rapid.IntRange(0, int(m.total)).Draw(t, label+".burstExtra"))
				if local := m.total/4 + 1; local < m.total && rapid.IntRange(0, 3).Draw(t, label+".burstBelowQPS") == 0 {
					// a global burst below the global qps is legal: validation only demands that it is not below the local burst
					m.burst = int32(rapid.IntRange(int(local), int(m.total)).Draw(t, label+".smallBurst"))
				}
			}
			return m
		}
		for _, n := range order {
			schemas[n] = genSchema("init."+n, nil)
		}
		if err := box.SetCluster(buildCluster(schemas, order)); err != nil {
			t.Fatalf("harness: SetCluster: %v", err)
		}
		insts := map[string]*instState{}
		trace := ""
		nt := false
		sumOf := func(schema string) int64 {
			var s int64
			for _, st := range insts {
				q, _, _ := quotaOf(st.quota[schema], schemas[schema].tb)
				s += int64(q)
			}
			return s
		}
		sub.Eval()
		t.Repeat(map[string]func(*rapid.T){
			"report": func(t *rapid.T) {
				name := rapid.SampledFrom([]string{"i1", "i2", "i3", "i4", "i5"}).Draw(t, "instance")
				st := insts[name]
				isNew := st == nil
				if isNew {
					st = &instState{quota: map[string]proxyv1alpha1.LimitItemDetail{}}
				}
				_ = box.Limiter.Heartbeat(name)
				cond := &proxyv1alpha1.RateLimitCondition{ObjectMeta: metav1.ObjectMeta{Name: limbox.ConditionName("up", name)}}
				cond.Spec.UpstreamCluster = "up"
				cond.Spec.Instance = name
				before := map[string]int64{}
				prev := map[string]int32{}
				for _, n := range order {
					m := schemas[n]
					cfg := proxyv1alpha1.RateLimitItemConfiguration{Name: n, Strategy: proxyv1alpha1.GlobalAllocateLimit}
					cur, _, has := quotaOf(st.quota[n], m.tb)
					status := proxyv1alpha1.RateLimitItemStatus{Name: n}
					if has {
						q0 := st.quota[n]
						cfg.LimitItemDetail = *q0.DeepCopy()
						used := int32(rapid.IntRange(0, int(cur)+int(cur)/5+1).Draw(t, "used."+n))
						status.LimitItemDetail = item(m.tb, used, used)
						if cur > 0 {
							status.RequestLevel = int32(float64(used) / float64(cur) * 100)
						}
					} else {
						used := int32(rapid.IntRange(0, 3).Draw(t, "used."+n))
						status.LimitItemDetail = item(m.tb, used, used)
					}
					cond.Spec.LimitItemConfigurations = append(cond.Spec.LimitItemConfigurations, cfg)
					cond.Status.LimitItemStatuses = append(cond.Status.LimitItemStatuses, status)
					before[n] = sumOf(n)
					prev[n] = cur
					if before[n]*10 >= int64(m.total)*9 {
						nt = true
					}
				}
				out, err := box.Limiter.UpdateRateLimitConditionStatus("up", cond)
				if err != nil {
					t.Fatalf("UpdateRateLimitConditionStatus(%s) failed: %v (trace %s)", name, err, trace)
				}
				trace += fmt.Sprintf("report(%s);", name)
				answered := map[string]proxyv1alpha1.LimitItemDetail{}
				for _, c := range out.Spec.LimitItemConfigurations {
					answered[c.Name] = c.LimitItemDetail
				}
				for _, n := range order {
					m := schemas[n]
					a, ok := answered[n]
					if !ok {
						t.Fatalf("no answer for schema %s (trace %s)", n, trace)
					}
					q, b, has := quotaOf(a, m.tb)
					if !has {
						t.Fatalf("answer for schema %s has no member of the schema's type: %+v", n, a)
					}
					sb := before[n]
					if sb > math.MaxInt32 {
						sb = math.MaxInt32
					}
					if msg := checkQuota(m.tb, m.total, m.burst, int32(sb), prev[n], q, b); msg != "" {
						t.Fatalf("schema %s instance %s: %s\ntrace: %s", n, name, msg, trace)
					}
					st.quota[n] = *a.DeepCopy()
				}
				insts[name] = st
				// the sum the server keeps on record (status of <upstream>.state) is the actual sum of the answers
				state, err := box.Limiter.GetUpstreamStatus("up")
				if err != nil {
					t.Fatalf("GetUpstreamStatus: %v", err)
				}
				for _, it := range state.Status.LimitItemStatuses {
					if _, known := schemas[it.Name]; !known {
						continue
					}
					q, _, _ := quotaOf(it.LimitItemDetail, schemas[it.Name].tb)
					if int64(q) != sumOf(it.Name) {
						t.Fatalf("recorded sum for schema %s is %d, the quotas answered sum to %d (trace %s)", it.Name, q, sumOf(it.Name), trace)
					}
				}
				if isNew {
					sub.Class("first-report")
				} else {
					sub.Class("repeat-report")
				}
			},
			"changeLimit": func(t *rapid.T) {
				n := rapid.SampledFrom(order).Draw(t, "schema")
				old := schemas[n]
				schemas[n] = genSchema("new."+n, &old.tb)
				if err := box.SetCluster(buildCluster(schemas, order)); err != nil {
					t.Fatalf("harness: SetCluster: %v", err)
				}
				trace += fmt.Sprintf("limit(%s:%d->%d);", n, old.total, schemas[n].total)
				nt = true
				sub.Class("limit-change")
			},
			"removeSchema": func(t *rapid.T) {
				// a schema disappears from the upstream's configuration; the instances' records keep listing it until they
				// report again, the accounting of the remaining schemas must not notice
				if len(order) < 2 {
					t.Skip("only one schema left")
				}
				i := rapid.IntRange(0, len(order)-1).Draw(t, "which")
				gone := order[i]
				order = append(append([]string{}, order[:i]...), order[i+1:]...)
				delete(schemas, gone)
				if err := box.SetCluster(buildCluster(schemas, order)); err != nil {
					t.Fatalf("harness: SetCluster: %v", err)
				}
				trace += fmt.Sprintf("removeSchema(%s);", gone)
				nt = true
				sub.Class("schema-removed")
			},
			"reclaim": func(t *rapid.T) {
				if len(insts) == 0 {
					t.Skip("no instance")
				}
				var names []string
				for _, n := range []string{"i1", "i2", "i3", "i4", "i5"} {
					if insts[n] != nil {
						names = append(names, n)
					}
				}
				name := rapid.SampledFrom(names).Draw(t, "instance")
				box.Limiter.VerifSetLastHeartbeat(name, time.Now().Add(-time.Hour))
				// one cleanup pass = the 1 s pass and the 30 s pass once each (after a single report the condition
				// carries an empty instance label and is only found by the second one)
				if !box.CleanupPass() {
					sub.Inconclusive()
					t.Skip("cleanup goroutines did not finish in time")
				}
				store := box.Limiter.VerifStore(0)
				if !limbox.WaitUntil(5*time.Second, func() bool {
					_, err := store.Get("up", limbox.ConditionName("up", name))
					return err != nil
				}) {
					t.Fatalf("condition of silent instance %s was not removed by the cleanup pass (trace %s)", name, trace)
				}
				delete(insts, name)
				trace += fmt.Sprintf("reclaim(%s);", name)
				sub.Class("reclaim")
			},
			"": func(t *rapid.T) {
				store := box.Limiter.VerifStore(0)
				if store == nil {
					t.Fatalf("harness: no store")
				}
				// store contents = model
				got := map[string]map[string]int64{}
				for _, c := range store.ListUpstream("up") {
					if c.Name == "up.state" {
						continue
					}
					got[c.Spec.Instance] = map[string]int64{}
					for _, it := range c.Spec.LimitItemConfigurations {
						q, _, _ := quotaOf(it.LimitItemDetail, schemas[it.Name].tb)
						got[c.Spec.Instance][it.Name] = int64(q)
					}
				}
				if len(got) != len(insts) {
					t.Fatalf("store holds conditions of %d instances, model has %d (trace %s)", len(got), len(insts), trace)
				}
				for name, st := range insts {
					for _, n := range order {
						q, _, _ := quotaOf(st.quota[n], schemas[n].tb)
						if got[name][n] != int64(q) {
							t.Fatalf("store has quota %d for %s/%s, last answer was %d (trace %s)", got[name][n], name, n, q, trace)
						}
					}
				}
			},
		})
		if nt {
			sub.NonTrivial(stats.HashString(storeKind + trace + fmt.Sprint(schemas)))
			if sub.WantSample() {
				sub.Sample(map[string]interface{}{"store": storeKind, "trace": trace, "final_schemas": fmt.Sprintf("%+v", schemas)})
			}
		}
		sub.Class("store=" + storeKind)
	})
}

// TestReplayWitnesses: failures observed on the pinned tree.
func TestReplayWitnesses(t *testing.T) {
	cases := []quotaCase{
		{Total: 1, Allocated: 1, Current: 0, Clients: 1},                                            // new instance at full allocation: was 0
		{Total: 100, Allocated: 800, Current: 400, Used: 300, Level: 75, GlobalLvl: 80, Clients: 2}, // limit lowered 1000 -> 100: was -300
		{Total: 10, Allocated: 100, Current: 55, Used: 10, Level: 18, GlobalLvl: 20, Clients: 2},    // was -35
		{TB: true, Total: 10, Burst: 20, Allocated: 100, AllocBurst: 100, Current: 55, Used: 50, Level: 90, GlobalLvl: 90, Clients: 2},
	}
	for _, c := range cases {
		next, burst, _ := runCalc(c)
		if msg := checkQuota(c.TB, c.Total, c.Burst, c.Allocated, c.Current, next, burst); msg != "" {
			t.Errorf("%s (case %+v)", msg, c)
		}
	}
}
