//go:build verif

package c04

import (
	"bytes"
	"context"
	"fmt"
	"net/http"
	"net/textproto"
	"net/url"
	"strings"
	"sync/atomic"
	"testing"
	"time"

	"pgregory.net/rapid"

	"verifharness/internal/gwbox"
	"verifharness/internal/stats"
)

// TestPropUpgradedConnections: exec / attach / port-forward / websocket style requests. The gateway opens its own
// connection to the upstream, relays the upgrade request and, after a 101 answer, splices the two connections.
func TestPropUpgradedConnections(t *testing.T) {
	sub := stats.NewSub("upgraded-connections", "rapid: GET / POST with 'Connection: Upgrade' and an Upgrade protocol (SPDY/3.1, websocket, any token), k8s-shaped path with generated segments, query (repeated keys, escapes), 0-4 end-to-end headers, prior X-Forwarded-For; the stub upstream either switches protocols (101 + 0-2 headers, then a greeting and an XOR echo of every byte it receives) or refuses with a scripted status and body; after a 101 the client writes 1-3 generated chunks (1 B..64 KiB); oracle: the stub received the method, decoded path, query (key -> ordered values), Upgrade protocol, end-to-end headers and exactly the gateway credential / the authenticated identity; the client received the stub's 101 headers, the greeting and the echo of exactly its bytes, in order, and the stub received exactly the bytes the client wrote; a refusal reaches the client with the stub's status and body; non-trivial = a query, an escaped path, > 1 chunk or a refusal; distinct by FNV-64 of the description")
	stats.Check(t, stats.N(1200, 8000), func(t *rapid.T) {
		method := rapid.SampledFrom([]string{"GET", "POST"}).Draw(t, "method")
		decPath, wirePath := genPath(t)
		rawQuery := genQuery(t)
		if rapid.IntRange(0, 2).Draw(t, "execQuery") == 0 {
			// the shape of a real exec request
			rawQuery = "command=ls&command=-l&container=main&stdout=true" + map[bool]string{true: "&" + rawQuery, false: ""}[rawQuery != ""]
		}
		target := wirePath
		if rawQuery != "" {
			target += "?" + rawQuery
		}
		proto := rapid.SampledFrom([]string{"SPDY/3.1", "websocket", "WebSocket", "x-custom-proto"}).Draw(t, "protocol")
		reqID := fmt.Sprintf("c04u-%d", atomic.AddInt64(&seq, 1))
		headers := [][2]string{{gwbox.IDHeader, reqID}, {"Authorization", "Bearer client-token"}}
		sent := http.Header{}
		for i, nh := 0, rapid.IntRange(0, 4).Draw(t, "nheaders"); i < nh; i++ {
			name := rapid.SampledFrom([]string{"X-Custom-A", "x-custom-b", "X-Stream-Protocol-Version", "Sec-Websocket-Protocol", "Sec-Websocket-Key", "Cookie", "X-Request-Id"}).Draw(t, fmt.Sprintf("h[%d].name", i))
			v := rapid.SampledFrom([]string{"v4.channel.k8s.io", "v", "a, b", "dGhlIHNhbXBsZSBub25jZQ==", "x=y; z"}).Draw(t, fmt.Sprintf("h[%d].val", i))
			headers = append(headers, [2]string{name, v})
			sent.Add(name, v)
		}
		var priorXFF []string
		if rapid.IntRange(0, 3).Draw(t, "xff") == 0 {
			priorXFF = []string{"10.0.0.1"}
			headers = append(headers, [2]string{"X-Forwarded-For", "10.0.0.1"})
		}
		refuse := rapid.IntRange(0, 4).Draw(t, "refuse") == 0
		rep := &gwbox.Reply{Header: http.Header{}}
		if refuse {
			rep.Status = rapid.SampledFrom([]int{400, 403, 404, 500}).Draw(t, "refusalStatus")
			rep.Body = []byte(rapid.SampledFrom([]string{"", "no such container", "{\"kind\":\"Status\",\"code\":403}"}).Draw(t, "refusalBody"))
		} else {
			rep.Upgrade = proto
			for i, n := 0, rapid.IntRange(0, 2).Draw(t, "n101headers"); i < n; i++ {
				rep.Header.Add(rapid.SampledFrom([]string{"X-Stream-Protocol-Version", "Sec-Websocket-Accept", "X-Resp-A"}).Draw(t, fmt.Sprintf("rh[%d]", i)), rapid.SampledFrom([]string{"v4.channel.k8s.io", "s3pPLMBiTxaQ9kYGzzhZRbK+xOo=", "v"}).Draw(t, fmt.Sprintf("rhv[%d]", i)))
			}
			rep.Body = genChunk(t, "greeting", 200)
		}
		var writes [][]byte
		total := 0
		for i, n := 0, rapid.IntRange(1, 3).Draw(t, "nwrites"); i < n; i++ {
			w := genChunk(t, fmt.Sprintf("write[%d]", i), 1<<16)
			if len(w) == 0 {
				w = []byte{byte(i)}
			}
			writes = append(writes, w)
			total += len(w)
		}
		pool.SetReply(reqID, rep)
		defer pool.Forget(reqID)
		ctx, cancel := context.WithTimeout(context.Background(), 20*time.Second)
		resp := gateway.Do(ctx, gwbox.RawRequest{Method: method, Target: target, Host: "alpha", Headers: headers, Upgrade: proto, UpgradeWrites: writes, UpgradeExpect: len(rep.Body) + total})
		cancel()
		sub.Eval()
		desc := fmt.Sprintf("%s %s (decoded path %q) Upgrade: %s headers %q; upstream %s, greeting %d B, client writes %d chunks / %d B", method, target, decPath, proto, headers[2:], map[bool]string{true: fmt.Sprintf("refuses with %d", rep.Status), false: "switches protocols"}[refuse], len(rep.Body), len(writes), total)
		seen := pool.Find(reqID)
		if len(seen) != 1 {
			t.Fatalf("upgrade request was seen by %d upstreams (client got %d, err %v)\n%s", len(seen), resp.Status, resp.Err, desc)
		}
		s := seen[0]
		// ---- request fidelity
		if s.Method != method {
			t.Fatalf("upstream received method %s\n%s", s.Method, desc)
		}
		if s.Path != decPath {
			t.Fatalf("upstream received path %q (escaped %q), the client sent %q (decoded %q)\n%s", s.Path, s.RawPath, wirePath, decPath, desc)
		}
		wantQ, _ := url.ParseQuery(rawQuery)
		gotQ, _ := url.ParseQuery(s.RawQuery)
		if fmt.Sprint(wantQ) != fmt.Sprint(gotQ) {
			t.Fatalf("upstream received query %q = %v, the client sent %q = %v\n%s", s.RawQuery, gotQ, rawQuery, wantQ, desc)
		}
		if got := s.Header.Get("Upgrade"); got != proto {
			t.Fatalf("upstream received Upgrade %q, the client asked for %q\n%s", got, proto, desc)
		}
		if !strings.EqualFold(s.Header.Get("Connection"), "upgrade") {
			t.Fatalf("upstream received Connection %q for an upgrade request\n%s", s.Header["Connection"], desc)
		}
		for name, vals := range sent {
			c := textproto.CanonicalMIMEHeaderKey(name)
			if got := s.Header[c]; fmt.Sprintf("%q", got) != fmt.Sprintf("%q", vals) {
				t.Fatalf("end-to-end header %s: upstream received %q, the client sent %q\n%s", c, got, vals, desc)
			}
		}
		// the upgrade path adds the impersonation headers but not a bearer-token gateway credential (client-go's bearer
		// wrapper does not implement WrapRequest; certificates work at the TLS layer): none or the gateway's, never the client's
		if a := s.Header["Authorization"]; len(a) > 1 || (len(a) == 1 && a[0] != "Bearer gateway-secret-token") {
			t.Fatalf("upstream received Authorization %q on the upgrade request\n%s", a, desc)
		}
		if u := s.Header["Impersonate-User"]; len(u) != 1 || u[0] != "alice" {
			t.Fatalf("upstream is told to act as %q on the upgrade request, the authenticated user is alice\n%s", u, desc)
		}
		if g := s.Header["Impersonate-Group"]; fmt.Sprint(g) != "[dev]" && fmt.Sprint(g) != "[dev system:authenticated]" {
			t.Fatalf("upstream is told groups %q on the upgrade request, the authenticated user has [dev]\n%s", g, desc)
		}
		if x := splitList(s.Header["X-Forwarded-For"]); fmt.Sprint(x) != fmt.Sprint(append(append([]string{}, priorXFF...), "127.0.0.1")) {
			t.Fatalf("upstream received X-Forwarded-For %q, expected prior values %q + client address\n%s", x, priorXFF, desc)
		}
		for name, vals := range s.Header {
			switch {
			case name == "Authorization", name == "X-Forwarded-For", name == "Upgrade", name == "Connection", strings.HasPrefix(name, "Impersonate-"), name == "User-Agent", name == "Content-Length", name == gwbox.IDHeader, name == "Accept-Encoding":
			default:
				found := false
				for k := range sent {
					if textproto.CanonicalMIMEHeaderKey(k) == name {
						found = true
					}
				}
				if !found {
					t.Fatalf("upstream received header %s: %q on the upgrade request, which the client did not send\n%s", name, vals, desc)
				}
			}
		}
		// ---- answer fidelity
		if refuse {
			if resp.Err != nil {
				t.Fatalf("client did not get the upstream's refusal: %v\n%s", resp.Err, desc)
			}
			if resp.Status != rep.Status || !bytes.Equal(resp.Body, rep.Body) {
				t.Fatalf("the upstream refused the upgrade with %d %q, the client received %d %q\n%s", rep.Status, rep.Body, resp.Status, trunc(resp.Body), desc)
			}
			sub.Class("upgrade-refused-by-upstream")
		} else {
			if resp.Status != http.StatusSwitchingProtocols {
				t.Fatalf("the upstream switched protocols, the client received status %d (err %v)\n%s", resp.Status, resp.Err, desc)
			}
			if got := resp.Header.Get("Upgrade"); got != proto {
				t.Fatalf("client received Upgrade %q in the 101 answer, the upstream sent %q\n%s", got, proto, desc)
			}
			for name, vals := range rep.Header {
				if got := resp.Header[name]; fmt.Sprintf("%q", got) != fmt.Sprintf("%q", vals) {
					t.Fatalf("101 answer header %s: client received %q, the upstream sent %q\n%s", name, got, vals, desc)
				}
			}
			want := append([]byte{}, rep.Body...)
			for _, w := range writes {
				for _, b := range w {
					want = append(want, b^0x5a)
				}
			}
			if !bytes.Equal(resp.Upgraded, want) {
				t.Fatalf("after the upgrade the client received %d bytes, the upstream sent %d (first difference at %d, err %v)\n%s", len(resp.Upgraded), len(want), firstDiff(resp.Upgraded, want), resp.Err, desc)
			}
			var all []byte
			for _, w := range writes {
				all = append(all, w...)
			}
			// the stub has echoed everything, so it has received everything
			got := pool.Find(reqID)
			if len(got) != 1 || !bytes.Equal(got[0].UpgradeIn, all) {
				t.Fatalf("after the upgrade the upstream received %d bytes, the client wrote %d\n%s", len(got[0].UpgradeIn), len(all), desc)
			}
			sub.Class("upgraded")
		}
		if rawQuery != "" || wirePath != decPath || len(writes) > 1 || refuse {
			sub.NonTrivial(stats.HashString(desc))
			if sub.WantSample() {
				sub.Sample(desc)
			}
		}
	})
}

func genChunk(t *rapid.T, label string, max int) []byte {
	var n int
	switch rapid.IntRange(0, 5).Draw(t, label+".sizeClass") {
	case 0:
		n = 0
	case 1, 2, 3:
		n = rapid.IntRange(1, 200).Draw(t, label+".size")
	default:
		n = rapid.IntRange(1, max).Draw(t, label+".size")
	}
	if n > max {
		n = max
	}
	seed := byte(rapid.IntRange(0, 255).Draw(t, label+".seed"))
	b := make([]byte, n)
	for i := range b {
		b[i] = seed + byte(i*17+i/253)
	}
	return b
}
