//go:build verif

// C04 — forwarding fidelity: requests and responses cross the gateway unchanged.
package c04

import (
	"bytes"
	"context"
	"fmt"
	"net/http"
	"net/textproto"
	"net/url"
	"strconv"
	"strings"
	"sync/atomic"
	"testing"
	"time"

	"github.com/kubewharf/apiserver-runtime/pkg/scheme"
	metav1 "k8s.io/apimachinery/pkg/apis/meta/v1"
	"k8s.io/apiserver/pkg/authorization/authorizer"
	"pgregory.net/rapid"

	proxyv1alpha1 "github.com/kubewharf/kubegateway/pkg/apis/proxy/v1alpha1"
	"verifharness/internal/gwbox"
	"verifharness/internal/stats"
)

func TestMain(m *testing.M) {
	stats.Property("C04")
	stats.Assume(
		"round trip through a stub upstream behind the real chain + dispatcher + reverse proxy on loopback HTTP/1.1; requests are written byte by byte on a fresh connection so the wire form is the generated one",
		"'same path' is decided on the decoded path (an escaped '/' reaches the upstream unescaped; both ends act on URL.Path); query parameters are compared as key -> ordered values under url.ParseQuery",
		"headers the upstream may see although the client did not send them: Accept-Encoding, User-Agent, X-Forwarded-For, Authorization (gateway credential), Impersonate-*, Content-Length, Transfer-Encoding; headers the client may see although the upstream did not send them: Date, Content-Length, Transfer-Encoding, Connection, Cache-Control (gateway value prepended)",
		"upgrade requests (SPDY / websocket style) are generated at byte level: the stub answers 101 and echoes, no real SPDY or websocket framing is spoken; on the upgrade path a bearer-token gateway credential is not added by the gateway (observation, see DESIGN 9.3), so there the upstream may see no Authorization header at all; CORS response headers (removed by design) and HTTP/2 are outside the generated domain",
		"Go runtime, net/http, pgregory.net/rapid v1.3.0",
	)
	stats.Main(m)
}

var (
	pool    = gwbox.NewPool(2)
	gateway = func() *gwbox.Gateway {
		g := gwbox.NewGateway()
		must := func(c *proxyv1alpha1.UpstreamCluster) {
			if res, err := g.Box.Apply(c); err != nil || res.RequeueAfter > 0 {
				panic(fmt.Sprint("cannot apply cluster ", c.Name, err, res))
			}
		}
		must(gwbox.ClusterObject("alpha", "gateway-secret-token", pool.Upstreams[0]))
		pool.Upstreams[1].SetHealth(500)
		must(gwbox.ClusterObject("beta", "gateway-secret-token", pool.Upstreams[1]))
		lim := gwbox.ClusterObject("limited", "gateway-secret-token", pool.Upstreams[0])
		lim.Spec.FlowControl.Schemas = []proxyv1alpha1.FlowControlSchema{{Name: "zero", FlowControlSchemaConfiguration: proxyv1alpha1.FlowControlSchemaConfiguration{MaxRequestsInflight: &proxyv1alpha1.MaxRequestsInflightFlowControlSchema{Max: 0}}}}
		lim.Spec.DispatchPolicies[0].FlowControlSchemaName = "zero"
		must(lim)
		np := gwbox.ClusterObject("nopolicy", "gateway-secret-token", pool.Upstreams[0])
		np.Spec.DispatchPolicies[0].Rules = []proxyv1alpha1.DispatchPolicyRule{{Verbs: []string{"bogusverb"}, NonResourceURLs: []string{"*"}}}
		must(np)
		if !g.WaitReady("alpha", func(string) bool { return true }, 10*time.Second) || !g.WaitReady("limited", func(string) bool { return true }, 10*time.Second) {
			panic("upstream did not become ready")
		}
		g.SetToken("client-token", gwbox.Identity{Name: "alice", Groups: []string{"dev"}})
		g.Authorize = func(a authorizer.Attributes) (authorizer.Decision, string, error) {
			if a.GetVerb() == "impersonate" && a.GetName() == "forbidden-user" {
				return authorizer.DecisionDeny, "scripted deny", nil
			}
			return authorizer.DecisionAllow, "", nil
		}
		return g
	}()
	seq int64
)

var segAlphabet = []string{"a", "b", "pods", "x1", "-", "_", ".", "~", " ", "%", "?", "/", "é", "#", "+", ":", "@", "&", "=", ";", ",", "!", "*", "'", "(", ")", "中"}

func genSegment(t *rapid.T, label string) (decoded, wire string) {
	switch rapid.IntRange(0, 11).Draw(t, label+".kind") {
	case 0:
		return ".", "."
	case 1:
		return "..", ".."
	case 2:
		return "", "" // empty segment => "//"
	}
	n := rapid.IntRange(1, 4).Draw(t, label+".len")
	var d, w strings.Builder
	for i := 0; i < n; i++ {
		c := rapid.SampledFrom(segAlphabet).Draw(t, label+".char")
		d.WriteString(c)
		esc := url.PathEscape(c)
		esc = strings.ReplaceAll(esc, "/", "%2F")
		if esc == c && len(c) == 1 && rapid.IntRange(0, 5).Draw(t, label+".overescape") == 0 {
			esc = fmt.Sprintf("%%%02X", c[0])
		}
		w.WriteString(esc)
	}
	return d.String(), w.String()
}

func genPath(t *rapid.T) (decoded, wire string) {
	prefixes := [][]string{{"api", "v1", "namespaces", "*", "pods", "*"}, {"apis", "apps", "v1", "namespaces", "*", "deployments"}, {"api", "v1", "nodes", "*", "proxy", "*", "*"}, {"healthz", "*"}, {"*", "*"}, {"api", "v1", "pods"}, {"version"}, {"apis", "*", "*", "*", "*"},
		// a path that begins with two slashes and looks like an authority: still a path
		{"", "other.example:1", "healthz", "*"}}
	pre := prefixes[rapid.IntRange(0, len(prefixes)-1).Draw(t, "prefix")]
	var d, w []string
	for i, s := range pre {
		if s == "*" {
			ds, ws := genSegment(t, fmt.Sprintf("seg[%d]", i))
			d, w = append(d, ds), append(w, ws)
		} else {
			d, w = append(d, s), append(w, s)
		}
	}
	decoded, wire = "/"+strings.Join(d, "/"), "/"+strings.Join(w, "/")
	if rapid.IntRange(0, 4).Draw(t, "trailingSlash") == 0 {
		decoded, wire = decoded+"/", wire+"/"
	}
	return
}

func genQuery(t *rapid.T) string {
	n := rapid.IntRange(0, 5).Draw(t, "nquery")
	var parts []string
	keys := []string{"watch", "labelSelector", "fieldSelector", "k", "K", "a b", "limit", "x"}
	vals := []string{"", "1", "true", "a=b", "a,b", "x y", "a+b", "é", "%", "&", "app in (a,b)", "/"}
	for i := 0; i < n; i++ {
		switch rapid.IntRange(0, 9).Draw(t, fmt.Sprintf("q[%d].kind", i)) {
		case 0:
			parts = append(parts, rapid.SampledFrom([]string{"flag", "%zz=1", "a=%", "b;c=1", "=v", "k=1=2"}).Draw(t, fmt.Sprintf("q[%d].odd", i)))
		case 1:
			parts = append(parts, url.QueryEscape(rapid.SampledFrom(keys).Draw(t, fmt.Sprintf("q[%d].key", i)))+"="+strings.ReplaceAll(url.QueryEscape(rapid.SampledFrom(vals).Draw(t, fmt.Sprintf("q[%d].val", i))), "+", "%20"))
		default:
			parts = append(parts, url.QueryEscape(rapid.SampledFrom(keys).Draw(t, fmt.Sprintf("q[%d].key", i)))+"="+url.QueryEscape(rapid.SampledFrom(vals).Draw(t, fmt.Sprintf("q[%d].val", i))))
		}
	}
	return strings.Join(parts, "&")
}

var e2eReqHeaders = []string{"X-Custom-A", "x-custom-b", "Accept", "User-Agent", "Content-Type", "Accept-Encoding", "Cookie", "If-None-Match", "X-Remote-User", "Accept-Language", "X-Request-Id", "Warning", "Origin", "X-Real-Ip", "Forwarded"}
var hopByHop = []string{"Keep-Alive", "Proxy-Authenticate", "Proxy-Authorization", "Te", "Trailer", "Proxy-Connection"}
var headerVals = []string{"198.51.100.9", "v", "a, b", "x=y; z", "text/plain", "\"etag\"", "é", "application/json", "identity", "a b"}

var e2eRespHeaders = []string{"X-Resp-A", "Set-Cookie", "Content-Type", "Cache-Control", "Warning", "Location", "Etag", "X-Kubernetes-Pf-Flowschema-Uid", "Retry-After", "Www-Authenticate", "Content-Language",
	"Access-Control-Allow-Origin", "Access-Control-Allow-Credentials", "Access-Control-Allow-Methods", "Access-Control-Allow-Headers", "Access-Control-Expose-Headers", "Access-Control-Max-Age",
	"Vary", "Link", "Server", "Via", "Age", "Expires", "Last-Modified", "Accept-Ranges", "Content-Disposition", "Strict-Transport-Security", "X-Frame-Options", "Alt-Svc", "Audit-Id", "X-Kubernetes-Pf-Prioritylevel-Uid"}

func genBody(t *rapid.T, label string) []byte {
	var n int
	switch rapid.IntRange(0, 9).Draw(t, label+".sizeClass") {
	case 0, 1, 2:
		n = 0
	case 3, 4, 5, 6:
		n = rapid.IntRange(1, 200).Draw(t, label+".size")
	case 7, 8:
		n = rapid.IntRange(200, 70000).Draw(t, label+".size")
	default:
		n = rapid.IntRange(70000, 1<<20).Draw(t, label+".size")
	}
	seed := byte(rapid.IntRange(0, 255).Draw(t, label+".seed"))
	b := make([]byte, n)
	for i := range b {
		b[i] = seed + byte(i*31+i/251)
	}
	return b
}

func isHop(name string, connListed map[string]bool) bool {
	c := textproto.CanonicalMIMEHeaderKey(name)
	for _, h := range hopByHop {
		if c == h {
			return true
		}
	}
	return c == "Connection" || c == "Transfer-Encoding" || c == "Upgrade" || connListed[c]
}

func splitList(vs []string) []string {
	var out []string
	for _, v := range vs {
		for _, p := range strings.Split(v, ",") {
			out = append(out, strings.TrimSpace(p))
		}
	}
	return out
}

func TestPropForwardedRoundTrip(t *testing.T) {
	stats.Check(t, stats.N(4000, 30000), propForwardedRoundTrip())
}

// propForwardedRoundTrip: the property of TestPropForwardedRoundTrip (shared with the native fuzz target FuzzForwardedRoundTrip).
func propForwardedRoundTrip() func(t *rapid.T) {
	sub := stats.NewSub("forwarded-round-trip", "rapid: method, k8s-shaped path with generated segments (escaped '/', '%', '?', blanks, UTF-8, over-escaped safe bytes, empty segments, '.', '..', trailing slash), query (repeated keys, empty values, '+', escapes, malformed pairs), 0-6 end-to-end headers with 1-3 values, prior X-Forwarded-For values, hop-by-hop and Connection-listed headers, body 0 B..1 MiB (content-length or chunked); scripted upstream reply: status 200-599, 0-5 headers (multi-valued, hop-by-hop too), body 0 B..1 MiB in 1-5 flushed chunks; oracle: what the stub received == what was sent (method, decoded path, query as key->ordered values, body, every end-to-end header's value list; hop-by-hop / Authorization / Impersonate-* never as sent; X-Forwarded-For = prior + client address; no unlisted extra header) and what the client received == what the stub sent (status, body, every end-to-end header value in order; extra values only for allow-listed gateway headers); non-trivial = escaped or unusual path bytes, repeated query keys, multi-valued or hop-by-hop headers, or a body > 64 KiB; distinct by FNV-64 of the request/reply description")
	return func(t *rapid.T) {
		method := rapid.SampledFrom([]string{"GET", "GET", "HEAD", "POST", "PUT", "PATCH", "DELETE", "OPTIONS"}).Draw(t, "method")
		decPath, wirePath := genPath(t)
		rawQuery := genQuery(t)
		target := wirePath
		if rawQuery != "" {
			target += "?" + rawQuery
		}
		reqID := fmt.Sprintf("c04-%d", atomic.AddInt64(&seq, 1))
		headers := [][2]string{{gwbox.IDHeader, reqID}, {"Authorization", "Bearer client-token"}}
		sent := http.Header{}
		connListed := map[string]bool{}
		nt := wirePath != decPath || strings.Contains(wirePath, "//") || strings.Contains(wirePath, "/.")
		nh := rapid.IntRange(0, 6).Draw(t, "nheaders")
		for i := 0; i < nh; i++ {
			name := rapid.SampledFrom(e2eReqHeaders).Draw(t, fmt.Sprintf("h[%d].name", i))
			nv := rapid.IntRange(1, 3).Draw(t, fmt.Sprintf("h[%d].nvals", i))
			switch textproto.CanonicalMIMEHeaderKey(name) {
			case "User-Agent", "Content-Type", "Origin":
				// single-valued by definition (Go's transport writes only the first User-Agent)
				nv = 1
				if len(sent[name]) > 0 || len(sent[textproto.CanonicalMIMEHeaderKey(name)]) > 0 {
					continue
				}
			}
			for j := 0; j < nv; j++ {
				v := rapid.SampledFrom(headerVals).Draw(t, fmt.Sprintf("h[%d].val", i))
				if textproto.CanonicalMIMEHeaderKey(name) == "Accept" {
					v = rapid.SampledFrom([]string{"application/json", "*/*", "application/json, */*"}).Draw(t, fmt.Sprintf("h[%d].accept", i))
				}
				headers = append(headers, [2]string{name, v})
				sent.Add(name, v)
			}
			if nv > 1 {
				nt = true
			}
		}
		var priorXFF []string
		if rapid.IntRange(0, 3).Draw(t, "xff") == 0 {
			priorXFF = rapid.SliceOfN(rapid.SampledFrom([]string{"10.0.0.1", "192.168.1.7", "fe80::1"}), 1, 2).Draw(t, "xffVals")
			for _, v := range priorXFF {
				headers = append(headers, [2]string{"X-Forwarded-For", v})
			}
		}
		if rapid.IntRange(0, 2).Draw(t, "hop") == 0 {
			h := rapid.SampledFrom(hopByHop).Draw(t, "hopName")
			headers = append(headers, [2]string{h, "hop-value"})
			if rapid.Bool().Draw(t, "connListed") {
				headers = append(headers, [2]string{"X-Drop-Me", "1"})
				headers = append(headers, [2]string{"Connection", "X-Drop-Me"})
				connListed["X-Drop-Me"] = true
			}
			nt = true
		}
		var body []byte
		chunked := false
		if method == "POST" || method == "PUT" || method == "PATCH" || (method == "DELETE" && rapid.Bool().Draw(t, "deleteBody")) {
			body = genBody(t, "body")
			chunked = len(body) > 0 && rapid.Bool().Draw(t, "chunked")
		}
		// reply
		rep := &gwbox.Reply{Header: http.Header{}}
		rep.Status = rapid.SampledFrom([]int{200, 200, 200, 201, 202, 204, 301, 304, 400, 401, 403, 404, 409, 410, 422, 429, 500, 502, 503, 504, 599}).Draw(t, "status")
		nrh := rapid.IntRange(0, 5).Draw(t, "nrespheaders")
		for i := 0; i < nrh; i++ {
			name := rapid.SampledFrom(e2eRespHeaders).Draw(t, fmt.Sprintf("rh[%d].name", i))
			if name == "Content-Type" && (rep.Status == 204 || rep.Status == 304) {
				continue // net/http itself drops it for bodiless statuses, already in the stub
			}
			nv := rapid.IntRange(1, 2).Draw(t, fmt.Sprintf("rh[%d].nvals", i))
			for j := 0; j < nv; j++ {
				v := rapid.SampledFrom(headerVals).Draw(t, fmt.Sprintf("rh[%d].val", i))
				if name == "Retry-After" {
					v = "7"
				}
				rep.Header.Add(name, v)
			}
		}
		if rapid.IntRange(0, 3).Draw(t, "respHop") == 0 {
			rep.Header.Add("Keep-Alive", "timeout=5")
			rep.Header.Add("X-Resp-Hop", "1")
			rep.Header.Add("Connection", "X-Resp-Hop")
		}
		if rep.Status != 204 && rep.Status != 304 && method != "HEAD" {
			rep.Body = genBody(t, "respBody")
			rep.Chunks = rapid.IntRange(1, 5).Draw(t, "respChunks")
		}
		if len(body) > 65536 || len(rep.Body) > 65536 {
			nt = true
		}
		pool.SetReply(reqID, rep)
		defer pool.Forget(reqID)
		ctx, cancel := context.WithTimeout(context.Background(), 30*time.Second)
		resp := gateway.Do(ctx, gwbox.RawRequest{Method: method, Target: target, Host: "alpha", Headers: headers, Body: body, Chunked: chunked})
		cancel()
		sub.Eval()
		desc := fmt.Sprintf("%s %s (decoded path %q) headers %q body %d B chunked=%v -> reply %d headers %q body %d B in %d chunks", method, target, decPath, headers[2:], len(body), chunked, rep.Status, rep.Header, len(rep.Body), rep.Chunks)
		if resp.Err != nil {
			t.Fatalf("client did not get a response: %v\n%s", resp.Err, desc)
		}
		seen := pool.Find(reqID)
		if len(seen) != 1 {
			t.Fatalf("request was seen by %d upstreams (client got %d %q)\n%s", len(seen), resp.Status, trunc(resp.Body), desc)
		}
		s := seen[0]
		// ---- request fidelity
		if s.Method != method {
			t.Fatalf("upstream received method %s\n%s", s.Method, desc)
		}
		if s.Path != decPath {
			t.Fatalf("upstream received path %q (escaped %q), the client sent %q (decoded %q)\n%s", s.Path, s.RawPath, wirePath, decPath, desc)
		}
		if s.RawPath != wirePath {
			sub.Class("escaped-form-of-path-changed")
		}
		wantQ, _ := url.ParseQuery(rawQuery)
		gotQ, _ := url.ParseQuery(s.RawQuery)
		if fmt.Sprint(wantQ) != fmt.Sprint(gotQ) {
			t.Fatalf("upstream received query %q = %v, the client sent %q = %v\n%s", s.RawQuery, gotQ, rawQuery, wantQ, desc)
		}
		for k, v := range wantQ {
			if len(v) > 1 {
				nt = true
				_ = k
			}
		}
		if !bytes.Equal(s.Body, body) {
			t.Fatalf("upstream received a body of %d bytes, the client sent %d bytes (first difference at %d)\n%s", len(s.Body), len(body), firstDiff(s.Body, body), desc)
		}
		for name, vals := range sent {
			c := textproto.CanonicalMIMEHeaderKey(name)
			if isHop(c, connListed) {
				continue
			}
			got := s.Header[c]
			if fmt.Sprintf("%q", got) != fmt.Sprintf("%q", vals) {
				t.Fatalf("end-to-end header %s: upstream received %q, the client sent %q\n%s", c, got, vals, desc)
			}
		}
		for name, vals := range s.Header {
			switch {
			case name == "Authorization":
				if len(vals) != 1 || vals[0] != "Bearer gateway-secret-token" {
					t.Fatalf("upstream received Authorization %q\n%s", vals, desc)
				}
			case name == "X-Forwarded-For":
				got := splitList(vals)
				want := append(append([]string{}, priorXFF...), "127.0.0.1")
				if fmt.Sprint(got) != fmt.Sprint(want) {
					t.Fatalf("upstream received X-Forwarded-For %q, expected prior values + client address %q\n%s", vals, want, desc)
				}
			case isHop(name, connListed):
				if name == "Transfer-Encoding" || name == "Connection" {
					continue
				}
				t.Fatalf("hop-by-hop / Connection-listed header %s: %q reached the upstream\n%s", name, vals, desc)
			case strings.HasPrefix(name, "Impersonate-"), name == "Accept-Encoding", name == "User-Agent", name == "Content-Length", name == gwbox.IDHeader:
			default:
				if _, ok := sent[name]; !ok {
					found := false
					for k := range sent {
						if textproto.CanonicalMIMEHeaderKey(k) == name {
							found = true
						}
					}
					if !found {
						t.Fatalf("upstream received header %s: %q which the client did not send and which is not on the allow-list\n%s", name, vals, desc)
					}
				}
			}
		}
		// ---- response fidelity
		if resp.Status != rep.Status {
			t.Fatalf("client received status %d, the upstream answered %d\n%s", resp.Status, rep.Status, desc)
		}
		if method != "HEAD" && !bytes.Equal(resp.Body, rep.Body) {
			t.Fatalf("client received a body of %d bytes, the upstream sent %d bytes (first difference at %d)\n%s", len(resp.Body), len(rep.Body), firstDiff(resp.Body, rep.Body), desc)
		}
		respConn := map[string]bool{"X-Resp-Hop": rep.Header.Get("Connection") != ""}
		for name, vals := range rep.Header {
			if isHop(name, respConn) && (name != "X-Resp-Hop" || respConn["X-Resp-Hop"]) {
				if name != "Connection" && len(resp.Header[name]) > 0 && name != "Keep-Alive" {
					t.Fatalf("hop-by-hop response header %s reached the client\n%s", name, desc)
				}
				continue
			}
			got := resp.Header[name]
			if len(got) < len(vals) || fmt.Sprintf("%q", got[len(got)-len(vals):]) != fmt.Sprintf("%q", vals) {
				t.Fatalf("response header %s: client received %q, the upstream sent %q\n%s", name, got, vals, desc)
			}
			if len(got) > len(vals) && name != "Cache-Control" {
				t.Fatalf("response header %s: client received extra values %q (upstream sent %q)\n%s", name, got, vals, desc)
			}
		}
		for name := range resp.Header {
			if _, ok := rep.Header[name]; ok {
				continue
			}
			switch name {
			case "Date", "Content-Length", "Transfer-Encoding", "Connection", "Cache-Control", "Content-Type", "X-Verif-Upstream", "X-Content-Type-Options":
			default:
				t.Fatalf("client received header %s: %q which the upstream did not send\n%s", name, resp.Header[name], desc)
			}
		}
		if nt {
			sub.NonTrivial(stats.HashString(desc))
			if sub.WantSample() && wirePath != decPath {
				sub.Sample(desc)
			}
		}
		sub.Class(fmt.Sprintf("status-%dxx", rep.Status/100))

	}
}

// FuzzForwardedRoundTrip: the same property driven by Go's coverage-guided fuzzer (thorough tier): the fuzzer's bytes are rapid's bit stream, so every input comes from the same generators and is judged by the same oracle.
func FuzzForwardedRoundTrip(f *testing.F) {
	f.Fuzz(rapid.MakeFuzz(propForwardedRoundTrip()))
}

func trunc(b []byte) string {
	if len(b) > 300 {
		return string(b[:300]) + "..."
	}
	return string(b)
}

func firstDiff(a, b []byte) int {
	for i := 0; i < len(a) && i < len(b); i++ {
		if a[i] != b[i] {
			return i
		}
	}
	if len(a) < len(b) {
		return len(a)
	}
	return len(b)
}

// TestPropTerminatedRequests: every request the gateway terminates itself gets a well-formed Status and is not forwarded.
func TestPropTerminatedRequests(t *testing.T) {
	sub := stats.NewSub("terminated-requests", "rapid: a termination class (unknown host, cluster without ready endpoint, flow-controlled, refused impersonation, malformed impersonation, unauthenticated, no matching policy) x generated method / path / query / Accept (JSON, none, protobuf) / body; oracle: the body decodes as a meta/v1 Status in the negotiated media type whose code equals the HTTP status; 429 when flow-controlled, 503 with Retry-After when the cluster is not proxied or has no ready endpoint, 403 for refused impersonation, >=400 for malformed impersonation, 401 unauthenticated; no stub upstream logs the request id; non-trivial = all of them; distinct by FNV-64 of (class, request)")
	classes := []string{"unknown-host", "no-ready-endpoint", "flow-controlled", "refused-impersonation", "malformed-impersonation", "unauthenticated", "no-policy"}
	stats.Check(t, stats.N(3000, 20000), func(t *rapid.T) {
		class := rapid.SampledFrom(classes).Draw(t, "class")
		method := rapid.SampledFrom([]string{"GET", "POST", "DELETE", "PUT"}).Draw(t, "method")
		_, wirePath := genPath(t)
		rawQuery := genQuery(t)
		target := wirePath
		if rawQuery != "" {
			target += "?" + rawQuery
		}
		reqID := fmt.Sprintf("c04t-%d", atomic.AddInt64(&seq, 1))
		host := "alpha"
		headers := [][2]string{{gwbox.IDHeader, reqID}}
		auth := [2]string{"Authorization", "Bearer client-token"}
		wantStatus := 0
		retryAfter := false
		switch class {
		case "unknown-host":
			host = rapid.SampledFrom([]string{"nobody.example.com", "ALPHA2", "alpha.evil"}).Draw(t, "host")
			wantStatus, retryAfter = 503, true
			headers = append(headers, auth)
		case "no-ready-endpoint":
			host = "beta"
			wantStatus, retryAfter = 503, true
			headers = append(headers, auth)
		case "flow-controlled":
			host = "limited"
			wantStatus = 429
			headers = append(headers, auth)
		case "refused-impersonation":
			wantStatus = 403
			headers = append(headers, auth, [2]string{"Impersonate-User", "forbidden-user"})
		case "malformed-impersonation":
			wantStatus = -400
			headers = append(headers, auth, [2]string{"Impersonate-Group", "dev"})
		case "unauthenticated":
			wantStatus = 401
			if rapid.Bool().Draw(t, "badToken") {
				headers = append(headers, [2]string{"Authorization", "Bearer nope"})
			}
		case "no-policy":
			host = "nopolicy"
			wantStatus = -400
			headers = append(headers, auth)
		}
		accept := rapid.SampledFrom([]string{"", "application/json", "application/vnd.kubernetes.protobuf", "application/json, */*"}).Draw(t, "accept")
		if accept != "" {
			headers = append(headers, [2]string{"Accept", accept})
		}
		var body []byte
		if method == "POST" || method == "PUT" {
			body = genBody(t, "body")
			if len(body) > 30000 {
				// the gateway answers without reading the body; a larger body would be reset by TCP before
				// the client can read the answer (ordinary HTTP behaviour, not what is checked here)
				body = body[:30000]
			}
		}
		ctx, cancel := context.WithTimeout(context.Background(), 30*time.Second)
		resp := gateway.Do(ctx, gwbox.RawRequest{Method: method, Target: target, Host: host, Headers: headers, Body: body})
		cancel()
		defer pool.Forget(reqID)
		sub.Eval()
		desc := fmt.Sprintf("class %s: %s %s host %s accept %q body %d B", class, method, target, host, accept, len(body))
		sub.NonTrivial(stats.HashString(desc))
		sub.Class(class)
		if resp.Err != nil && resp.Status == 0 {
			t.Fatalf("client did not get a response: %v\n%s", resp.Err, desc)
		}
		if seen := pool.Find(reqID); len(seen) > 0 {
			t.Fatalf("terminated request was forwarded to upstream %d (client got %d)\n%s", seen[0].Upstream, resp.Status, desc)
		}
		if wantStatus > 0 && resp.Status != wantStatus {
			t.Fatalf("answered %d, expected %d (body %q)\n%s", resp.Status, wantStatus, trunc(resp.Body), desc)
		}
		if wantStatus < 0 && resp.Status < 400 {
			t.Fatalf("answered %d, expected an error status (body %q)\n%s", resp.Status, trunc(resp.Body), desc)
		}
		if retryAfter {
			if n, err := strconv.Atoi(resp.Header.Get("Retry-After")); err != nil || n < 0 {
				t.Fatalf("503 without a usable Retry-After header (%q)\n%s", resp.Header.Get("Retry-After"), desc)
			}
		}
		// well-formed Status in the negotiated media type
		st := &metav1.Status{}
		obj, _, err := scheme.Codecs.UniversalDeserializer().Decode(resp.Body, nil, st)
		if err != nil {
			t.Fatalf("the answer (%d, Content-Type %q) is not a well-formed API Status: %v; body %q\n%s", resp.Status, resp.Header.Get("Content-Type"), err, trunc(resp.Body), desc)
		}
		got, ok := obj.(*metav1.Status)
		if !ok || got.Kind != "Status" && got.Status == "" {
			t.Fatalf("the answer decodes to %T, not a Status; body %q\n%s", obj, trunc(resp.Body), desc)
		}
		if int(got.Code) != resp.Status {
			t.Fatalf("Status.code %d differs from the HTTP status %d\n%s", got.Code, resp.Status, desc)
		}
		ct := resp.Header.Get("Content-Type")
		if strings.Contains(accept, "protobuf") && !strings.Contains(ct, "protobuf") {
			t.Fatalf("client accepts only protobuf but the Status came as %q\n%s", ct, desc)
		}
		if !strings.Contains(accept, "protobuf") && !strings.Contains(ct, "json") {
			t.Fatalf("client accepts JSON but the Status came as %q\n%s", ct, desc)
		}
		if sub.WantSample() {
			sub.Sample(map[string]interface{}{"request": desc, "status": resp.Status, "status_object": fmt.Sprintf("%+v", got)})
		}
	})
}
