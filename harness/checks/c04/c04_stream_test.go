//go:build verif

package c04

import (
	"bufio"
	"bytes"
	"context"
	"fmt"
	"io"
	"net/http"
	"sync"
	"sync/atomic"
	"testing"
	"time"

	"pgregory.net/rapid"

	"verifharness/internal/gwbox"
	"verifharness/internal/stats"
)

// TestPropStreamedAnswers: an answer of unknown length (a watch, a log stream) is relayed AS IT COMES: the client has
// the upstream's status and headers while the upstream has not sent a body byte yet, and every chunk the upstream
// flushes before the upstream sends the next one.
func TestPropStreamedAnswers(t *testing.T) {
	sub := stats.NewSub("streamed-answers-are-relayed-as-they-come", "rapid: a GET (watch / log-follow style paths) answered by the stub upstream with a status (200, 201, 404, 500, 503), 0-3 generated headers and NO Content-Length: status and headers are flushed at once, then - after a generated pause of 0-300 ms - 0-4 chunks of generated size (1 B .. 40 KiB), each released by the harness only after the client has the previous one, then the stream ends; oracle: within 2 s of the upstream flushing them the client has status and headers (while no body byte exists yet), every chunk (complete and before the next one is sent) and the end of the stream; status, headers and the bytes are the upstream's (as in forwarded-round-trip); a harness-side time-out (the stub never started) is inconclusive; non-trivial = at least one chunk follows a pause; distinct by FNV-64 of the plan")
	stats.Check(t, stats.N(40, 400), func(t *rapid.T) {
		path := rapid.SampledFrom([]string{"/api/v1/namespaces/default/pods?watch=true&resourceVersion=77", "/api/v1/watch/namespaces/default/pods", "/api/v1/namespaces/default/pods/p/log?follow=true", "/healthz/stream"}).Draw(t, "path")
		status := rapid.SampledFrom([]int{200, 200, 200, 201, 404, 500, 503}).Draw(t, "status")
		pause := time.Duration(rapid.IntRange(0, 300).Draw(t, "pauseBeforeFirstChunkMS")) * time.Millisecond
		nchunks := rapid.IntRange(0, 4).Draw(t, "chunks")
		var chunks [][]byte
		for i := 0; i < nchunks; i++ {
			n := rapid.SampledFrom([]int{1, 17, 300, 4096, 5000, 40000}).Draw(t, fmt.Sprintf("chunk[%d].size", i))
			b := bytes.Repeat([]byte{byte('a' + i)}, n)
			b[n-1] = '\n'
			chunks = append(chunks, b)
		}
		rep := &gwbox.Reply{Status: status, Header: http.Header{}, Stream: true, Hold: make(chan struct{}), Steps: make(chan []byte)}
		for i, n := 0, rapid.IntRange(0, 3).Draw(t, "nrespheaders"); i < n; i++ {
			rep.Header.Add(rapid.SampledFrom([]string{"X-Resp-A", "Content-Type", "Warning", "Etag"}).Draw(t, fmt.Sprintf("rh[%d]", i)), rapid.SampledFrom([]string{"v", "application/json", "a b"}).Draw(t, fmt.Sprintf("rv[%d]", i)))
		}
		id := fmt.Sprintf("c04s-%d", atomic.AddInt64(&seq, 1))
		pool.SetReply(id, rep)
		defer pool.Forget(id)
		plan := fmt.Sprintf("GET %s -> %d headers %q, pause %v, chunks %d", path, status, rep.Header, pause, nchunks)
		var sizes []int
		for _, c := range chunks {
			sizes = append(sizes, len(c))
		}
		plan += fmt.Sprint(" of sizes ", sizes)
		// the client
		var mu sync.Mutex
		var gotStatus int
		var gotHeader http.Header
		var got []byte
		var ended bool
		var endErr error
		ctx, cancel := context.WithTimeout(context.Background(), 60*time.Second)
		defer cancel()
		done := make(chan struct{})
		go func() {
			defer close(done)
			req, _ := http.NewRequestWithContext(ctx, "GET", gateway.URL+path, nil)
			req.Host = "alpha"
			req.Header.Set(gwbox.IDHeader, id)
			req.Header.Set("Authorization", "Bearer client-token")
			tr := &http.Transport{DisableKeepAlives: true, DisableCompression: true}
			defer tr.CloseIdleConnections()
			resp, err := (&http.Client{Transport: tr}).Do(req)
			if err != nil {
				mu.Lock()
				ended, endErr = true, err
				mu.Unlock()
				return
			}
			defer resp.Body.Close()
			mu.Lock()
			gotStatus, gotHeader = resp.StatusCode, resp.Header
			mu.Unlock()
			r := bufio.NewReaderSize(resp.Body, 64*1024)
			buf := make([]byte, 32*1024)
			for {
				n, err := r.Read(buf)
				mu.Lock()
				got = append(got, buf[:n]...)
				if err != nil {
					ended = true
					if err != io.EOF {
						endErr = err
					}
					mu.Unlock()
					return
				}
				mu.Unlock()
			}
		}()
		defer func() {
			select {
			case <-rep.Hold:
			default:
				close(rep.Hold)
			}
			cancel()
			<-done
		}()
		select {
		case <-pool.Started(id):
		case <-time.After(10 * time.Second):
			sub.Inconclusive()
			t.Skip("the request never reached the stub upstream")
		}
		sub.Eval()
		within := func(d time.Duration, cond func() bool) bool {
			deadline := time.Now().Add(d)
			for {
				mu.Lock()
				ok := cond()
				mu.Unlock()
				if ok {
					return true
				}
				if time.Now().After(deadline) {
					return false
				}
				time.Sleep(time.Millisecond)
			}
		}
		// status and headers, while the upstream has not sent a body byte
		if !within(2*time.Second, func() bool { return gotStatus != 0 || ended }) {
			t.Fatalf("2 s after the upstream answered with status and headers (it has not sent a body byte yet) the client has not received them\nplan: %s", plan)
		}
		mu.Lock()
		st, hd, e, ee := gotStatus, gotHeader, ended, endErr
		mu.Unlock()
		if e && st == 0 {
			t.Fatalf("the client got no response: %v\nplan: %s", ee, plan)
		}
		if st != status {
			t.Fatalf("client received status %d, the upstream answered %d\nplan: %s", st, status, plan)
		}
		for name, vals := range rep.Header {
			if g := hd[name]; len(g) < len(vals) || fmt.Sprintf("%q", g[len(g)-len(vals):]) != fmt.Sprintf("%q", vals) {
				t.Fatalf("response header %s: client received %q, the upstream sent %q\nplan: %s", name, g, vals, plan)
			}
		}
		time.Sleep(pause)
		var want []byte
		for i, c := range chunks {
			select {
			case rep.Steps <- c:
			case <-time.After(5 * time.Second):
				t.Fatalf("harness: the stub upstream does not take chunk %d (its request context died?)\nplan: %s", i, plan)
			}
			want = append(want, c...)
			if !within(2*time.Second, func() bool { return len(got) >= len(want) || ended }) {
				mu.Lock()
				n := len(got)
				mu.Unlock()
				t.Fatalf("2 s after the upstream flushed chunk %d the client has %d of the %d bytes sent so far (the upstream sends nothing more until the client has them)\nplan: %s", i, n, len(want), plan)
			}
			mu.Lock()
			g := append([]byte{}, got...)
			e := ended
			mu.Unlock()
			if e || !bytes.Equal(g, want) {
				t.Fatalf("after chunk %d the client has %d bytes (stream ended: %v), the upstream sent %d (first difference at %d)\nplan: %s", i, len(g), e, len(want), firstDiff(g, want), plan)
			}
		}
		close(rep.Hold)
		if !within(2*time.Second, func() bool { return ended }) {
			t.Fatalf("2 s after the upstream ended the stream the client has not seen its end\nplan: %s", plan)
		}
		mu.Lock()
		g, ee2 := append([]byte{}, got...), endErr
		mu.Unlock()
		if ee2 != nil || !bytes.Equal(g, want) {
			t.Fatalf("at the end of the stream the client has %d bytes (error %v), the upstream sent %d\nplan: %s", len(g), ee2, len(want), plan)
		}
		if nchunks > 0 && pause > 0 {
			sub.NonTrivial(stats.HashString(plan))
			if sub.WantSample() {
				sub.Sample(plan)
			}
		}
		sub.Class(fmt.Sprintf("status-%d", status))
	})
}
