//go:build verif

// C02 — identity propagation: the upstream acts as exactly the authenticated user.
package c02

import (
	"context"
	"fmt"
	"net/http"
	"net/textproto"
	"net/url"
	"sort"
	"strings"
	"sync/atomic"
	"testing"
	"time"

	"k8s.io/apiserver/pkg/authorization/authorizer"
	"pgregory.net/rapid"

	"verifharness/internal/gwbox"
	"verifharness/internal/stats"
)

func TestMain(m *testing.M) {
	stats.Property("C02")
	stats.Assume(
		"the real filter chain (hook-built), dispatcher and per-endpoint impersonating transport run on a loopback HTTP/1.1 server; the upstream is a plain-HTTP stub so the gateway credential and impersonation headers are visible as received",
		"the authenticator maps a bearer token to the generated identity, the authorizer answers each 'impersonate' attribute record from a generated deny set",
		"the upstream-observed identity is decoded as a kube-apiserver does: first Impersonate-User value, all Impersonate-Group values, Impersonate-Extra-<lower-cased, unescaped key>; extra keys are compared after lower-casing (the protocol folds case); the standard implied groups (system:authenticated / system:unauthenticated / system:serviceaccounts[:ns]) may be added to requested groups",
		"identity strings contain no control characters and no leading/trailing blanks (HTTP cannot carry them)",
		"Go runtime, net/http, pgregory.net/rapid v1.3.0",
	)
	stats.Main(m)
}

var (
	pool    = gwbox.NewPool(1)
	gateway = func() *gwbox.Gateway {
		g := gwbox.NewGateway()
		if _, err := g.Box.Apply(gwbox.ClusterObject("alpha", "gateway-secret-token", pool.Upstreams[0])); err != nil {
			panic(err)
		}
		if !g.WaitReady("alpha", func(string) bool { return true }, 10*time.Second) {
			panic("upstream did not become ready")
		}
		return g
	}()
	seq int64
)

var nameAlphabet = []string{"alice", "Bob", "user-1", "a b", "per%cent", "sl/ash", "ünï", "system:admin", "x:y", "UP", "q?x=1", "a,b", "system:anonymous"}

// "Ops", "Team" next to "Ops Team", "dev", "ops" next to "dev ops": identities that differ only in where the element
// boundaries fall (a rendering that joins elements with blanks cannot tell them apart); the gateway process lives across
// cases, so anything it memoises per identity is hit by such twins
var groupAlphabet = []string{"dev", "system:masters", "Ops Team", "Ops", "Team", "ops", "dev ops", "g%2F", "système", "system:authenticated", "system:unauthenticated", "a/b", "[dev", "ops]"}

// keys with a literal '%' followed by two hex digits matter: the upstream percent-decodes the header name, so the
// gateway has to escape the '%' itself
var extraKeys = []string{"scopes", "Scopes", "acme.io/team", "k%y", "k y", "UPPER", "x", "acme.io%2fteam", "50%25", "%41b", "x/y%2fz", "a%2Fb"}
var extraVals = []string{"v1", "V 2", "V", "2", "a%b", "é", "view,edit", "view", "edit", "view edit"}

// twins: identities of one user that differ only in where the boundaries between groups / extra values fall
var twins = []gwbox.Identity{
	{Name: "alice", Groups: []string{"dev", "ops"}},
	{Name: "alice", Groups: []string{"dev ops"}},
	{Name: "alice", Groups: []string{"Ops", "Team", "dev"}},
	{Name: "alice", Groups: []string{"Ops Team", "dev"}},
	{Name: "alice", Groups: []string{"Ops", "Team dev"}},
	{Name: "Bob", Extra: map[string][]string{"scopes": {"view", "edit"}}},
	{Name: "Bob", Extra: map[string][]string{"scopes": {"view edit"}}},
	{Name: "Bob", Groups: []string{"dev"}, Extra: map[string][]string{"scopes": {"V", "2"}}},
	{Name: "Bob", Groups: []string{"dev"}, Extra: map[string][]string{"scopes": {"V 2"}}},
}

func genIdentity(t *rapid.T) gwbox.Identity {
	if rapid.IntRange(0, 9).Draw(t, "id.twin") == 0 {
		tw := rapid.SampledFrom(twins).Draw(t, "id.twinOf")
		id := gwbox.Identity{Name: tw.Name, Groups: append([]string{}, tw.Groups...)}
		for k, v := range tw.Extra {
			if id.Extra == nil {
				id.Extra = map[string][]string{}
			}
			id.Extra[k] = append([]string{}, v...)
		}
		return id
	}
	id := gwbox.Identity{Name: rapid.SampledFrom(nameAlphabet[:12]).Draw(t, "id.name")}
	id.Groups = rapid.SliceOfN(rapid.SampledFrom(groupAlphabet), 0, 4).Draw(t, "id.groups")
	n := rapid.IntRange(0, 3).Draw(t, "id.nextra")
	for i := 0; i < n; i++ {
		if id.Extra == nil {
			id.Extra = map[string][]string{}
		}
		k := rapid.SampledFrom(extraKeys).Draw(t, "id.extraKey")
		id.Extra[k] = rapid.SliceOfN(rapid.SampledFrom(extraVals), 1, 2).Draw(t, "id.extraVals")
	}
	return id
}

func caseVariant(t *rapid.T, label, name string) string {
	switch rapid.IntRange(0, 3).Draw(t, label) {
	case 0:
		return strings.ToLower(name)
	case 1:
		return strings.ToUpper(name)
	case 2:
		// mixed
		b := []byte(name)
		for i := range b {
			if i%2 == 0 {
				b[i] = []byte(strings.ToUpper(string(b[i])))[0]
			} else {
				b[i] = []byte(strings.ToLower(string(b[i])))[0]
			}
		}
		return string(b)
	}
	return name
}

type clientReq struct {
	headers  [][2]string
	authKind string
}

func genClientHeaders(t *rapid.T) clientReq {
	var c clientReq
	switch rapid.IntRange(0, 9).Draw(t, "auth") {
	case 0:
		c.authKind = "none"
	case 1:
		c.authKind = "basic"
		c.headers = append(c.headers, [2]string{"Authorization", "Basic dXNlcjpwYXNz"})
	case 2:
		c.authKind = "unknown-token"
		c.headers = append(c.headers, [2]string{"Authorization", "Bearer not-a-token"})
	case 3:
		c.authKind = "valid+second"
		c.headers = append(c.headers, [2]string{caseVariant(t, "authCase", "Authorization"), "Bearer client-token"}, [2]string{"Authorization", "Bearer evil"})
	default:
		c.authKind = "valid"
		c.headers = append(c.headers, [2]string{caseVariant(t, "authCase", "Authorization"), "Bearer client-token"})
	}
	if rapid.IntRange(0, 3).Draw(t, "impersonate") > 0 {
		nu := rapid.IntRange(0, 2).Draw(t, "nuser")
		for i := 0; i < nu; i++ {
			v := rapid.SampledFrom(append([]string{"", "system:serviceaccount:ns1:sa1"}, nameAlphabet...)).Draw(t, "impUser")
			c.headers = append(c.headers, [2]string{caseVariant(t, "impUserCase", "Impersonate-User"), v})
		}
		ng := rapid.IntRange(0, 3).Draw(t, "ngroups")
		for i := 0; i < ng; i++ {
			c.headers = append(c.headers, [2]string{caseVariant(t, "impGroupCase", "Impersonate-Group"), rapid.SampledFrom(groupAlphabet).Draw(t, "impGroup")})
		}
		ne := rapid.IntRange(0, 2).Draw(t, "nextra")
		for i := 0; i < ne; i++ {
			k := rapid.SampledFrom(extraKeys).Draw(t, "impExtraKey")
			wire := k
			if rapid.Bool().Draw(t, "escapeKey") || strings.ContainsAny(k, " %/") {
				wire = url.PathEscape(k)
				wire = strings.ReplaceAll(wire, "/", "%2F")
			}
			c.headers = append(c.headers, [2]string{caseVariant(t, "impExtraCase", "Impersonate-Extra-") + wire, rapid.SampledFrom(extraVals).Draw(t, "impExtraVal")})
		}
	}
	if rapid.IntRange(0, 2).Draw(t, "foreign") == 0 {
		nf := rapid.IntRange(1, 2).Draw(t, "nforeign")
		for i := 0; i < nf; i++ {
			name := rapid.SampledFrom([]string{"Impersonate-Uid", "Impersonate-Foo", "impersonate-uid", "IMPERSONATE-X-Y", "Impersonate-Extra", "Impersonate-Users"}).Draw(t, "foreignName")
			c.headers = append(c.headers, [2]string{name, rapid.SampledFrom([]string{"evil", "0", "root"}).Draw(t, "foreignVal")})
		}
	}
	// shuffle a little: order of header lines on the wire
	if rapid.Bool().Draw(t, "reverse") {
		for l, r := 0, len(c.headers)-1; l < r; l, r = l+1, r-1 {
			c.headers[l], c.headers[r] = c.headers[r], c.headers[l]
		}
	}
	return c
}

// reference decoding of what the client asked for (as net/http canonicalises header names)
type impReq struct {
	user      string
	groups    []string
	extras    map[string][]string
	foreign   bool
	requested bool
	malformed bool
}

func decodeClient(h [][2]string) (impReq, []string) {
	r := impReq{extras: map[string][]string{}}
	var auth []string
	userSeen := false
	for _, kv := range h {
		name := textproto.CanonicalMIMEHeaderKey(kv[0])
		switch {
		case name == "Authorization":
			auth = append(auth, kv[1])
		case name == "Impersonate-User":
			if !userSeen {
				r.user = kv[1]
				userSeen = true
			}
		case name == "Impersonate-Group":
			r.groups = append(r.groups, kv[1])
		case strings.HasPrefix(name, "Impersonate-Extra-"):
			k := strings.ToLower(name[len("Impersonate-Extra-"):])
			if u, err := url.PathUnescape(k); err == nil {
				k = u
			}
			r.extras[k] = append(r.extras[k], kv[1])
		case strings.HasPrefix(name, "Impersonate-"):
			r.foreign = true
		}
	}
	hasUser := r.user != ""
	r.requested = hasUser || len(r.groups) > 0 || len(r.extras) > 0
	r.malformed = !hasUser && (len(r.groups) > 0 || len(r.extras) > 0)
	return r, auth
}

func lowerKeys(m map[string][]string) map[string][]string {
	out := map[string][]string{}
	for k, vv := range m {
		lk := strings.ToLower(k)
		out[lk] = append(out[lk], vv...)
	}
	for k := range out {
		sort.Strings(out[k])
	}
	return out
}

var implied = map[string]bool{"system:authenticated": true, "system:unauthenticated": true, "system:serviceaccounts": true}

func TestPropIdentityPropagation(t *testing.T) {
	stats.Check(t, stats.N(8000, 60000), propIdentityPropagation())
}

// propIdentityPropagation: the property of TestPropIdentityPropagation (shared with the native fuzz target FuzzIdentityPropagation).
func propIdentityPropagation() func(t *rapid.T) {
	sub := stats.NewSub("identity-propagation", "rapid: authenticated identity (one time in ten from a family of twins that differ only in where the boundaries between groups / extra values fall - the gateway process lives across cases; otherwise name, 0-4 groups, 0-3 extra keys x 1-2 values with %, /, blanks, UTF-8, upper case, literal %XX sequences), client header set (Authorization valid / second value / other scheme / unknown token / none; Impersonate-User 0-2 values incl. empty first value and service-account form; Impersonate-Group 0-3; Impersonate-Extra-<key> escaped or raw; other Impersonate-* names) written in lower / upper / mixed case on a real HTTP/1.1 connection, one request in five as an upgrade (exec style) request, one in eight right after the endpoint's transport was rebuilt (what the gateway does when health probes hang), and a deny set for the authorizer; oracle: reference impersonation semantics decide 401 / >=400 malformed / 403 / forwarded, and for forwarded requests the identity the stub upstream decodes == the effective identity, Authorization == exactly the gateway credential, no Impersonate-* header other than those generated from the effective identity; non-trivial = the client sent an identity-bearing header other than one valid Authorization, or the identity has extras / non-alphanumeric bytes; distinct by FNV-64 of (identity, headers, deny set)")
	return func(t *rapid.T) {
		id := genIdentity(t)
		cr := genClientHeaders(t)
		denyMode := rapid.IntRange(0, 3).Draw(t, "denyMode")
		denySeed := rapid.IntRange(0, 7).Draw(t, "denySeed")
		gateway.SetToken("client-token", id)
		deny := func(a authorizer.Attributes) bool {
			if denyMode == 0 {
				return false
			}
			h := 0
			// the answer depends on every attribute of the question (an RBAC authorizer consults namespace Roles
			// when the question carries a namespace), so a question asked with a wrong attribute is decided differently
			for _, b := range []byte(a.GetResource() + "|" + a.GetSubresource() + "|" + a.GetName() + "|" + a.GetNamespace() + "|" + a.GetAPIGroup()) {
				h = h*31 + int(b)
			}
			if h < 0 {
				h = -h
			}
			if denyMode == 1 {
				return h%8 == denySeed
			}
			return h%2 == denySeed%2
		}
		gateway.Authorize = func(a authorizer.Attributes) (authorizer.Decision, string, error) {
			if a.GetVerb() == "impersonate" && deny(a) {
				return authorizer.DecisionDeny, "scripted deny", nil
			}
			return authorizer.DecisionAllow, "", nil
		}
		reqID := fmt.Sprintf("c02-%d", atomic.AddInt64(&seq, 1))
		headers := append([][2]string{{gwbox.IDHeader, reqID}}, cr.headers...)
		ctx, cancel := context.WithTimeout(context.Background(), 20*time.Second)
		// one request in five is an upgrade request (exec style): it takes the gateway's second, separate path to the upstream
		upgrade := rapid.IntRange(0, 4).Draw(t, "upgradeRequest") == 0
		rr := gwbox.RawRequest{Method: "GET", Target: "/api/v1/namespaces/default/pods", Host: "alpha", Headers: headers}
		if upgrade {
			rr = gwbox.RawRequest{Method: "POST", Target: "/api/v1/namespaces/default/pods/p/exec?command=id", Host: "alpha", Headers: headers, Upgrade: "SPDY/3.1", UpgradeWrites: [][]byte{{1}}, UpgradeExpect: 1}
			pool.SetReply(reqID, &gwbox.Reply{Upgrade: "SPDY/3.1"})
			sub.Class("upgrade-request")
		}
		if rapid.IntRange(0, 7).Draw(t, "transportResetBefore") == 0 {
			// the gateway rebuilds an endpoint's transport when its health probes hang (GatewayHealthCheck calls
			// ResetTransport after three hanging probes): requests afterwards must carry the same identity
			if ci, ok := gateway.Box.Controller.Get("alpha"); ok {
				for _, e := range ci.AllEndpoints() {
					if info, ok := ci.Endpoints.Load(e); ok {
						if err := info.ResetTransport(); err != nil {
							t.Fatalf("harness: ResetTransport: %v", err)
						}
					}
				}
			}
			// a health probe that was in flight on the old transport fails with "context canceled" and marks the
			// endpoint unhealthy until the next probe: wait for readiness, this check is about identities
			if !gateway.WaitReady("alpha", func(string) bool { return true }, 15*time.Second) {
				sub.Inconclusive()
				t.Skip("endpoint not ready after the transport reset")
			}
			sub.Class("request-after-a-transport-reset")
		}
		resp := gateway.Do(ctx, rr)
		cancel()
		defer pool.Forget(reqID)
		if resp.Err == nil && resp.Status == 503 && len(pool.Find(reqID)) == 0 && strings.Contains(string(resp.Body), "context canceled") {
			// a health probe that was in flight when a transport was rebuilt (this case or an earlier one) reported
			// "context canceled" only now and the endpoint is unhealthy until its next probe: the gateway rightly
			// answers 503; that is not an identity matter - wait for readiness and send the request again
			if !gateway.WaitReady("alpha", func(string) bool { return true }, 15*time.Second) {
				sub.Inconclusive()
				t.Skip("endpoint not ready after the transport reset")
			}
			ctx2, cancel2 := context.WithTimeout(context.Background(), 20*time.Second)
			resp = gateway.Do(ctx2, rr)
			cancel2()
			sub.Class("resent-after-a-probe-cancelled-by-a-transport-reset")
		}
		sub.Eval()
		if resp.Err != nil {
			t.Fatalf("harness: request failed: %v", resp.Err)
		}
		seen := pool.Find(reqID)
		imp, authValues := decodeClient(cr.headers)
		desc := fmt.Sprintf("identity %+v\nclient headers %q\ndeny mode %d/%d", id, cr.headers, denyMode, denySeed)
		nt := cr.authKind != "valid" || imp.requested || imp.foreign || len(id.Extra) > 0 || strings.ContainsAny(id.Name, " %/:?,ünï")
		if nt {
			sub.NonTrivial(stats.HashString(desc))
		}
		notForwarded := func(why string) {
			if len(seen) > 0 {
				t.Fatalf("%s but the request was forwarded to the upstream\n%s\nupstream saw %q", why, desc, seen[0].Header)
			}
		}
		// the scripted authenticator looks at the first Authorization value, like the bearer-token authenticator
		authenticated := len(authValues) > 0 && authValues[0] == "Bearer client-token"
		if !authenticated {
			sub.Class("unauthenticated")
			if resp.Status != http.StatusUnauthorized {
				t.Fatalf("unauthenticated request answered %d, expected 401\n%s", resp.Status, desc)
			}
			notForwarded("unauthenticated request")
			return
		}
		if imp.malformed {
			sub.Class("malformed-impersonation")
			if resp.Status < 400 {
				t.Fatalf("malformed impersonation (groups/extras without user) answered %d\n%s", resp.Status, desc)
			}
			notForwarded("malformed impersonation")
			return
		}
		effective := id
		if imp.requested {
			// which elements does the authorizer refuse?
			denied := false
			check := func(resource, sub, name, ns string) {
				group := "" // users, groups and service accounts are core resources, userextras belong to authentication.k8s.io
				if resource == "userextras" {
					group = "authentication.k8s.io"
				}
				if deny(authorizer.AttributesRecord{Verb: "impersonate", APIGroup: group, Resource: resource, Subresource: sub, Name: name, Namespace: ns}) {
					denied = true
				}
			}
			isSA := strings.HasPrefix(imp.user, "system:serviceaccount:") && len(strings.Split(imp.user, ":")) == 4
			if isSA {
				p := strings.Split(imp.user, ":")
				check("serviceaccounts", "", p[3], p[2])
			} else {
				check("users", "", imp.user, "")
			}
			for _, g := range imp.groups {
				check("groups", "", g, "")
			}
			for k, vv := range imp.extras {
				for _, v := range vv {
					check("userextras", k, v, "")
				}
			}
			if denied {
				sub.Class("impersonation-denied")
				if resp.Status != http.StatusForbidden {
					t.Fatalf("a requested impersonation element is refused by the authorizer but the answer was %d, expected 403\n%s", resp.Status, desc)
				}
				notForwarded("refused impersonation")
				return
			}
			effective = gwbox.Identity{Name: imp.user, Groups: imp.groups, Extra: imp.extras}
			sub.Class("impersonation-allowed")
		} else {
			sub.Class("no-impersonation")
		}
		if imp.foreign {
			sub.Class("foreign-impersonate-header-sent")
		}
		if upgrade && resp.Status == 101 {
			resp.Status = 200
		}
		if resp.Status != 200 || len(seen) != 1 {
			t.Fatalf("request should have been forwarded (status %d, seen by %d upstreams, body %q)\n%s", resp.Status, len(seen), string(resp.Body), desc)
		}
		up := seen[0].Header
		// credential
		if got := up["Authorization"]; (len(got) != 1 || got[0] != "Bearer gateway-secret-token") && !(upgrade && len(got) == 0) {
			// (on the upgrade path a bearer-token credential is not added at all: observation in DESIGN 9.3)
			t.Fatalf("upstream received Authorization %q, expected exactly the gateway's own credential\n%s", got, desc)
		}
		// identity as a kube-apiserver decodes it
		obsUser := up.Get("Impersonate-User")
		if obsUser != effective.Name {
			t.Fatalf("upstream is told to act as user %q, the effective identity is %q\n%s\nupstream headers %q", obsUser, effective.Name, desc, up)
		}
		obsGroups := up["Impersonate-Group"]
		want := effective.Groups
		if len(obsGroups) < len(want) {
			t.Fatalf("upstream is told groups %q, the effective identity has %q\n%s", obsGroups, want, desc)
		}
		for i, g := range want {
			if obsGroups[i] != g {
				t.Fatalf("upstream is told groups %q, the effective identity has %q\n%s", obsGroups, want, desc)
			}
		}
		for _, g := range obsGroups[len(want):] {
			if !implied[g] && !strings.HasPrefix(g, "system:serviceaccounts:") {
				t.Fatalf("upstream is told group %q which is neither in the effective identity %q nor a standard implied group\n%s", g, want, desc)
			}
		}
		obsExtra := map[string][]string{}
		for name, vv := range up {
			if strings.HasPrefix(name, "Impersonate-Extra-") {
				k := strings.ToLower(name[len("Impersonate-Extra-"):])
				if u, err := url.PathUnescape(k); err == nil {
					k = u
				}
				obsExtra[k] = append(obsExtra[k], vv...)
			} else if strings.HasPrefix(name, "Impersonate-") && name != "Impersonate-User" && name != "Impersonate-Group" {
				t.Fatalf("upstream received header %s: %q - an Impersonate-* header that is not generated from the effective identity\n%s", name, vv, desc)
			}
		}
		for k := range obsExtra {
			sort.Strings(obsExtra[k])
		}
		wantExtra := lowerKeys(effective.Extra)
		if fmt.Sprint(obsExtra) != fmt.Sprint(wantExtra) {
			t.Fatalf("upstream is told extras %q, the effective identity has %q\n%s", obsExtra, wantExtra, desc)
		}
		if sub.WantSample() && (imp.requested || imp.foreign) {
			sub.Sample(map[string]interface{}{"identity": fmt.Sprintf("%+v", id), "client_headers": cr.headers, "upstream_identity_headers": map[string]interface{}{"user": obsUser, "groups": obsGroups, "extra": obsExtra}, "status": resp.Status})
		}

	}
}

// FuzzIdentityPropagation: the same property driven by Go's coverage-guided fuzzer (thorough tier): the fuzzer's bytes are rapid's bit stream, so every input comes from the same generators and is judged by the same oracle.
func FuzzIdentityPropagation(f *testing.F) {
	f.Fuzz(rapid.MakeFuzz(propIdentityPropagation()))
}

// TestReplayForeignImpersonateHeaders: witness from the design phase.
func TestReplayForeignImpersonateHeaders(t *testing.T) {
	gateway.SetToken("client-token", gwbox.Identity{Name: "alice", Groups: []string{"dev"}})
	gateway.Authorize = nil
	resp := gateway.Do(context.Background(), gwbox.RawRequest{Method: "GET", Target: "/api/v1/pods", Host: "alpha", Headers: [][2]string{{gwbox.IDHeader, "c02-witness"}, {"Authorization", "Bearer client-token"}, {"Impersonate-Uid", "evil"}, {"Impersonate-Foo", "bar"}}})
	seen := pool.Find("c02-witness")
	pool.Forget("c02-witness")
	if resp.Status != 200 || len(seen) != 1 {
		t.Fatalf("harness: status %d seen %d", resp.Status, len(seen))
	}
	for name, vv := range seen[0].Header {
		if strings.HasPrefix(name, "Impersonate-") && name != "Impersonate-User" && name != "Impersonate-Group" {
			t.Errorf("client-supplied %s: %q reached the upstream", name, vv)
		}
	}
}
