//go:build verif

// C20 — spec/status separation and generation conventions of the control-plane API.
package c20

import (
	"context"
	"fmt"
	"testing"
	"time"

	"github.com/kubewharf/apiserver-runtime/pkg/registry"
	"github.com/kubewharf/apiserver-runtime/pkg/scheme"
	rtstorage "github.com/kubewharf/apiserver-runtime/pkg/server/storage"
	apiequality "k8s.io/apimachinery/pkg/api/equality"
	metav1 "k8s.io/apimachinery/pkg/apis/meta/v1"
	"k8s.io/apimachinery/pkg/runtime"
	"k8s.io/apimachinery/pkg/runtime/schema"
	"k8s.io/apimachinery/pkg/types"
	genericapirequest "k8s.io/apiserver/pkg/endpoints/request"
	"k8s.io/apiserver/pkg/registry/generic"
	genericregistry "k8s.io/apiserver/pkg/registry/generic/registry"
	"k8s.io/apiserver/pkg/registry/rest"
	serverstorage "k8s.io/apiserver/pkg/server/storage"
	"k8s.io/apiserver/pkg/storage"
	"k8s.io/apiserver/pkg/storage/storagebackend"
	"k8s.io/apiserver/pkg/storage/storagebackend/factory"
	"k8s.io/client-go/tools/cache"
	"pgregory.net/rapid"

	proxyv1alpha1 "github.com/kubewharf/kubegateway/pkg/apis/proxy/v1alpha1"
	controlplane "github.com/kubewharf/kubegateway/pkg/gateway/controlplane"
	proxyrest "github.com/kubewharf/kubegateway/pkg/gateway/controlplane/registry/proxy/rest"
	"verifharness/internal/stats"
)

func TestMain(m *testing.M) {
	stats.Property("C20")
	stats.Assume(
		"strategies are the ones registered by the gateway's own NewRESTStorageProvider (taken out of the genericregistry.Store objects it builds; storage backend replaced by a never-used stub), driven through the API library's rest.BeforeCreate / rest.BeforeUpdate entry points",
		"UpstreamCluster is the only kind served with a status subresource and its status type is empty; to exercise the status clauses with a non-empty status the same registered strategy objects are also applied to RateLimitCondition values (the strategies are reflection-generic) - labelled kind=RateLimitCondition-under-UpstreamCluster-strategy",
		"equality of spec / annotations is apiequality.Semantic.DeepEqual",
		"Go runtime, pgregory.net/rapid v1.3.0",
	)
	stats.Main(m)
}

type fakeGetter struct{}

func (fakeGetter) GetRESTOptions(resource schema.GroupResource) (generic.RESTOptions, error) {
	return generic.RESTOptions{
		StorageConfig: &storagebackend.Config{},
		Decorator: func(config *storagebackend.Config, resourcePrefix string, keyFunc func(obj runtime.Object) (string, error), newFunc func() runtime.Object,
			newListFunc func() runtime.Object, getAttrsFunc storage.AttrFunc, trigger storage.IndexerFuncs, indexers *cache.Indexers) (storage.Interface, factory.DestroyFunc, error) {
			return nil, func() {}, nil
		},
		DeleteCollectionWorkers: 1,
		ResourcePrefix:          resource.Resource,
	}, nil
}

type strategies struct {
	create rest.RESTCreateStrategy
	update rest.RESTUpdateStrategy
	status rest.RESTUpdateStrategy // nil when the kind has no status subresource
}

var registered = map[string]strategies{}

func init() {
	enc := serverstorage.NewDefaultResourceEncodingConfig(scheme.Scheme)
	sf := &rtstorage.DefaultStorageFactory{
		DefaultStorageFactory:  serverstorage.NewDefaultStorageFactory(storagebackend.Config{Prefix: "/registry"}, "application/json", nil, enc, serverstorage.NewResourceConfig(), nil),
		ResourceEncodingConfig: enc,
	}
	f := registry.NewRESTStorageOptionsFactory(sf)
	provider := proxyrest.NewRESTStorageProviderOrDie(scheme.Scheme, f)
	info, ok, err := provider.NewRESTStorage(controlplane.DefaultAPIResourceConfigSource(), fakeGetter{})
	if err != nil || !ok {
		panic(fmt.Sprintf("harness: cannot build REST storage: %v", err))
	}
	m := info.VersionedResourcesStorageMap["v1alpha1"]
	for _, res := range []string{"upstreamclusters", "ratelimitconditions"} {
		o, ok := m[res].(*registry.ObjectREST)
		if !ok {
			panic("harness: no ObjectREST for " + res)
		}
		s := strategies{create: o.Store.CreateStrategy, update: o.Store.UpdateStrategy}
		if st, ok := m[res+"/status"].(*registry.StatusREST); ok {
			s.status = st.Store.UpdateStrategy
		}
		registered[res] = s
	}
	_ = genericregistry.Store{}
}

// ---- generators ----------------------------------------------------------

var smallStrings = []string{"", "a", "b", "c"}

func genMap(t *rapid.T, label string) map[string]string {
	k := rapid.IntRange(0, 3).Draw(t, label+".n")
	if k == 0 {
		// nil and empty are the same object on the wire (omitempty); only nil is generated so that
		// the oracle does not depend on how nil-vs-empty is treated
		return nil
	}
	m := map[string]string{}
	for i := 0; i < k; i++ {
		m[rapid.SampledFrom([]string{"k1", "k2", "k3"}).Draw(t, label+".k")] = rapid.SampledFrom(smallStrings).Draw(t, label+".v")
	}
	return m
}

func genMeta(t *rapid.T, label, name string) metav1.ObjectMeta {
	m := genLiveMeta(t, label, name)
	if rapid.IntRange(0, 3).Draw(t, label+".pendingDeletion") == 0 {
		// the stored object is pending deletion (DELETE was called, finalizers remain): it can still be updated
		ts := metav1.NewTime(time.Unix(1700000000, 0))
		zero := int64(0)
		m.DeletionTimestamp, m.DeletionGracePeriodSeconds = &ts, &zero
		if len(m.Finalizers) == 0 {
			m.Finalizers = []string{"f1"}
		}
	}
	return m
}

func genLiveMeta(t *rapid.T, label, name string) metav1.ObjectMeta {
	return metav1.ObjectMeta{
		Name:            name,
		UID:             types.UID("uid-1"),
		ResourceVersion: "7",
		Generation:      int64(rapid.IntRange(0, 50).Draw(t, label+".generation")),
		Labels:          genMap(t, label+".labels"),
		Annotations:     genMap(t, label+".annotations"),
		Finalizers:      nilIfEmpty(rapid.SliceOfN(rapid.SampledFrom([]string{"f1", "f2"}), 0, 2).Draw(t, label+".finalizers")),
	}
}

func genUCSpec(t *rapid.T, label string) proxyv1alpha1.UpstreamClusterSpec {
	s := proxyv1alpha1.UpstreamClusterSpec{}
	n := rapid.IntRange(0, 2).Draw(t, label+".nservers")
	for i := 0; i < n; i++ {
		srv := proxyv1alpha1.UpstreamClusterServer{Endpoint: rapid.SampledFrom([]string{"https://a:6443", "https://b:6443"}).Draw(t, label+".endpoint")}
		if rapid.Bool().Draw(t, label+".hasDisabled") {
			b := rapid.Bool().Draw(t, label+".disabled")
			srv.Disabled = &b
		}
		s.Servers = append(s.Servers, srv)
	}
	s.ClientConfig.QPS = int32(rapid.IntRange(0, 2).Draw(t, label+".qps"))
	s.SecureServing.ServerNames = nilIfEmpty(rapid.SliceOfN(rapid.SampledFrom([]string{"x.io", "y.io"}), 0, 2).Draw(t, label+".serverNames"))
	if rapid.Bool().Draw(t, label+".schema") {
		s.FlowControl.Schemas = []proxyv1alpha1.FlowControlSchema{{Name: "s", FlowControlSchemaConfiguration: proxyv1alpha1.FlowControlSchemaConfiguration{
			MaxRequestsInflight: &proxyv1alpha1.MaxRequestsInflightFlowControlSchema{Max: int32(rapid.IntRange(1, 3).Draw(t, label+".max"))}}}}
	}
	if rapid.Bool().Draw(t, label+".policy") {
		s.DispatchPolicies = []proxyv1alpha1.DispatchPolicy{{Rules: []proxyv1alpha1.DispatchPolicyRule{{Verbs: nilIfEmpty(rapid.SliceOfN(rapid.SampledFrom([]string{"get", "*"}), 0, 2).Draw(t, label+".verbs"))}}}}
	}
	s.Logging.Mode = proxyv1alpha1.LogMode(rapid.SampledFrom([]string{"", "on", "off"}).Draw(t, label+".log"))
	return s
}

func genRLCSpec(t *rapid.T, label string) proxyv1alpha1.RateLimitSpec {
	s := proxyv1alpha1.RateLimitSpec{UpstreamCluster: rapid.SampledFrom(smallStrings).Draw(t, label+".uc"), Instance: rapid.SampledFrom(smallStrings).Draw(t, label+".inst")}
	n := rapid.IntRange(0, 2).Draw(t, label+".nitems")
	for i := 0; i < n; i++ {
		it := proxyv1alpha1.RateLimitItemConfiguration{Name: rapid.SampledFrom([]string{"s1", "s2"}).Draw(t, label+".item")}
		if rapid.Bool().Draw(t, label+".mif") {
			it.MaxRequestsInflight = &proxyv1alpha1.MaxRequestsInflightFlowControlSchema{Max: int32(rapid.IntRange(0, 3).Draw(t, label+".max"))}
		} else {
			it.TokenBucket = &proxyv1alpha1.TokenBucketFlowControlSchema{QPS: int32(rapid.IntRange(0, 3).Draw(t, label+".qps")), Burst: 3}
		}
		s.LimitItemConfigurations = append(s.LimitItemConfigurations, it)
	}
	return s
}

func genRLCStatus(t *rapid.T, label string) proxyv1alpha1.RateLimitStatus {
	s := proxyv1alpha1.RateLimitStatus{}
	n := rapid.IntRange(0, 2).Draw(t, label+".nitems")
	for i := 0; i < n; i++ {
		it := proxyv1alpha1.RateLimitItemStatus{Name: rapid.SampledFrom([]string{"s1", "s2"}).Draw(t, label+".item"), RequestLevel: int32(rapid.IntRange(0, 3).Draw(t, label+".level"))}
		if rapid.Bool().Draw(t, label+".mif") {
			it.MaxRequestsInflight = &proxyv1alpha1.MaxRequestsInflightFlowControlSchema{Max: int32(rapid.IntRange(0, 3).Draw(t, label+".max"))}
		}
		s.LimitItemStatuses = append(s.LimitItemStatuses, it)
	}
	return s
}

// mutate decides per part whether the submitted object differs from the stored one.
type diffPlan struct{ labels, annotations, spec, status, generation, otherMeta bool }

func genPlan(t *rapid.T) diffPlan {
	bits := rapid.IntRange(0, 63).Draw(t, "differs")
	return diffPlan{bits&1 != 0, bits&2 != 0, bits&4 != 0, bits&8 != 0, bits&16 != 0, bits&32 != 0}
}

func ctx() context.Context { return genericapirequest.NewContext() }

type objKind struct {
	name     string
	strat    strategies
	hasSub   bool
	newPair  func(t *rapid.T, p diffPlan) (stored, submitted runtime.Object)
	spec     func(o runtime.Object) interface{}
	status   func(o runtime.Object) interface{}
	meta     func(o runtime.Object) *metav1.ObjectMeta
	nonEmpty func(o runtime.Object) bool // status is non-zero
}

func kinds() []objKind {
	ucMeta := func(o runtime.Object) *metav1.ObjectMeta { return &o.(*proxyv1alpha1.UpstreamCluster).ObjectMeta }
	rlcMeta := func(o runtime.Object) *metav1.ObjectMeta { return &o.(*proxyv1alpha1.RateLimitCondition).ObjectMeta }
	ucPair := func(t *rapid.T, p diffPlan) (runtime.Object, runtime.Object) {
		old := &proxyv1alpha1.UpstreamCluster{ObjectMeta: genMeta(t, "stored.meta", "c1"), Spec: genUCSpec(t, "stored.spec")}
		nu := old.DeepCopy()
		applyMetaPlan(t, &nu.ObjectMeta, p)
		if p.spec {
			nu.Spec = genUCSpec(t, "submitted.spec")
		}
		return old, nu
	}
	rlcPair := func(t *rapid.T, p diffPlan) (runtime.Object, runtime.Object) {
		old := &proxyv1alpha1.RateLimitCondition{ObjectMeta: genMeta(t, "stored.meta", "c1.i1"), Spec: genRLCSpec(t, "stored.spec"), Status: genRLCStatus(t, "stored.status")}
		nu := old.DeepCopy()
		applyMetaPlan(t, &nu.ObjectMeta, p)
		if p.spec {
			nu.Spec = genRLCSpec(t, "submitted.spec")
		}
		if p.status {
			nu.Status = genRLCStatus(t, "submitted.status")
		}
		return old, nu
	}
	uc := registered["upstreamclusters"]
	rlc := registered["ratelimitconditions"]
	return []objKind{
		{"UpstreamCluster", uc, uc.status != nil, ucPair,
			func(o runtime.Object) interface{} { return o.(*proxyv1alpha1.UpstreamCluster).Spec },
			func(o runtime.Object) interface{} { return o.(*proxyv1alpha1.UpstreamCluster).Status }, ucMeta,
			func(o runtime.Object) bool { return false }},
		{"RateLimitCondition", rlc, rlc.status != nil, rlcPair,
			func(o runtime.Object) interface{} { return o.(*proxyv1alpha1.RateLimitCondition).Spec },
			func(o runtime.Object) interface{} { return o.(*proxyv1alpha1.RateLimitCondition).Status }, rlcMeta,
			func(o runtime.Object) bool {
				return len(o.(*proxyv1alpha1.RateLimitCondition).Status.LimitItemStatuses) > 0
			}},
		{"RateLimitCondition-under-UpstreamCluster-strategy", uc, uc.status != nil, rlcPair,
			func(o runtime.Object) interface{} { return o.(*proxyv1alpha1.RateLimitCondition).Spec },
			func(o runtime.Object) interface{} { return o.(*proxyv1alpha1.RateLimitCondition).Status }, rlcMeta,
			func(o runtime.Object) bool {
				return len(o.(*proxyv1alpha1.RateLimitCondition).Status.LimitItemStatuses) > 0
			}},
	}
}

func applyMetaPlan(t *rapid.T, m *metav1.ObjectMeta, p diffPlan) {
	if p.labels {
		m.Labels = genMap(t, "submitted.labels")
	}
	if p.annotations {
		m.Annotations = genMap(t, "submitted.annotations")
	}
	if p.generation {
		m.Generation = int64(rapid.IntRange(0, 99).Draw(t, "submitted.generation"))
	}
	if p.otherMeta {
		if m.DeletionTimestamp != nil {
			// no finalizer can be added to an object that is being deleted: the submitted list is a prefix of the stored one
			m.Finalizers = nilIfEmpty(m.Finalizers[:rapid.IntRange(0, len(m.Finalizers)).Draw(t, "submitted.finalizersKept")])
		} else {
			m.Finalizers = nilIfEmpty(rapid.SliceOfN(rapid.SampledFrom([]string{"f1", "f2", "f3"}), 0, 2).Draw(t, "submitted.finalizers"))
		}
		m.OwnerReferences = []metav1.OwnerReference{{APIVersion: "v1", Kind: "ConfigMap", Name: "o", UID: "u"}}
	}
}

func nilIfEmpty(s []string) []string {
	if len(s) == 0 {
		return nil
	}
	return s
}

func eq(a, b interface{}) bool { return apiequality.Semantic.DeepEqual(a, b) }

func TestPropUpdateConventions(t *testing.T) {
	stats.Check(t, stats.N(30000, 400000), propUpdateConventions())
}

// propUpdateConventions: the property of TestPropUpdateConventions (shared with the native fuzz target FuzzUpdateConventions).
func propUpdateConventions() func(t *rapid.T) {
	sub := stats.NewSub("update-conventions", "rapid: pair (stored, submitted) of UpstreamCluster / RateLimitCondition (one stored object in four is pending deletion: deletionTimestamp set, finalizers remaining) with any subset of {labels, annotations, spec, status, generation, other metadata} re-drawn for the submitted object (including 'nothing differs'); main update through rest.BeforeUpdate with the registered strategy and status update with the registered status strategy; oracle: status update leaves spec+labels = stored, main update leaves status = stored (kinds with a status subresource), generation' = stored+1 iff spec or annotations differ (Semantic.DeepEqual) else stored; non-trivial = pair differs in >=1 part but not in spec/annotations, or differs in spec/annotations and in another part too; distinct by FNV-64 of (kind, stored, submitted)")
	ks := kinds()
	return func(t *rapid.T) {
		k := ks[rapid.IntRange(0, len(ks)-1).Draw(t, "kind")]
		p := genPlan(t)
		stored, submitted := k.newPair(t, p)
		sub.Eval()
		sub.Class("kind=" + k.name)
		specDiff := !eq(k.spec(stored), k.spec(submitted))
		annDiff := !eq(k.meta(stored).Annotations, k.meta(submitted).Annotations)
		labDiff := !eq(k.meta(stored).Labels, k.meta(submitted).Labels)
		statusDiff := !eq(k.status(stored), k.status(submitted))
		other := labDiff || statusDiff || p.generation || p.otherMeta
		if (!specDiff && !annDiff && other) || ((specDiff || annDiff) && other) {
			sub.NonTrivial(stats.Hash(k.name, stored, submitted))
		}
		if !specDiff && !annDiff {
			sub.Class("spec-and-annotations-unchanged")
		} else {
			sub.Class("spec-or-annotations-changed")
		}
		if statusDiff {
			sub.Class("status-differs")
		}

		// ---- main resource update
		old1, new1 := stored.DeepCopyObject(), submitted.DeepCopyObject()
		if err := rest.BeforeUpdate(k.strat.update, ctx(), new1, old1); err != nil {
			t.Fatalf("harness: BeforeUpdate failed: %v", err)
		}
		if !eq(stored, old1) {
			t.Fatalf("%s: main update modified the stored object", k.name)
		}
		if k.hasSub {
			if !eq(k.status(new1), k.status(stored)) {
				t.Fatalf("%s: updating the main resource changed status\nstored:    %+v\nsubmitted: %+v\nresult:    %+v", k.name, k.status(stored), k.status(submitted), k.status(new1))
			}
		}
		if !eq(k.spec(new1), k.spec(submitted)) || !eq(k.meta(new1).Labels, k.meta(submitted).Labels) || !eq(k.meta(new1).Annotations, k.meta(submitted).Annotations) {
			t.Fatalf("%s: main update did not keep the submitted spec/labels/annotations", k.name)
		}
		wantGen := k.meta(stored).Generation
		if specDiff || annDiff {
			wantGen++
		}
		if got := k.meta(new1).Generation; got != wantGen {
			t.Fatalf("%s: generation after main update = %d, want %d (stored %d, spec differs=%v, annotations differ=%v, submitted generation %d)\nstored:    %+v\nsubmitted: %+v",
				k.name, got, wantGen, k.meta(stored).Generation, specDiff, annDiff, k.meta(submitted).Generation, stored, submitted)
		}

		// ---- status subresource update
		if k.strat.status != nil {
			old2, new2 := stored.DeepCopyObject(), submitted.DeepCopyObject()
			if err := rest.BeforeUpdate(k.strat.status, ctx(), new2, old2); err != nil {
				t.Fatalf("harness: BeforeUpdate(status) failed: %v", err)
			}
			if !eq(k.spec(new2), k.spec(stored)) {
				t.Fatalf("%s: status update changed spec\nstored: %+v\nresult: %+v", k.name, k.spec(stored), k.spec(new2))
			}
			if !eq(k.meta(new2).Labels, k.meta(stored).Labels) {
				t.Fatalf("%s: status update changed labels %v -> %v", k.name, k.meta(stored).Labels, k.meta(new2).Labels)
			}
			if !eq(k.status(new2), k.status(submitted)) {
				t.Fatalf("%s: status update did not store the submitted status", k.name)
			}
			// generation: spec is restored, so only an annotation change may bump it
			wantGen2 := k.meta(stored).Generation
			if got := k.meta(new2).Generation; got != wantGen2 && !(annDiff && got == wantGen2+1) {
				t.Fatalf("%s: generation after status update = %d, stored %d (annotations differ=%v)", k.name, got, wantGen2, annDiff)
			}
		}
		if sub.WantSample() && !specDiff && !annDiff && other {
			sub.Sample(map[string]interface{}{"kind": k.name, "stored": fmt.Sprintf("%+v", stored), "submitted": fmt.Sprintf("%+v", submitted), "generation_after_main_update": k.meta(new1).Generation})
		}

	}
}

// FuzzUpdateConventions: the same property driven by Go's coverage-guided fuzzer (thorough tier): the fuzzer's bytes are rapid's bit stream, so every input comes from the same generators and is judged by the same oracle.
func FuzzUpdateConventions(f *testing.F) {
	f.Fuzz(rapid.MakeFuzz(propUpdateConventions()))
}

func TestPropCreateConventions(t *testing.T) {
	sub := stats.NewSub("create-conventions", "rapid: submitted UpstreamCluster / RateLimitCondition with arbitrary generation and status; rest.BeforeCreate with the registered strategy; oracle: generation = 1, status cleared for kinds with a status subresource, spec/labels/annotations kept; non-trivial = submitted generation != 1 or status non-empty")
	ks := kinds()
	stats.Check(t, stats.N(10000, 100000), func(t *rapid.T) {
		k := ks[rapid.IntRange(0, len(ks)-1).Draw(t, "kind")]
		_, submitted := k.newPair(t, diffPlan{true, true, true, true, true, true})
		m := k.meta(submitted)
		m.ResourceVersion = ""
		m.UID = ""
		sub.Eval()
		sub.Class("kind=" + k.name)
		if m.Generation != 1 || k.nonEmpty(submitted) {
			sub.NonTrivial(stats.Hash(k.name, submitted))
		}
		obj := submitted.DeepCopyObject()
		if err := rest.BeforeCreate(k.strat.create, ctx(), obj); err != nil {
			t.Fatalf("harness: BeforeCreate failed: %v", err)
		}
		if g := k.meta(obj).Generation; g != 1 {
			t.Fatalf("%s: generation after create = %d, want 1", k.name, g)
		}
		if k.hasSub && k.nonEmpty(obj) {
			t.Fatalf("%s: creation did not clear status: %+v", k.name, k.status(obj))
		}
		if !eq(k.spec(obj), k.spec(submitted)) || !eq(k.meta(obj).Labels, m.Labels) || !eq(k.meta(obj).Annotations, m.Annotations) {
			t.Fatalf("%s: creation changed spec/labels/annotations", k.name)
		}
		if sub.WantSample() && k.nonEmpty(submitted) {
			sub.Sample(map[string]interface{}{"kind": k.name, "submitted": fmt.Sprintf("%+v", submitted), "created": fmt.Sprintf("%+v", obj)})
		}
	})
}

// TestReplayNoChangeUpdate: witness from the property file — an update that changes nothing must not bump the generation.
func TestReplayNoChangeUpdate(t *testing.T) {
	old := &proxyv1alpha1.UpstreamCluster{ObjectMeta: metav1.ObjectMeta{Name: "c1", ResourceVersion: "7", Generation: 5}}
	old.Spec.Servers = []proxyv1alpha1.UpstreamClusterServer{{Endpoint: "https://a:6443"}}
	nu := old.DeepCopy()
	if err := rest.BeforeUpdate(registered["upstreamclusters"].update, ctx(), nu, old.DeepCopy()); err != nil {
		t.Fatal(err)
	}
	if nu.Generation != 5 {
		t.Errorf("no-change update bumped the generation 5 -> %d", nu.Generation)
	}
	nu2 := old.DeepCopy()
	nu2.Labels = map[string]string{"a": "b"}
	if err := rest.BeforeUpdate(registered["upstreamclusters"].update, ctx(), nu2, old.DeepCopy()); err != nil {
		t.Fatal(err)
	}
	if nu2.Generation != 5 {
		t.Errorf("label-only update bumped the generation 5 -> %d", nu2.Generation)
	}
}
