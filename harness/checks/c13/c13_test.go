//go:build verif

// C13 — sharding: one shard per upstream on both sides; only its leader serves it.
package c13

import (
	"context"
	"encoding/json"
	"fmt"
	"net/http"
	"net/http/httptest"
	"net/url"
	"strings"
	"sync"
	"testing"
	"time"

	apierrors "k8s.io/apimachinery/pkg/api/errors"
	metav1 "k8s.io/apimachinery/pkg/apis/meta/v1"
	"k8s.io/client-go/rest"
	"pgregory.net/rapid"

	proxyv1alpha1 "github.com/kubewharf/kubegateway/pkg/apis/proxy/v1alpha1"
	"github.com/kubewharf/kubegateway/pkg/ratelimiter/clientsets"
	"github.com/kubewharf/kubegateway/pkg/ratelimiter/endpoints/dispather"
	rlutil "github.com/kubewharf/kubegateway/pkg/ratelimiter/util"
	"verifharness/internal/limbox"
	"verifharness/internal/stats"
)

func TestMain(m *testing.M) {
	stats.Property("C13")
	stats.Assume(
		"reference shard function: an independent FNV-1a-32 implementation in the harness, modulo N",
		"leadership is scripted through the exported elector.LeaderElector interface (real lease-based election is not exercised); the gateway-side client set is the real one built by the verif hook, synced from real /ratelimit/endpoints replies",
		"Go runtime, pgregory.net/rapid v1.3.0, net/http loopback",
	)
	stats.Main(m)
}

// refShard is FNV-1a 32 written out (not hash/fnv), modulo n.
func refShard(name string, n int) int {
	h := uint32(2166136261)
	for i := 0; i < len(name); i++ {
		h ^= uint32(name[i])
		h *= 16777619
	}
	return int(h % uint32(n))
}

func genName(t *rapid.T, label string) string {
	switch rapid.IntRange(0, 3).Draw(t, label+".kind") {
	case 0:
		return rapid.StringMatching(`[a-z0-9][a-z0-9.-]{0,20}`).Draw(t, label)
	case 1:
		return string(rapid.SliceOfN(rapid.Byte(), 0, 40).Draw(t, label))
	case 2:
		return rapid.String().Draw(t, label)
	default:
		return rapid.SampledFrom([]string{"", "a", "cluster-a", "cluster-b", "CLUSTER-A", "k8s.example.com", "x.y.z"}).Draw(t, label)
	}
}

func genN(t *rapid.T) int {
	switch rapid.IntRange(0, 2).Draw(t, "Nclass") {
	case 0:
		return rapid.IntRange(1, 8).Draw(t, "N")
	case 1:
		return rapid.IntRange(1, 1024).Draw(t, "N")
	default:
		return rapid.IntRange(1, 1<<20).Draw(t, "N")
	}
}

// TestPropShardFunction: range, determinism, agreement with the reference.
func TestPropShardFunction(t *testing.T) {
	stats.Check(t, stats.N(100000, 2000000), propShardFunction())
}

// propShardFunction: the property of TestPropShardFunction (shared with the native fuzz target FuzzShardFunction).
func propShardFunction() func(t *rapid.T) {
	sub := stats.NewSub("shard-function", "rapid: upstream name (DNS-like, arbitrary bytes, arbitrary unicode, fixed pool) x shard count N in [1, 2^20]; oracle: GetShardID in [0,N), equal on a second call, equal to an independent FNV-1a-32 mod N; non-trivial = N >= 2 and name non-empty; distinct by FNV-64 of (name, N)")
	return func(t *rapid.T) {
		name := genName(t, "name")
		n := genN(t)
		got := rlutil.GetShardID(name, n)
		sub.Eval()
		if n >= 2 && name != "" {
			sub.NonTrivial(stats.Hash(name, n))
		}
		if sub.WantSample() && n > 2 {
			sub.Sample(map[string]interface{}{"name": name, "N": n, "shard": got})
		}
		if got < 0 || got >= n {
			t.Fatalf("GetShardID(%q, %d) = %d outside [0,%d)", name, n, got, n)
		}
		if again := rlutil.GetShardID(name, n); again != got {
			t.Fatalf("GetShardID(%q, %d) is not deterministic: %d then %d", name, n, got, again)
		}
		if want := refShard(name, n); got != want {
			t.Fatalf("GetShardID(%q, %d) = %d, reference FNV-1a-32 mod N = %d", name, n, got, want)
		}

	}
}

// FuzzShardFunction: the same property driven by Go's coverage-guided fuzzer (thorough tier): the fuzzer's bytes are rapid's bit stream, so every input comes from the same generators and is judged by the same oracle.
func FuzzShardFunction(f *testing.F) {
	f.Fuzz(rapid.MakeFuzz(propShardFunction()))
}

// ---- gateway side: real clientSets synced from a scripted /ratelimit/endpoints ----------------------

type infoServer struct {
	mu   sync.Mutex
	info proxyv1alpha1.RateLimitServerInfo
	srv  *httptest.Server
}

var infoSrv = func() *infoServer {
	s := &infoServer{}
	s.srv = httptest.NewServer(http.HandlerFunc(func(w http.ResponseWriter, r *http.Request) {
		if r.URL.Path != clientsets.ServerInfoUrl {
			http.NotFound(w, r)
			return
		}
		s.mu.Lock()
		b, _ := json.Marshal(s.info)
		s.mu.Unlock()
		w.Header().Set("Content-Type", "application/json")
		_, _ = w.Write(b)
	}))
	return s
}()

func TestPropGatewaySideRouting(t *testing.T) {
	sub := stats.NewSub("gateway-side-routing", "rapid: 1-3 rounds on ONE real gateway-side client set (verif constructor, no background loops), each round a /ratelimit/endpoints reply with its own shard count N in [1,64] (the limiter deployment may be resharded) and a leader address per shard (some shards not announced), then lookups for the same 1-6 upstream names; oracle after every sync: ShardIDFor(name) = reference shard for the CURRENT N (the mapping depends only on the name and N, not on what was looked up before), ClientFor(name) addresses exactly the leader last announced for that shard, a shard never announced gives an error; non-trivial = N >= 2 and >= 2 distinct leaders; distinct by FNV-64 of the rounds and names")
	stats.Check(t, stats.N(3000, 40000), func(t *rapid.T) {
		names := rapid.SliceOfN(rapid.Custom(func(t *rapid.T) string { return genName(t, "name") }), 1, 6).Draw(t, "names")
		cs := clientsets.VerifNewClientSets(&rest.Config{}, "gw-1", func(string) []string { return []string{infoSrv.srv.URL} })
		rounds := rapid.IntRange(1, 3).Draw(t, "rounds")
		known := map[int]string{} // shard -> leader last announced
		nt := false
		desc := ""
		prevN := 0
		sub.Eval()
		for r := 0; r < rounds; r++ {
			n := rapid.IntRange(1, 64).Draw(t, fmt.Sprintf("N[%d]", r))
			if r > 0 && rapid.IntRange(0, 3).Draw(t, fmt.Sprintf("keepN[%d]", r)) == 0 {
				n = prevN
			}
			distinct := map[string]bool{}
			info := proxyv1alpha1.RateLimitServerInfo{Server: "s", ShardCount: int32(n)}
			for s := 0; s < n; s++ {
				k := rapid.IntRange(0, 4).Draw(t, fmt.Sprintf("leader[%d][%d]", r, s))
				if k == 0 {
					continue // no leader announced for this shard
				}
				l := fmt.Sprintf("http://limiter-%d.example:80%d", k, k)
				known[s] = l
				distinct[l] = true
				info.Endpoints = append(info.Endpoints, proxyv1alpha1.EndpointInfo{Leader: l, ShardID: int32(s)})
			}
			infoSrv.mu.Lock()
			infoSrv.info = info
			infoSrv.mu.Unlock()
			clientsets.VerifSync(cs)
			desc += fmt.Sprintf("sync(N=%d,%v);", n, info.Endpoints)
			if n >= 2 && len(distinct) >= 2 {
				nt = true
			}
			if r > 0 && n != prevN {
				sub.Class("shard-count-changed-between-syncs")
			}
			prevN = n
			for _, name := range names {
				want := refShard(name, n)
				got, err := cs.ShardIDFor(name)
				if err != nil {
					t.Fatalf("ShardIDFor(%q) after a sync with N=%d: %v", name, n, err)
				}
				if got != want {
					t.Fatalf("gateway maps %q to shard %d of %d, reference (and server) %d\nhistory: %s", name, got, n, want, desc)
				}
				client, err := cs.ClientFor(name)
				leader, has := known[want]
				if !has {
					if err == nil {
						t.Fatalf("shard %d never had an announced leader but ClientFor(%q) returned a client\nhistory: %s", want, name, desc)
					}
					sub.Class("shard-without-leader")
					continue
				}
				if err != nil {
					t.Fatalf("ClientFor(%q): %v (leader of shard %d is %s)\nhistory: %s", name, err, want, leader, desc)
				}
				u := client.ProxyV1alpha1().RESTClient().Get().AbsPath("/x").URL()
				lu, _ := url.Parse(leader)
				if u.Host != lu.Host {
					t.Fatalf("requests for %q (shard %d) are addressed to %s, the announced leader is %s\nhistory: %s", name, want, u.Host, lu.Host, desc)
				}
				sub.Class("routed-to-leader")
			}
		}
		if nt {
			sub.NonTrivial(stats.Hash(desc, names))
		}
		if sub.WantSample() && prevN >= 3 {
			sub.Sample(map[string]interface{}{"history": desc, "names": names})
		}
	})
}

// ---- server side: leader guard under scripted leadership ----------------------------------------------

var pool = []string{"alpha", "beta", "gamma", "delta", "k8s.example.com", "x"}

func report(box *limbox.Box, upstream, inst string) (*proxyv1alpha1.RateLimitCondition, error) {
	_ = box.Limiter.Heartbeat(inst)
	cond := &proxyv1alpha1.RateLimitCondition{ObjectMeta: metav1.ObjectMeta{Name: limbox.ConditionName(upstream, inst)}}
	cond.Spec.UpstreamCluster = upstream
	cond.Spec.Instance = inst
	cond.Spec.LimitItemConfigurations = []proxyv1alpha1.RateLimitItemConfiguration{{Name: "alloc", Strategy: proxyv1alpha1.GlobalAllocateLimit}}
	cond.Status.LimitItemStatuses = []proxyv1alpha1.RateLimitItemStatus{{Name: "alloc", LimitItemDetail: proxyv1alpha1.LimitItemDetail{MaxRequestsInflight: &proxyv1alpha1.MaxRequestsInflightFlowControlSchema{Max: 1}}}}
	return box.Limiter.UpdateRateLimitConditionStatus(upstream, cond)
}

func acquire(box *limbox.Box, upstream, inst string, id int64, n int32) (*proxyv1alpha1.RateLimitAcquire, error) {
	a := &proxyv1alpha1.RateLimitAcquire{ObjectMeta: metav1.ObjectMeta{Name: upstream}, Spec: proxyv1alpha1.RateLimitAcquireSpec{Instance: inst, RequestID: id,
		Requests: []proxyv1alpha1.RateLimitAcquireRequest{{FlowControl: "count", Tokens: n}}}}
	return box.Limiter.DoAcquire(upstream, a)
}

func poolCluster(name string, max int32) *proxyv1alpha1.UpstreamCluster {
	return limbox.Cluster(name,
		limbox.GlobalSchema("alloc", proxyv1alpha1.GlobalAllocateLimit, false, 2, max, 0, 0),
		limbox.GlobalSchema("count", proxyv1alpha1.GlobalCountLimit, false, 2, max, 0, 0))
}

func TestPropLeaderGuard(t *testing.T) {
	sub := stats.NewSub("leader-guard-histories", "rapid state machine on the real limiter with a real elector without leases (N in 1..4 shards, local / API-backed store): the REAL leader elector driven by leadership events through a hook; ops gain, a start attempt that hangs in Load and is overtaken by a loss and a second, successful start before it fails (API-backed store), lose (optionally with a tick of the periodic leader check landing while the loss is being processed), foreign leader announced (allocate and acquire are tried between the announcement and the periodic leader check, then leaderCheck), leader entry vanished without callback (+leaderCheck), allocate, acquire, cluster update, for a pool of upstream names; model = set of led shards and the conditions acknowledged per shard; oracle: a call succeeds iff the upstream's shard (reference function) is led, otherwise error naming the recorded leader and no store exists for the shard; a cluster update for a shard not led changes nothing; after lose+regain with the local store earlier conditions are gone; after a successful allocate only the owning shard's store holds the condition; non-trivial = history has a loss of leadership after a successful call and a later call for that shard; distinct by FNV-64 of the op trace")
	stats.Check(t, stats.N(4000, 25000), func(t *rapid.T) {
		n := rapid.IntRange(1, 4).Draw(t, "N")
		kind := rapid.SampledFrom([]string{"local", "k8s"}).Draw(t, "store")
		box := limbox.New(kind, n, "http://me:1")
		for _, name := range pool {
			_ = box.Controller.Indexer.Add(poolCluster(name, 10))
		}
		led := map[int]bool{}
		served := map[int]bool{} // a call for this shard has succeeded while led
		lostAfter := map[int]bool{}
		acked := map[int]map[string]bool{} // shard -> condition names acknowledged in the current leadership term (local) / ever (k8s)
		ids := map[string]int64{}
		trace := fmt.Sprintf("N=%d store=%s;", n, kind)
		nt := false
		sub.Eval()
		dropShard := func(s int) {
			if led[s] && served[s] {
				lostAfter[s] = true
			}
			led[s] = false
			if kind == "local" {
				acked[s] = nil
			}
		}
		expectRefused := func(t *rapid.T, what string, s int, err error) {
			if err == nil {
				t.Fatalf("%s for shard %d succeeded although this server does not lead it\ntrace: %s", what, s, trace)
			}
			if l := box.Elector.Leader(s); l != "" && !strings.Contains(err.Error(), l) {
				t.Fatalf("%s refused without naming the leader %q: %v\ntrace: %s", what, l, err, trace)
			}
			if box.Limiter.VerifStore(s) != nil {
				t.Fatalf("a store exists for shard %d that is not led\ntrace: %s", s, trace)
			}
		}
		t.Repeat(map[string]func(*rapid.T){
			"gain": func(t *rapid.T) {
				s := rapid.IntRange(0, n-1).Draw(t, "shard")
				if rapid.Bool().Draw(t, "viaLeaderCheck") {
					box.Elector.SetLeaderSilently(s, box.Elector.Identity)
					box.Limiter.VerifLeaderCheck()
				} else {
					box.Elector.Gain(s)
				}
				led[s] = true
				trace += fmt.Sprintf("gain(%d);", s)
			},
			"lose": func(t *rapid.T) {
				s := rapid.IntRange(0, n-1).Draw(t, "shard")
				tick := rapid.Bool().Draw(t, "leaderCheckTickWhileTheLossIsProcessed")
				if tick {
					// a tick of the periodic leader check lands right after the server released the shard's store, while
					// the elector is still processing the loss: the server must not consider itself leader there
					box.Elector.AfterStop = func(int) { box.Limiter.VerifLeaderCheck() }
				}
				box.Elector.Lose(s)
				box.Elector.AfterStop = nil
				dropShard(s)
				trace += fmt.Sprintf("lose(%d,tick=%v);", s, tick)
			},
			"overtakenStart": func(t *rapid.T) {
				// an API brown-out: a start attempt hangs in the store's Load (client-go runs OnStartedLeading in its own
				// goroutine), the lease is lost and gained again, the second start loads fine and serves, and only then
				// does the first attempt's list fail. The late failure must not touch the live store of the second start.
				if kind != "k8s" {
					t.Skip("only the API-backed store loads from the API")
				}
				s := rapid.IntRange(0, n-1).Draw(t, "shard")
				if led[s] || box.Limiter.VerifStore(s) != nil {
					t.Skip("shard is led")
				}
				gateArrived, releaseWithError := box.ListGate.Arm()
				first := make(chan struct{})
				go func() { box.Elector.Gain(s); close(first) }()
				select {
				case <-gateArrived:
				case <-first: // the start did not list (should not happen)
					box.ListGate.Disarm()
					led[s] = true
					trace += fmt.Sprintf("gain(%d);", s)
					return
				case <-time.After(5 * time.Second):
					t.Fatalf("harness: the first start attempt never reached the API\ntrace: %s", trace)
				}
				box.Elector.Lose(s)
				box.Elector.Gain(s) // the second start: lists without trouble
				releaseWithError()  // now the first attempt's list fails
				select {
				case <-first:
				case <-time.After(10 * time.Second):
					t.Fatalf("harness: the first start attempt did not return\ntrace: %s", trace)
				}
				led[s] = true
				trace += fmt.Sprintf("overtaken-start(%d);", s)
				nt = true
				sub.Class("start-attempt-overtaken-by-a-later-one")
			},
			"vanishedEntry": func(t *rapid.T) {
				// the leader table no longer names anybody for the shard and the lost-leadership callback did not (or not yet)
				// clean up - what a lease loss racing with the periodic leader check leaves behind; the next periodic check
				// must discard the shard's store
				s := rapid.IntRange(0, n-1).Draw(t, "shard")
				box.Elector.SetLeaderSilently(s, "")
				box.Limiter.VerifLeaderCheck()
				dropShard(s)
				trace += fmt.Sprintf("vanished(%d);", s)
			},
			"foreign": func(t *rapid.T) {
				s := rapid.IntRange(0, n-1).Draw(t, "shard")
				box.Elector.SetLeaderSilently(s, "http://other:2")
				wasLed := led[s]
				// between the announcement and the periodic leader check the guard must already refuse
				name := pool[rapid.IntRange(0, len(pool)-1).Draw(t, "probe")]
				if refShard(name, n) == s {
					// every entry point that changes quota state: allocate and acquire
					if _, err := report(box, name, "i1"); err == nil {
						t.Fatalf("allocate for shard %d succeeded after another leader was announced\ntrace: %s", s, trace)
					}
					ids["i1"]++
					if out, err := acquire(box, name, "i1", ids["i1"], int32(rapid.IntRange(0, 3).Draw(t, "n"))); err == nil {
						t.Fatalf("acquire for shard %d was served (%+v) after another leader was announced\ntrace: %s", s, out.Status.Results, trace)
					}
				}
				box.Limiter.VerifLeaderCheck()
				if wasLed {
					dropShard(s)
				}
				led[s] = false
				trace += fmt.Sprintf("foreign(%d);", s)
			},
			"allocate": func(t *rapid.T) {
				name := rapid.SampledFrom(pool).Draw(t, "upstream")
				inst := rapid.SampledFrom([]string{"i1", "i2"}).Draw(t, "instance")
				s := refShard(name, n)
				out, err := report(box, name, inst)
				trace += fmt.Sprintf("allocate(%s@%d,%s)->%v;", name, s, inst, err == nil)
				if !led[s] {
					expectRefused(t, "allocate", s, err)
					sub.Class("refused-not-leader")
					if lostAfter[s] {
						nt = true
					}
					return
				}
				if err != nil {
					t.Fatalf("allocate for %s (shard %d, led) failed: %v\ntrace: %s", name, s, err, trace)
				}
				if len(out.Spec.LimitItemConfigurations) != 1 {
					t.Fatalf("allocate answered %d items", len(out.Spec.LimitItemConfigurations))
				}
				served[s] = true
				if lostAfter[s] {
					nt = true
				}
				if acked[s] == nil {
					acked[s] = map[string]bool{}
				}
				acked[s][name+"/"+limbox.ConditionName(name, inst)] = true
				sub.Class("served-as-leader")
			},
			"acquire": func(t *rapid.T) {
				name := rapid.SampledFrom(pool).Draw(t, "upstream")
				inst := rapid.SampledFrom([]string{"i1", "i2"}).Draw(t, "instance")
				s := refShard(name, n)
				ids[inst]++
				out, err := acquire(box, name, inst, ids[inst], int32(rapid.IntRange(0, 3).Draw(t, "n")))
				trace += fmt.Sprintf("acquire(%s@%d,%s)->%v;", name, s, inst, err == nil)
				if !led[s] {
					expectRefused(t, "acquire", s, err)
					sub.Class("refused-not-leader")
					return
				}
				if err != nil {
					t.Fatalf("acquire for %s (shard %d, led) failed: %v\ntrace: %s", name, s, err, trace)
				}
				if len(out.Status.Results) != 1 || out.Status.Results[0].Error != "" {
					t.Fatalf("acquire for a led shard answered %+v\ntrace: %s", out.Status.Results, trace)
				}
				served[s] = true
				sub.Class("served-as-leader")
			},
			"clusterUpdate": func(t *rapid.T) {
				name := rapid.SampledFrom(pool).Draw(t, "upstream")
				s := refShard(name, n)
				max := int32(rapid.IntRange(5, 20).Draw(t, "max"))
				err := box.SetCluster(poolCluster(name, max))
				trace += fmt.Sprintf("cluster(%s@%d,max=%d);", name, s, max)
				if err != nil {
					t.Fatalf("cluster update returned %v\ntrace: %s", err, trace)
				}
				if !led[s] {
					if box.Limiter.VerifStore(s) != nil {
						t.Fatalf("cluster update created a store for shard %d that is not led\ntrace: %s", s, trace)
					}
					return
				}
				st, err := box.Limiter.GetUpstreamStatus(name)
				if err != nil {
					t.Fatalf("led shard %d has no state for %s after a cluster update: %v", s, name, err)
				}
				if len(st.Spec.LimitItemConfigurations) != 2 || st.Spec.LimitItemConfigurations[0].MaxRequestsInflight.Max != max {
					t.Fatalf("state of %s does not carry the new limit %d: %+v", name, max, st.Spec.LimitItemConfigurations)
				}
			},
			"": func(t *rapid.T) {
				for s := 0; s < n; s++ {
					store := box.Limiter.VerifStore(s)
					if !led[s] {
						if store != nil {
							t.Fatalf("shard %d is not led but its in-memory store still exists\ntrace: %s", s, trace)
						}
						continue
					}
					if store == nil {
						t.Fatalf("shard %d is led but has no store\ntrace: %s", s, trace)
					}
					// every condition in this store belongs to this shard; the acknowledged ones of this term are there
					have := map[string]bool{}
					for _, name := range pool {
						for _, c := range store.ListUpstream(name) {
							if refShard(c.Spec.UpstreamCluster, n) != s {
								t.Fatalf("store of shard %d holds condition %s of upstream %s (shard %d)\ntrace: %s", s, c.Name, c.Spec.UpstreamCluster, refShard(c.Spec.UpstreamCluster, n), trace)
							}
							if !strings.HasSuffix(c.Name, ".state") {
								have[name+"/"+c.Name] = true
							}
						}
					}
					for k := range acked[s] {
						if !have[k] {
							t.Fatalf("condition %s acknowledged by shard %d is not in its store\ntrace: %s", k, s, trace)
						}
					}
					if kind == "local" {
						for k := range have {
							if !acked[s][k] {
								t.Fatalf("shard %d (local store) holds condition %s from before it last lost leadership\ntrace: %s", s, k, trace)
							}
						}
					}
				}
			},
		})
		if nt {
			sub.NonTrivial(stats.HashString(trace))
			if sub.WantSample() {
				sub.Sample(trace)
			}
		}
	})
}

// ---- end to end: real gateway-side client set <-> real server handlers <-> real limiters ---------------

type e2e struct {
	boxes   []*limbox.Box
	servers []*httptest.Server
}

func newE2E(nServers, nShards int, assign func(shard int) int) *e2e {
	e := &e2e{}
	var urls []string
	for i := 0; i < nServers; i++ {
		srv := httptest.NewUnstartedServer(nil)
		e.servers = append(e.servers, srv)
		srv.Start()
		urls = append(urls, srv.URL)
	}
	for i := 0; i < nServers; i++ {
		box := limbox.New("local", nShards, urls[i])
		e.boxes = append(e.boxes, box)
		e.servers[i].Config.Handler = dispather.WithLimiterDispatcher(http.NotFoundHandler(), box.Limiter)
	}
	for s := 0; s < nShards; s++ {
		owner := assign(s)
		for i, box := range e.boxes {
			if i == owner {
				box.Elector.Gain(s)
			} else if owner >= 0 {
				box.Elector.SetLeaderSilently(s, urls[owner])
			}
		}
	}
	return e
}

func (e *e2e) close() {
	for _, s := range e.servers {
		s.Close()
	}
}

func TestPropEndToEndRouting(t *testing.T) {
	sub := stats.NewSub("end-to-end-routing", "rapid: 2-3 real limiter servers (real request dispatcher + real limiter, scripted leadership) sharing N in [1,16] shards (one shard in six has no leader at the moment and no server lists it), the real gateway-side client set synced from one of them over HTTP; for 1-5 generated upstream names whose shard has a leader the gateway sends the allocate call where ClientFor says; oracle: the receiving server serves it (it leads the upstream's shard by its own computation) - a 'leader is' refusal means both sides disagree; non-trivial = N >= 2 and both servers lead a shard; distinct by FNV-64 of (N, assignment, names)")
	stats.Check(t, stats.N(400, 3000), func(t *rapid.T) {
		nServers := rapid.IntRange(2, 3).Draw(t, "servers")
		n := rapid.IntRange(1, 16).Draw(t, "N")
		assign := make([]int, n)
		owners := map[int]bool{}
		leaderless := 0
		for s := range assign {
			// one shard in six has no leader at the moment (fail-over window, server just started): no server has an
			// entry for it; upstreams of the OTHER shards must be routed as usual
			if rapid.IntRange(0, 5).Draw(t, fmt.Sprintf("leaderless[%d]", s)) == 0 {
				assign[s] = -1
				leaderless++
				continue
			}
			assign[s] = rapid.IntRange(0, nServers-1).Draw(t, fmt.Sprintf("owner[%d]", s))
			owners[assign[s]] = true
		}
		names := rapid.SliceOfN(rapid.StringMatching(`[a-z][a-z0-9-]{0,12}`), 1, 5).Draw(t, "names")
		e := newE2E(nServers, n, func(s int) int { return assign[s] })
		defer e.close()
		for _, name := range names {
			for _, b := range e.boxes {
				if err := b.SetCluster(poolCluster(name, 10)); err != nil {
					t.Fatalf("harness: %v", err)
				}
			}
		}
		var urls []string
		for _, s := range e.servers {
			urls = append(urls, s.URL)
		}
		cs := clientsets.VerifNewClientSets(&rest.Config{}, "gw-1", func(string) []string { return urls })
		clientsets.VerifSync(cs)
		sub.Eval()
		if n >= 2 && len(owners) >= 2 {
			sub.NonTrivial(stats.Hash(n, assign, names))
		}
		for _, name := range names {
			if assign[refShard(name, n)] < 0 {
				// nobody leads this upstream's shard: the gateway cannot be served (it falls back to its local limits)
				if client, err := cs.ClientFor(name); err == nil && client != nil {
					sub.Class("leaderless-shard-got-a-client")
				} else {
					sub.Class("leaderless-shard-has-no-client")
				}
				continue
			}
			client, err := cs.ClientFor(name)
			if err != nil {
				t.Fatalf("ClientFor(%q) (shard %d of %d, led by server %d; %d other shard(s) have no leader): %v", name, refShard(name, n), n, assign[refShard(name, n)], leaderless, err)
			}
			if leaderless > 0 {
				sub.Class("served-while-another-shard-has-no-leader")
			}
			cond := &proxyv1alpha1.RateLimitCondition{ObjectMeta: metav1.ObjectMeta{Name: limbox.ConditionName(name, cs.ClientID())}}
			cond.Spec.UpstreamCluster = name
			cond.Spec.Instance = cs.ClientID()
			cond.Spec.LimitItemConfigurations = []proxyv1alpha1.RateLimitItemConfiguration{{Name: "alloc", Strategy: proxyv1alpha1.GlobalAllocateLimit}}
			out, err := client.ProxyV1alpha1().RateLimitConditions().UpdateStatus(context.Background(), cond, metav1.UpdateOptions{})
			if err != nil {
				msg := err.Error()
				if se, ok := err.(*apierrors.StatusError); ok {
					msg = fmt.Sprintf("%s %+v", msg, se.ErrStatus)
				}
				t.Fatalf("allocate for %q sent where the gateway computes its shard (%d of %d) was refused: %s", name, refShard(name, n), n, msg)
			}
			if len(out.Spec.LimitItemConfigurations) != 1 || out.Spec.LimitItemConfigurations[0].MaxRequestsInflight == nil {
				t.Fatalf("allocate for %q answered %+v", name, out.Spec)
			}
			owner := e.boxes[assign[refShard(name, n)]]
			if _, err := owner.Limiter.GetRateLimitCondition(name, cond.Name); err != nil {
				t.Fatalf("the leader of %q's shard has no record of the allocation: %v", name, err)
			}
			sub.Class("served")
		}
		if sub.WantSample() {
			sub.Sample(map[string]interface{}{"N": n, "shard_owner": assign, "names": names})
		}
	})
}
