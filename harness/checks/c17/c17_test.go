//go:build verif

// C17 — admission normalisation of rules does not change what they match.
package c17

import (
	"context"
	"fmt"
	"reflect"
	"testing"

	"github.com/kubewharf/apiserver-runtime/pkg/scheme"
	metav1 "k8s.io/apimachinery/pkg/apis/meta/v1"
	"k8s.io/apiserver/pkg/admission"
	"pgregory.net/rapid"

	proxyv1alpha1 "github.com/kubewharf/kubegateway/pkg/apis/proxy/v1alpha1"
	"github.com/kubewharf/kubegateway/pkg/clusters"
	_ "github.com/kubewharf/kubegateway/pkg/gateway/controlplane" // installs the API group into the scheme
	upstreamclusteradmission "github.com/kubewharf/kubegateway/plugin/admission/upstreamcluster"
	"verifharness/internal/gen"
	"verifharness/internal/refmodel"
	"verifharness/internal/stats"
)

func TestMain(m *testing.M) {
	stats.Property("C17")
	stats.Assume(
		"the rule is normalised by the real admission plugin (NewUpstreamClusterPlugin().Admit on an UpstreamCluster create/update), not by a copy",
		"the oracle is metamorphic: the gateway's own matcher before vs after normalisation; independent of the matcher's correctness (C01)",
		"probe set = 498 request tuples covering every alphabet value of every field (gen.ProbeRequests) plus one generated request",
		"Go runtime, pgregory.net/rapid v1.3.0",
	)
	stats.Main(m)
}

var (
	plugin = upstreamclusteradmission.NewUpstreamClusterPlugin().(admission.MutationInterface)
	objs   = admission.NewObjectInterfacesFromScheme(scheme.Scheme)
	probes = gen.ProbeRequests()
)

func admit(t interface{ Fatalf(string, ...interface{}) }, uc *proxyv1alpha1.UpstreamCluster, op admission.Operation) *proxyv1alpha1.UpstreamCluster {
	out := uc.DeepCopy()
	gvk := proxyv1alpha1.SchemeGroupVersion.WithKind("UpstreamCluster")
	gvr := proxyv1alpha1.SchemeGroupVersion.WithResource("upstreamclusters")
	var opts interface{ GetObjectKind() interface{} }
	_ = opts
	attrs := admission.NewAttributesRecord(out, nil, gvk, "", out.Name, gvr, "", op, &metav1.CreateOptions{}, false, nil)
	if err := plugin.Admit(context.Background(), attrs, objs); err != nil {
		t.Fatalf("harness: Admit returned %v", err)
	}
	return out
}

func checkSame(t interface{ Fatalf(string, ...interface{}) }, before, after []proxyv1alpha1.DispatchPolicy, reqs []gen.Request) {
	for _, r := range reqs {
		a := r.Attributes()
		for i := range before {
			for j := range before[i].Rules {
				mb := clusters.RuleMatches(a, &before[i].Rules[j])
				ma := clusters.RuleMatches(a, &after[i].Rules[j])
				if mb != ma {
					t.Fatalf("normalisation changed matching: submitted rule matches=%v, stored rule matches=%v\nrequest: %s\nsubmitted: %s\nstored:    %s",
						mb, ma, r, gen.RuleString(before[i].Rules[j]), gen.RuleString(after[i].Rules[j]))
				}
			}
		}
		pb := clusters.MatchPolicies(a, before)
		pa := clusters.MatchPolicies(a, after)
		ib, ia := -1, -1
		for i := range before {
			if pb == &before[i] {
				ib = i
			}
			if pa == &after[i] {
				ia = i
			}
		}
		if ib != ia {
			t.Fatalf("normalisation changed routing: policy %d before, %d after\nrequest: %s\nsubmitted: %s\nstored: %s", ib, ia, r, gen.PoliciesString(before), gen.PoliciesString(after))
		}
	}
}

func ntRule(r *proxyv1alpha1.DispatchPolicyRule) bool {
	s := refmodel.RuleShape(r)
	return s.StarAmongOthers || s.Mixed || s.Duplicates
}

// TestPropNormalisationPreservesMatching: generated policies, the real Admit, all probe requests.
func TestPropNormalisationPreservesMatching(t *testing.T) {
	stats.Check(t, stats.N(6000, 40000), propNormalisationPreservesMatching())
}

// propNormalisationPreservesMatching: the property of TestPropNormalisationPreservesMatching (shared with the native fuzz target FuzzNormalisation).
func propNormalisationPreservesMatching() func(t *rapid.T) {
	sub := stats.NewSub("admit-preserves-matching", "rapid: UpstreamCluster with 1-3 policies x 1-3 rules (C01 rule generator, all eight fields) admitted by the real plugin (create or update); for every probe request RuleMatches(before)==RuleMatches(after) per rule and MatchPolicies picks the same index; Admit(Admit(x))==Admit(x); non-trivial = some rule has '*' among other entries, mixed positive/inverted entries, or duplicates; distinct by FNV-64 of the policy list")
	return func(t *rapid.T) {
		policies := gen.GenPolicies(t, "policies", 3, 3)
		extra := gen.GenRequest(t, "req")
		op := admission.Create
		if rapid.Bool().Draw(t, "update") {
			op = admission.Update
		}
		uc := &proxyv1alpha1.UpstreamCluster{ObjectMeta: metav1.ObjectMeta{Name: "c"}}
		uc.Spec.DispatchPolicies = policies
		once := admit(t, uc, op)
		sub.Eval()
		if len(once.Spec.DispatchPolicies) != len(policies) {
			t.Fatalf("Admit changed the number of policies")
		}
		for i := range policies {
			if len(once.Spec.DispatchPolicies[i].Rules) != len(policies[i].Rules) {
				t.Fatalf("Admit changed the number of rules of policy %d", i)
			}
			if !reflect.DeepEqual(once.Spec.DispatchPolicies[i].Rules, policies[i].Rules) {
				sub.Class("policy-changed-by-normalisation")
			}
		}
		checkSame(t, policies, once.Spec.DispatchPolicies, append([]gen.Request{extra}, probes...))
		twice := admit(t, once, admission.Update)
		if !reflect.DeepEqual(once.Spec.DispatchPolicies, twice.Spec.DispatchPolicies) {
			t.Fatalf("normalising a normalised object changed it\nonce:  %s\ntwice: %s", gen.PoliciesString(once.Spec.DispatchPolicies), gen.PoliciesString(twice.Spec.DispatchPolicies))
		}
		nt := false
		for i := range policies {
			for j := range policies[i].Rules {
				if ntRule(&policies[i].Rules[j]) {
					nt = true
				}
			}
		}
		if nt {
			sub.NonTrivial(stats.HashString(gen.PoliciesString(policies)))
			if sub.WantSample() {
				sub.Sample(map[string]interface{}{"submitted": gen.PoliciesString(policies), "stored": gen.PoliciesString(once.Spec.DispatchPolicies), "probe_requests": len(probes) + 1})
			}
		}

	}
}

// FuzzNormalisation: the same property driven by Go's coverage-guided fuzzer (thorough tier): the fuzzer's bytes are rapid's bit stream, so every input comes from the same generators and is judged by the same oracle.
func FuzzNormalisation(f *testing.F) {
	f.Fuzz(rapid.MakeFuzz(propNormalisationPreservesMatching()))
}

// TestPropExhaustiveLists: every list of length <=3 over {a,-a,b,-b,*,""} in each of the seven list fields.
func TestPropExhaustiveLists(t *testing.T) {
	sub := stats.NewSub("exhaustive-field-lists", "enumeration: every list of length 0..3 over {a,-a,b,-b,*,\"\",a*,-a*,ab,-ab} (1111 lists; a trailing * is a pattern only in users and nonResourceURLs, a literal elsewhere) placed in each of the seven list fields of an otherwise match-all rule, admitted by the real plugin, compared on request values {a,b,c,\"\",ab,a*} (and groups {a,z},{a,b},{}); non-trivial = list has '*' among other entries, mixed entries or duplicates")
	alpha := []string{"a", "-a", "b", "-b", "*", "", "a*", "-a*", "ab", "-ab"}
	var lists [][]string
	var rec func(cur []string, depth int)
	rec = func(cur []string, depth int) {
		lists = append(lists, append([]string{}, cur...))
		if depth == 3 {
			return
		}
		for _, e := range alpha {
			rec(append(cur, e), depth+1)
		}
	}
	rec(nil, 0)
	base := proxyv1alpha1.DispatchPolicyRule{Verbs: []string{"*"}, APIGroups: []string{"*"}, Resources: []string{"*"}, NonResourceURLs: []string{"*"}}
	setters := map[string]func(r *proxyv1alpha1.DispatchPolicyRule, l []string){
		"verbs":           func(r *proxyv1alpha1.DispatchPolicyRule, l []string) { r.Verbs = l },
		"apiGroups":       func(r *proxyv1alpha1.DispatchPolicyRule, l []string) { r.APIGroups = l },
		"resources":       func(r *proxyv1alpha1.DispatchPolicyRule, l []string) { r.Resources = l },
		"resourceNames":   func(r *proxyv1alpha1.DispatchPolicyRule, l []string) { r.ResourceNames = l },
		"users":           func(r *proxyv1alpha1.DispatchPolicyRule, l []string) { r.Users = l },
		"userGroups":      func(r *proxyv1alpha1.DispatchPolicyRule, l []string) { r.UserGroups = l },
		"nonResourceURLs": func(r *proxyv1alpha1.DispatchPolicyRule, l []string) { r.NonResourceURLs = l },
	}
	var reqs []gen.Request
	for _, v := range []string{"a", "b", "c", "", "ab", "a*"} {
		for _, g := range [][]string{nil, {"a", "z"}, {"a", "b"}, {v}} {
			reqs = append(reqs,
				gen.Request{Resource: true, Verb: v, APIGroup: v, Res: v, Name: v, User: v, Groups: g},
				gen.Request{Resource: true, Verb: v, APIGroup: v, Res: "x", Subresource: v, Name: v, User: v, Groups: g},
				gen.Request{Verb: v, Path: v, User: v, Groups: g})
		}
	}
	for _, name := range []string{"verbs", "apiGroups", "resources", "resourceNames", "users", "userGroups", "nonResourceURLs"} {
		for _, l := range lists {
			var ll []string
			if len(l) > 0 {
				ll = l
			}
			rule := *base.DeepCopy()
			setters[name](&rule, ll)
			uc := &proxyv1alpha1.UpstreamCluster{ObjectMeta: metav1.ObjectMeta{Name: "c"}}
			uc.Spec.DispatchPolicies = []proxyv1alpha1.DispatchPolicy{{Rules: []proxyv1alpha1.DispatchPolicyRule{rule}}}
			once := admit(t, uc, admission.Create)
			sub.Eval()
			checkSame(t, uc.Spec.DispatchPolicies, once.Spec.DispatchPolicies, reqs)
			twice := admit(t, once, admission.Update)
			if !reflect.DeepEqual(once.Spec.DispatchPolicies, twice.Spec.DispatchPolicies) {
				t.Fatalf("field %s list %q: normalisation is not idempotent", name, ll)
			}
			s := refmodel.Shape(ll)
			if s.StarAmongOthers || s.Mixed || s.Duplicates {
				sub.NonTrivial(stats.HashString(name + fmt.Sprintf("%q", ll)))
				if sub.WantSample() && s.Mixed {
					sub.Sample(map[string]interface{}{"field": name, "submitted": ll, "stored": gen.RuleString(once.Spec.DispatchPolicies[0].Rules[0])})
				}
			}
		}
	}
	sub.SetExhaustive()
}
