//go:build verif

// C12 — authentication and authorization decisions never cross clusters.
package c12

import (
	"context"
	"fmt"
	"runtime"
	"strings"
	"sync"
	"testing"
	"time"

	authenticationv1 "k8s.io/api/authentication/v1"
	authorizationv1 "k8s.io/api/authorization/v1"
	apierrors "k8s.io/apimachinery/pkg/api/errors"
	k8sruntime "k8s.io/apimachinery/pkg/runtime"
	"k8s.io/apiserver/pkg/authentication/authenticator"
	"k8s.io/apiserver/pkg/authentication/user"
	"k8s.io/apiserver/pkg/authorization/authorizer"
	"k8s.io/client-go/kubernetes"
	k8sfake "k8s.io/client-go/kubernetes/fake"
	clienttesting "k8s.io/client-go/testing"
	"pgregory.net/rapid"

	"github.com/kubewharf/kubegateway/pkg/clusters"
	tokenwebhook "github.com/kubewharf/kubegateway/pkg/gateway/authentication/token/webhook"
	sarwebhook "github.com/kubewharf/kubegateway/pkg/gateway/authorization/webhook"
	"github.com/kubewharf/kubegateway/pkg/gateway/endpoints/request"
	"verifharness/internal/findings"
	"verifharness/internal/stats"
)

const aliasMoveFinding = "C12-host-keyed-cache-survives-alias-move"

func TestMain(m *testing.M) {
	stats.Property("C12")
	stats.Assume(
		"the real multi-cluster token-review authenticator and subject-access-review authorizer run against a stub ClientProvider (host -> ClusterInfo + per-cluster fake kube clientset, or 'cannot be asked')",
		"every cluster answers the same token / the same (user, attributes) differently (user name carries the cluster id; allow / deny / no opinion / error tables differ); the table of a cluster incarnation never changes, so cached and fresh answers of the right cluster coincide",
		"scripted review errors are of a kind the webhook helper does not retry, except in the op that fails a first attempt on purpose (retry backoff shortened to 1 ms by a verif hook)",
		"after a cluster is stopped the harness waits for the cache-teardown goroutines before the next step",
		"Go runtime, pgregory.net/rapid v1.3.0, client-go fake clientset",
	)
	stats.Main(m)
}

type answer int

const (
	allow answer = iota
	deny
	noOpinion
	fail
)

type clusterSim struct {
	id          string // cluster id + incarnation
	info        *clusters.ClusterInfo
	clients     [2]*k8sfake.Clientset // one API client per endpoint of the cluster
	down        [2]bool               // endpoint is not a ready endpoint of the cluster any more (guarded by provider.mu; never both)
	rr          int
	unavailable bool
	tokens      map[string]answer // allow = authenticated
	sar         map[string]answer
	gate        chan struct{} // if set, the next review blocks until it is closed (guarded by provider.mu)
	arrived     chan struct{} // signalled when a review reached the gate
	// failNextSAR: the next access review fails with an error the webhook helper retries (guarded by provider.mu);
	// the function runs while that attempt is being answered
	failNextSAR func()
}

// wait blocks a review at the gate of the cluster, if one is set.
func (c *clusterSim) wait(p *provider) {
	p.mu.Lock()
	g, a := c.gate, c.arrived
	p.mu.Unlock()
	if g != nil {
		select {
		case a <- struct{}{}:
		default:
		}
		<-g
	}
}

type provider struct {
	mu      sync.Mutex
	hosts   map[string]*clusterSim
	current string   // host of the request being served
	invoked []string // cluster ids whose API was invoked during the current request
	stale   string   // set when a review arrived at an endpoint that was not ready at that moment
}

func (p *provider) ClientFor(name string) (*clusters.ClusterInfo, kubernetes.Interface, error) {
	p.mu.Lock()
	defer p.mu.Unlock()
	c, ok := p.hosts[strings.ToLower(name)]
	if !ok {
		return nil, nil, fmt.Errorf("cluster %q: %w", name, clusters.ErrClusterNotFound)
	}
	if c.unavailable {
		return c.info, nil, clusters.ErrNoReadyEndpoints
	}
	// round robin over the ready endpoints, as the cluster's own picker does
	c.rr++
	k := c.rr % 2
	if c.down[k] {
		k = 1 - k
	}
	return c.info, c.clients[k], nil
}

func sarKey(s authorizationv1.SubjectAccessReviewSpec) string {
	if s.ResourceAttributes != nil {
		return s.User + "|" + s.ResourceAttributes.Verb + "|" + s.ResourceAttributes.Resource + "|" + s.ResourceAttributes.Name
	}
	return s.User + "|" + s.NonResourceAttributes.Verb + "|" + s.NonResourceAttributes.Path
}

// install creates the API client of endpoint ep of the cluster: both endpoints answer from the cluster's tables.
func (c *clusterSim) install(p *provider, ep int) {
	id := c.id
	client := k8sfake.NewSimpleClientset()
	c.clients[ep] = client
	client.PrependReactor("create", "tokenreviews", func(action clienttesting.Action) (bool, k8sruntime.Object, error) {
		p.mu.Lock()
		p.invoked = append(p.invoked, id)
		if c.down[ep] {
			p.stale = fmt.Sprintf("%s, endpoint %d", id, ep)
		}
		p.mu.Unlock()
		c.wait(p)
		tr := action.(clienttesting.CreateAction).GetObject().(*authenticationv1.TokenReview).DeepCopy()
		switch c.tokens[tr.Spec.Token] {
		case allow:
			tr.Status = authenticationv1.TokenReviewStatus{Authenticated: true, User: authenticationv1.UserInfo{Username: id + "/" + tr.Spec.Token, Groups: []string{"from-" + id}}}
		case fail:
			return true, nil, apierrors.NewBadRequest("review refused by " + id)
		default:
			tr.Status = authenticationv1.TokenReviewStatus{Authenticated: false}
		}
		return true, tr, nil
	})
	client.PrependReactor("create", "subjectaccessreviews", func(action clienttesting.Action) (bool, k8sruntime.Object, error) {
		p.mu.Lock()
		p.invoked = append(p.invoked, id)
		if c.down[ep] {
			p.stale = fmt.Sprintf("%s, endpoint %d", id, ep)
		}
		p.mu.Unlock()
		c.wait(p)
		p.mu.Lock()
		failing := c.failNextSAR
		c.failNextSAR = nil
		p.mu.Unlock()
		if failing != nil {
			failing()
			return true, nil, apierrors.NewInternalError(fmt.Errorf("transient failure of %s", id))
		}
		r := action.(clienttesting.CreateAction).GetObject().(*authorizationv1.SubjectAccessReview).DeepCopy()
		switch c.sar[sarKey(r.Spec)] {
		case allow:
			r.Status = authorizationv1.SubjectAccessReviewStatus{Allowed: true, Reason: "allowed by " + id}
		case deny:
			r.Status = authorizationv1.SubjectAccessReviewStatus{Denied: true, Reason: "denied by " + id}
		case fail:
			return true, nil, apierrors.NewBadRequest("review refused by " + id)
		default:
			r.Status = authorizationv1.SubjectAccessReviewStatus{Reason: "no opinion from " + id}
		}
		return true, r, nil
	})
}

func newClusterSim(p *provider, id string, tokens, sar map[string]answer) *clusterSim {
	c := &clusterSim{id: id, tokens: tokens, sar: sar}
	c.info = clusters.NewEmptyClusterInfo(id, nil, nil, "", nil)
	for ep := range c.clients {
		c.install(p, ep)
	}
	return c
}

var tokens = []string{"tok-a", "tok-b"}
var users = []string{"alice", "bob"}
var sarAttrs = []authorizer.AttributesRecord{
	{Verb: "get", Resource: "pods", ResourceRequest: true, APIVersion: "v1"},
	{Verb: "impersonate", Resource: "users", Name: "carol", ResourceRequest: true, APIVersion: "v1"},
	{Verb: "get", Path: "/healthz"},
}

func attrKey(u string, a authorizer.AttributesRecord) string {
	if a.ResourceRequest {
		return u + "|" + a.Verb + "|" + a.Resource + "|" + a.Name
	}
	return u + "|" + a.Verb + "|" + a.Path
}

func genTables(t *rapid.T, label string) (map[string]answer, map[string]answer) {
	tk := map[string]answer{}
	for _, x := range tokens {
		tk[x] = answer(rapid.SampledFrom([]int{0, 0, 1, 3}).Draw(t, label+".token."+x))
	}
	sar := map[string]answer{}
	for _, u := range users {
		for _, a := range sarAttrs {
			sar[attrKey(u, a)] = answer(rapid.IntRange(0, 3).Draw(t, label+".sar."+attrKey(u, a)))
		}
	}
	return tk, sar
}

func settle() {
	last := runtime.NumGoroutine()
	stable := 0
	for i := 0; i < 2000 && stable < 3; i++ {
		time.Sleep(500 * time.Microsecond)
		n := runtime.NumGoroutine()
		if n == last {
			stable++
		} else {
			stable = 0
			last = n
		}
	}
}

func ctxFor(host string) context.Context {
	return request.WithExtraRequestInfo(context.Background(), &request.ExtraRequestInfo{Hostname: host})
}

func TestPropNoCrossClusterDecisions(t *testing.T) {
	sub := stats.NewSub("request-sequences-over-hosts", "rapid: 2-3 clusters x 1-2 hosts each, per-cluster answer tables (token -> user / reject / error; (user, attributes) -> allow / deny / no opinion / error) that differ between clusters for the same key, cache TTLs in {0, 50 ms, 10 min}; a sequence of 5-40 ops: authenticate(host, token), authorize(host, user, attributes), cluster cannot be asked on/off, one of the two endpoints of a cluster stops being ready / comes back (each endpoint has its own API client, the provider hands out ready ones in turn), stop + recreate a cluster with new tables, an alias re-homed to another cluster (also while a review for it is in flight at the old cluster: later requests must get the new cluster's answer; or between a failed first attempt of a review and its retry: the request is decided by the cluster it was resolved to), and the same token / (user, attributes) presented to two clusters at the same time (the first review is held at its cluster until the second request was decided); oracle: every result is the answer of the host's own cluster (the user name carries the cluster id), only that cluster's API is invoked during the request and only at an endpoint that is ready at that moment, a cluster that cannot be asked yields not-authenticated / deny with an error; non-trivial = the same token / (user, attributes) was presented to >= 2 clusters with different answers while caching is on; distinct by FNV-64 of the op trace")
	known := findings.Open(aliasMoveFinding)
	stats.Check(t, stats.N(1500, 10000), func(t *rapid.T) {
		p := &provider{hosts: map[string]*clusterSim{}}
		nClusters := rapid.IntRange(2, 3).Draw(t, "clusters")
		ttls := []time.Duration{0, 50 * time.Millisecond, 10 * time.Minute}
		okTTL := rapid.SampledFrom(ttls).Draw(t, "successTTL")
		failTTL := rapid.SampledFrom(ttls).Draw(t, "failureTTL")
		authn := tokenwebhook.NewMultiClusterTokenReviewAuthenticator(p, okTTL, failTTL, nil)
		authz := sarwebhook.NewMultiClusterSubjectAccessReviewAuthorizer(p, okTTL, failTTL)
		sarwebhook.VerifSetInitialBackoff(authz, time.Millisecond) // retried attempts follow each other quickly
		var sims []*clusterSim
		incarnation := map[int]int{}
		var hosts []string
		owner := map[string]int{}
		for i := 0; i < nClusters; i++ {
			tk, sar := genTables(t, fmt.Sprintf("c%d.0", i))
			s := newClusterSim(p, fmt.Sprintf("c%d.0", i), tk, sar)
			sims = append(sims, s)
			hs := []string{fmt.Sprintf("c%d", i)}
			if rapid.Bool().Draw(t, fmt.Sprintf("c%d.alias", i)) {
				hs = append(hs, fmt.Sprintf("alias%d.example.com", i))
			}
			for _, h := range hs {
				p.hosts[h] = s
				owner[h] = i
				hosts = append(hosts, h)
			}
		}
		defer func() {
			for _, s := range sims {
				s.info.Stop()
			}
		}()
		trace := fmt.Sprintf("ttl=%v/%v;", okTTL, failTTL)
		askedToken := map[string]map[string]string{} // token -> cluster id -> outcome
		askedSAR := map[string]map[string]string{}
		nt := false
		sub.Eval()
		judgeAuthn := func(t *rapid.T, h, tok string, s *clusterSim, resp *authenticator.Response, ok bool, err error) {
			if s.unavailable {
				if ok || err == nil {
					t.Fatalf("cluster %s cannot be asked but the token was decided (ok=%v err=%v)\ntrace: %s", s.id, ok, err, trace)
				}
				return
			}
			var outcome string
			switch s.tokens[tok] {
			case allow:
				if !ok || err != nil || resp == nil {
					t.Fatalf("token %s is valid in cluster %s but the result was ok=%v err=%v\ntrace: %s", tok, s.id, ok, err, trace)
				}
				if resp.User.GetName() != s.id+"/"+tok {
					t.Fatalf("request for host %s (cluster %s) was authenticated as %q - a result of another cluster\ntrace: %s", h, s.id, resp.User.GetName(), trace)
				}
				outcome = "user"
			case fail:
				if ok {
					t.Fatalf("token review of cluster %s fails but the token was authenticated as %v\ntrace: %s", s.id, resp, trace)
				}
				outcome = "error"
			default:
				if ok {
					t.Fatalf("cluster %s rejects token %s but the request was authenticated as %q\ntrace: %s", s.id, tok, resp.User.GetName(), trace)
				}
				outcome = "rejected"
			}
			if askedToken[tok] == nil {
				askedToken[tok] = map[string]string{}
			}
			askedToken[tok][s.id] = outcome
			if okTTL > 0 || failTTL > 0 {
				seen := map[string]bool{}
				for id, o := range askedToken[tok] {
					seen[o+strings.SplitN(id, ".", 2)[0]] = true
				}
				if len(askedToken[tok]) >= 2 {
					nt = true
				}
				_ = seen
			}
		}
		judgeAuthz := func(t *rapid.T, u string, a authorizer.AttributesRecord, s *clusterSim, dec authorizer.Decision, reason string, err error) {
			if s.unavailable {
				if dec != authorizer.DecisionDeny || err == nil {
					t.Fatalf("cluster %s cannot be asked but the decision was %v (err=%v)\ntrace: %s", s.id, dec, err, trace)
				}
				return
			}
			want := s.sar[attrKey(u, a)]
			switch want {
			case allow:
				if dec != authorizer.DecisionAllow || !strings.HasSuffix(reason, s.id) {
					t.Fatalf("cluster %s allows %s but the decision was %v (%q, err=%v)\ntrace: %s", s.id, attrKey(u, a), dec, reason, err, trace)
				}
			case deny:
				if dec != authorizer.DecisionDeny || !strings.HasSuffix(reason, s.id) {
					t.Fatalf("cluster %s denies %s but the decision was %v (%q, err=%v)\ntrace: %s", s.id, attrKey(u, a), dec, reason, err, trace)
				}
			case noOpinion:
				if dec != authorizer.DecisionNoOpinion || !strings.HasSuffix(reason, s.id) {
					t.Fatalf("cluster %s has no opinion on %s but the decision was %v (%q, err=%v)\ntrace: %s", s.id, attrKey(u, a), dec, reason, err, trace)
				}
			case fail:
				if dec != authorizer.DecisionDeny || err == nil {
					t.Fatalf("access review of cluster %s fails but the decision was %v (err=%v)\ntrace: %s", s.id, dec, err, trace)
				}
			}
			k := attrKey(u, a)
			if askedSAR[k] == nil {
				askedSAR[k] = map[string]string{}
			}
			askedSAR[k][s.id] = fmt.Sprint(want)
			if (okTTL > 0 || failTTL > 0) && len(askedSAR[k]) >= 2 {
				nt = true
			}
		}
		steps := rapid.IntRange(5, 40).Draw(t, "steps")
		for i := 0; i < steps; i++ {
			p.mu.Lock()
			stale := p.stale
			p.mu.Unlock()
			if stale != "" {
				t.Fatalf("a review was sent to an endpoint that was not a ready endpoint of its cluster at that moment (%s)\ntrace: %s", stale, trace)
			}
			switch rapid.IntRange(0, 16).Draw(t, "op") {
			case 0:
				c := rapid.IntRange(0, nClusters-1).Draw(t, "cluster")
				if rapid.Bool().Draw(t, "oneEndpoint") {
					// one endpoint of the cluster stops being ready (disabled, unhealthy, removed from the spec) or comes
					// back; the other one stays: the cluster can be asked, every review belongs to the ready one
					k := rapid.IntRange(0, 1).Draw(t, "endpoint")
					p.mu.Lock()
					if sims[c].down[k] || !sims[c].down[1-k] {
						sims[c].down[k] = !sims[c].down[k]
					}
					trace += fmt.Sprintf("endpoint(c%d,%d).down=%v;", c, k, sims[c].down[k])
					p.mu.Unlock()
					sub.Class("endpoint-readiness-changed")
					continue
				}
				sims[c].unavailable = !sims[c].unavailable
				trace += fmt.Sprintf("unavailable(c%d)=%v;", c, sims[c].unavailable)
			case 1:
				c := rapid.IntRange(0, nClusters-1).Draw(t, "cluster")
				old := sims[c]
				incarnation[c]++
				tk, sar := genTables(t, fmt.Sprintf("c%d.%d", c, incarnation[c]))
				s := newClusterSim(p, fmt.Sprintf("c%d.%d", c, incarnation[c]), tk, sar)
				p.mu.Lock()
				for h, o := range owner {
					if o == c {
						p.hosts[h] = s
					}
				}
				p.mu.Unlock()
				sims[c] = s
				old.info.Stop()
				settle()
				trace += fmt.Sprintf("recreate(c%d);", c)
				sub.Class("stop-and-recreate")
			case 2:
				// an alias is re-homed to another cluster while its old owner keeps running
				h := rapid.SampledFrom(hosts).Draw(t, "host")
				if !strings.HasPrefix(h, "alias") {
					continue
				}
				if known {
					sub.ExcludedByKnownFinding()
					continue
				}
				to := rapid.IntRange(0, nClusters-1).Draw(t, "to")
				p.mu.Lock()
				p.hosts[h] = sims[to]
				p.mu.Unlock()
				owner[h] = to
				trace += fmt.Sprintf("move(%s->c%d);", h, to)
				sub.Class("alias-moved")
			case 3, 4, 5, 6:
				h := rapid.SampledFrom(hosts).Draw(t, "host")
				tok := rapid.SampledFrom(tokens).Draw(t, "token")
				s := sims[owner[h]]
				p.mu.Lock()
				p.invoked = nil
				p.mu.Unlock()
				resp, ok, err := authn.AuthenticateToken(ctxFor(h), tok)
				p.mu.Lock()
				inv := append([]string{}, p.invoked...)
				p.mu.Unlock()
				trace += fmt.Sprintf("authn(%s,%s)=%v,%v;", h, tok, ok, err != nil)
				for _, id := range inv {
					if id != s.id {
						t.Fatalf("request for host %s (cluster %s) sent a token review to cluster %s\ntrace: %s", h, s.id, id, trace)
					}
				}
				judgeAuthn(t, h, tok, s, resp, ok, err)
			case 16:
				// the first attempt of a review fails with a retriable error and the alias is re-homed to another cluster
				// before the retry: the request was resolved to the old cluster and must be decided by it
				h := rapid.SampledFrom(hosts).Draw(t, "host")
				if !strings.HasPrefix(h, "alias") || known {
					continue
				}
				from := owner[h]
				to := rapid.IntRange(0, nClusters-1).Draw(t, "to")
				if to == from || sims[from].unavailable || sims[to].unavailable {
					continue
				}
				u := rapid.SampledFrom(users).Draw(t, "user")
				a := sarAttrs[rapid.IntRange(0, len(sarAttrs)-1).Draw(t, "attrs")]
				a.User = &user.DefaultInfo{Name: u}
				sOld, sNew := sims[from], sims[to]
				moved := false
				p.mu.Lock()
				sOld.failNextSAR = func() {
					p.mu.Lock()
					p.hosts[h] = sNew
					p.mu.Unlock()
					moved = true
				}
				p.mu.Unlock()
				dec, reason, err := authz.Authorize(ctxFor(h), a)
				p.mu.Lock()
				sOld.failNextSAR = nil
				p.hosts[h] = sNew
				p.mu.Unlock()
				owner[h] = to
				trace += fmt.Sprintf("move-during-retry(%s->c%d,%s)=%v,moved=%v;", h, to, attrKey(u, a), dec, moved)
				if moved {
					judgeAuthz(t, u, a, sOld, dec, reason, err)
					sub.Class("alias-moved-between-two-attempts-of-a-review")
				} else {
					// decided from the cache of the host, bound to the old cluster
					judgeAuthz(t, u, a, sOld, dec, reason, err)
				}
			case 14, 15:
				// an alias is re-homed to another cluster WHILE a review for it is in flight at its old cluster; the late
				// answer of the old cluster must not decide later requests for the alias
				h := rapid.SampledFrom(hosts).Draw(t, "host")
				if !strings.HasPrefix(h, "alias") || known {
					continue
				}
				from := owner[h]
				to := rapid.IntRange(0, nClusters-1).Draw(t, "to")
				if to == from || sims[from].unavailable || sims[to].unavailable {
					continue
				}
				isToken := rapid.Bool().Draw(t, "tokenReview")
				tok := rapid.SampledFrom(tokens).Draw(t, "token")
				u := rapid.SampledFrom(users).Draw(t, "user")
				a := sarAttrs[rapid.IntRange(0, len(sarAttrs)-1).Draw(t, "attrs")]
				a.User = &user.DefaultInfo{Name: u}
				type res struct {
					resp   *authenticator.Response
					ok     bool
					dec    authorizer.Decision
					reason string
					err    error
				}
				call := func() res {
					if isToken {
						resp, ok, err := authn.AuthenticateToken(ctxFor(h), tok)
						return res{resp: resp, ok: ok, err: err}
					}
					dec, reason, err := authz.Authorize(ctxFor(h), a)
					return res{dec: dec, reason: reason, err: err}
				}
				sOld, sNew := sims[from], sims[to]
				gate, arrived := make(chan struct{}), make(chan struct{}, 1)
				p.mu.Lock()
				sOld.gate, sOld.arrived = gate, arrived
				p.mu.Unlock()
				d1 := make(chan res, 1)
				go func() { d1 <- call() }()
				inFlight := false
				select {
				case <-arrived:
					inFlight = true
				case r := <-d1: // decided from the cache
					d1 <- r
				case <-time.After(5 * time.Second):
				}
				p.mu.Lock()
				p.hosts[h] = sNew
				p.mu.Unlock()
				owner[h] = to
				r2 := call() // resolves to the new cluster
				p.mu.Lock()
				sOld.gate, sOld.arrived = nil, nil
				p.mu.Unlock()
				close(gate)
				<-d1 // the request that started under the old binding: either cluster's answer is acceptable
				r3 := call()
				if isToken {
					trace += fmt.Sprintf("move-during-authn(%s->c%d,%s)=%v,%v;", h, to, tok, r2.ok, r3.ok)
					judgeAuthn(t, h, tok, sNew, r2.resp, r2.ok, r2.err)
					judgeAuthn(t, h, tok, sNew, r3.resp, r3.ok, r3.err)
				} else {
					trace += fmt.Sprintf("move-during-authz(%s->c%d,%s)=%v,%v;", h, to, attrKey(u, a), r2.dec, r3.dec)
					judgeAuthz(t, u, a, sNew, r2.dec, r2.reason, r2.err)
					judgeAuthz(t, u, a, sNew, r3.dec, r3.reason, r3.err)
				}
				if inFlight {
					sub.Class("alias-moved-while-a-review-is-in-flight")
				}
			case 12, 13:
				// the same token / the same (user, attributes) is presented to two clusters AT THE SAME TIME: the review of
				// the first request is held at its cluster until the second request was decided (or 150 ms passed)
				h1 := rapid.SampledFrom(hosts).Draw(t, "host1")
				h2 := rapid.SampledFrom(hosts).Draw(t, "host2")
				s1, s2 := sims[owner[h1]], sims[owner[h2]]
				if s1 == s2 || s1.unavailable || s2.unavailable {
					continue
				}
				isToken := rapid.Bool().Draw(t, "tokenReview")
				tok := rapid.SampledFrom(tokens).Draw(t, "token")
				u := rapid.SampledFrom(users).Draw(t, "user")
				a := sarAttrs[rapid.IntRange(0, len(sarAttrs)-1).Draw(t, "attrs")]
				a.User = &user.DefaultInfo{Name: u}
				type res struct {
					resp   *authenticator.Response
					ok     bool
					dec    authorizer.Decision
					reason string
					err    error
				}
				call := func(h string) res {
					if isToken {
						resp, ok, err := authn.AuthenticateToken(ctxFor(h), tok)
						return res{resp: resp, ok: ok, err: err}
					}
					dec, reason, err := authz.Authorize(ctxFor(h), a)
					return res{dec: dec, reason: reason, err: err}
				}
				gate, arrived := make(chan struct{}), make(chan struct{}, 1)
				p.mu.Lock()
				s1.gate, s1.arrived = gate, arrived
				p.mu.Unlock()
				d1, d2 := make(chan res, 1), make(chan res, 1)
				go func() { d1 <- call(h1) }()
				var r1, r2 res
				got1 := false
				select {
				case <-arrived: // the review of the first request is in flight
				case r1 = <-d1: // decided from the cache of its own host
					got1 = true
				case <-time.After(5 * time.Second):
				}
				go func() { d2 <- call(h2) }()
				got2 := false
				select {
				case r2 = <-d2:
					got2 = true
				case <-time.After(150 * time.Millisecond): // the second request waits for the first one's review
				}
				p.mu.Lock()
				s1.gate, s1.arrived = nil, nil
				p.mu.Unlock()
				close(gate)
				if !got1 {
					r1 = <-d1
				}
				if !got2 {
					r2 = <-d2
				}
				if isToken {
					trace += fmt.Sprintf("concurrent-authn(%s|%s,%s)=%v,%v;", h1, h2, tok, r1.ok, r2.ok)
					judgeAuthn(t, h1, tok, s1, r1.resp, r1.ok, r1.err)
					judgeAuthn(t, h2, tok, s2, r2.resp, r2.ok, r2.err)
				} else {
					trace += fmt.Sprintf("concurrent-authz(%s|%s,%s)=%v,%v;", h1, h2, attrKey(u, a), r1.dec, r2.dec)
					judgeAuthz(t, u, a, s1, r1.dec, r1.reason, r1.err)
					judgeAuthz(t, u, a, s2, r2.dec, r2.reason, r2.err)
				}
				if !got1 {
					sub.Class("second-cluster-asked-while-the-first-review-is-in-flight")
				}
			default:
				h := rapid.SampledFrom(hosts).Draw(t, "host")
				u := rapid.SampledFrom(users).Draw(t, "user")
				a := sarAttrs[rapid.IntRange(0, len(sarAttrs)-1).Draw(t, "attrs")]
				a.User = &user.DefaultInfo{Name: u}
				s := sims[owner[h]]
				p.mu.Lock()
				p.invoked = nil
				p.mu.Unlock()
				dec, reason, err := authz.Authorize(ctxFor(h), a)
				p.mu.Lock()
				inv := append([]string{}, p.invoked...)
				p.mu.Unlock()
				trace += fmt.Sprintf("authz(%s,%s)=%v,%v;", h, attrKey(u, a), dec, err != nil)
				for _, id := range inv {
					if id != s.id {
						t.Fatalf("request for host %s (cluster %s) sent an access review to cluster %s\ntrace: %s", h, s.id, id, trace)
					}
				}
				judgeAuthz(t, u, a, s, dec, reason, err)
			}
		}
		p.mu.Lock()
		stale := p.stale
		p.mu.Unlock()
		if stale != "" {
			t.Fatalf("a review was sent to an endpoint that was not a ready endpoint of its cluster at that moment (%s)\ntrace: %s", stale, trace)
		}
		if nt {
			sub.NonTrivial(stats.HashString(trace))
			if sub.WantSample() {
				sub.Sample(trace)
			}
		}
	})
}
