//go:build verif

package c12

import (
	"fmt"
	"strings"
	"testing"

	metav1 "k8s.io/apimachinery/pkg/apis/meta/v1"
	"k8s.io/client-go/kubernetes"
	"pgregory.net/rapid"

	proxyv1alpha1 "github.com/kubewharf/kubegateway/pkg/apis/proxy/v1alpha1"
	"github.com/kubewharf/kubegateway/pkg/clusters"
	"verifharness/internal/stats"
)

// TestPropClientProvider: the REAL cluster manager as the reviewers' client provider (the other sub-check stubs it).
func TestPropClientProvider(t *testing.T) {
	sub := stats.NewSub("client-provider-histories", "rapid state machine on the real clusters.Manager with 2-3 real ClusterInfos (2 endpoints each, never contacted; health written through the exported UpdateStatus, disabling through SetDisabled) and 1-2 alias names: ops endpoint healthy / unhealthy, endpoint disabled / enabled, alias re-homed to another cluster (Delete + AddWithKey, as the controller does), cluster removed and re-created, ClientFor(host); oracle: ClientFor returns the cluster the host is bound to NOW; if that cluster has a ready endpoint the returned clientset is the one of a ready endpoint of THAT cluster; if it has none the answer is an error and no clientset (the reviewers then refuse) - never a clientset of another cluster or of an endpoint that is not ready; non-trivial = a lookup after an alias move or with no ready endpoint; distinct by FNV-64 of the op trace")
	stats.Check(t, stats.N(1500, 10000), func(t *rapid.T) {
		mgr := clusters.NewManager()
		nClusters := rapid.IntRange(2, 3).Draw(t, "clusters")
		noProbe := func(e *clusters.EndpointInfo) bool { return false }
		cis := make([]*clusters.ClusterInfo, nClusters)
		incarnation := make([]int, nClusters)
		mk := func(i int) *clusters.ClusterInfo {
			c := &proxyv1alpha1.UpstreamCluster{ObjectMeta: metav1.ObjectMeta{Name: fmt.Sprintf("c%d", i)}}
			for e := 0; e < 2; e++ {
				c.Spec.Servers = append(c.Spec.Servers, proxyv1alpha1.UpstreamClusterServer{Endpoint: fmt.Sprintf("http://127.0.0.1:%d", 2000+10*i+e)})
			}
			c.Spec.DispatchPolicies = []proxyv1alpha1.DispatchPolicy{{Rules: []proxyv1alpha1.DispatchPolicyRule{{Verbs: []string{"*"}, NonResourceURLs: []string{"*"}}}}}
			ci, err := clusters.CreateClusterInfo(c, noProbe, "", nil)
			if err != nil {
				t.Fatalf("harness: %v", err)
			}
			return ci
		}
		owner := map[string]int{}
		hosts := []string{}
		for i := range cis {
			cis[i] = mk(i)
			mgr.Add(cis[i])
			owner[fmt.Sprintf("c%d", i)] = i
			hosts = append(hosts, fmt.Sprintf("c%d", i))
		}
		defer func() {
			for _, ci := range cis {
				ci.Stop()
			}
		}()
		for a, n := 0, rapid.IntRange(1, 2).Draw(t, "aliases"); a < n; a++ {
			h := fmt.Sprintf("alias%d.example.com", a)
			to := rapid.IntRange(0, nClusters-1).Draw(t, "aliasOwner")
			mgr.AddWithKey(h, cis[to])
			owner[h] = to
			hosts = append(hosts, h)
		}
		endpoints := func(i int) []*clusters.EndpointInfo {
			var out []*clusters.EndpointInfo
			for _, e := range cis[i].AllEndpoints() {
				if info, ok := cis[i].Endpoints.Load(e); ok {
					out = append(out, info)
				}
			}
			return out
		}
		trace := ""
		nt := false
		moved := map[string]bool{}
		sub.Eval()
		t.Repeat(map[string]func(*rapid.T){
			"health": func(t *rapid.T) {
				i := rapid.IntRange(0, nClusters-1).Draw(t, "cluster")
				e := rapid.IntRange(0, 1).Draw(t, "endpoint")
				ok := rapid.Bool().Draw(t, "healthy")
				endpoints(i)[e].UpdateStatus(ok, "scripted", "")
				trace += fmt.Sprintf("health(c%d.%d)=%v;", i, e, ok)
			},
			"disable": func(t *rapid.T) {
				i := rapid.IntRange(0, nClusters-1).Draw(t, "cluster")
				e := rapid.IntRange(0, 1).Draw(t, "endpoint")
				d := rapid.Bool().Draw(t, "disabled")
				endpoints(i)[e].SetDisabled(d)
				trace += fmt.Sprintf("disabled(c%d.%d)=%v;", i, e, d)
			},
			"moveAlias": func(t *rapid.T) {
				h := rapid.SampledFrom(hosts).Draw(t, "host")
				if !strings.HasPrefix(h, "alias") {
					t.Skip("not an alias")
				}
				to := rapid.IntRange(0, nClusters-1).Draw(t, "to")
				mgr.Delete(h)
				mgr.AddWithKey(h, cis[to])
				if owner[h] != to {
					moved[h] = true
				}
				owner[h] = to
				trace += fmt.Sprintf("move(%s->c%d);", h, to)
			},
			"recreate": func(t *rapid.T) {
				i := rapid.IntRange(0, nClusters-1).Draw(t, "cluster")
				for h, o := range owner {
					if o == i {
						mgr.Delete(h)
					}
				}
				cis[i].Stop()
				incarnation[i]++
				cis[i] = mk(i)
				for h, o := range owner {
					if o == i {
						mgr.AddWithKey(h, cis[i])
						moved[h] = true
					}
				}
				trace += fmt.Sprintf("recreate(c%d);", i)
			},
			"lookup": func(t *rapid.T) {
				h := rapid.SampledFrom(hosts).Draw(t, "host")
				i := owner[h]
				ci, client, err := mgr.ClientFor(h)
				trace += fmt.Sprintf("clientFor(%s)=%v;", h, err == nil)
				if ci != cis[i] {
					t.Fatalf("ClientFor(%s) names another cluster than the one the host is bound to (c%d)\ntrace: %s", h, i, trace)
				}
				var ready []kubernetes.Interface
				for _, e := range endpoints(i) {
					if e.IsReady() {
						ready = append(ready, e.Clientset())
					}
				}
				if len(ready) == 0 {
					nt = true
					sub.Class("cluster-cannot-be-asked")
					if err == nil || client != nil {
						t.Fatalf("cluster c%d (host %s) has no ready endpoint but ClientFor returned a clientset (err=%v): the review would be sent somewhere\ntrace: %s", i, h, err, trace)
					}
					return
				}
				if err != nil {
					t.Fatalf("cluster c%d (host %s) has %d ready endpoint(s) but ClientFor failed: %v\ntrace: %s", i, h, len(ready), err, trace)
				}
				found := false
				for _, r := range ready {
					if r == client {
						found = true
					}
				}
				if !found {
					t.Fatalf("ClientFor(%s) returned a clientset that is not the one of a ready endpoint of c%d\ntrace: %s", h, i, trace)
				}
				if moved[h] {
					nt = true
					sub.Class("lookup-after-the-host-was-re-bound")
				}
			},
		})
		if nt {
			sub.NonTrivial(stats.HashString(trace))
			if sub.WantSample() {
				sub.Sample(trace)
			}
		}
	})
}
