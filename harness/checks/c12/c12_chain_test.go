//go:build verif

package c12

import (
	"context"
	"fmt"
	"strings"
	"sync/atomic"
	"testing"
	"time"

	"pgregory.net/rapid"

	"verifharness/internal/gwbox"
	"verifharness/internal/stats"
)

var (
	chainPool = gwbox.NewPool(2)
	chainSeq  int64
)

// TestPropReviewsFollowRouting: the REAL multi-cluster token-review authenticator inside the REAL handler chain. Whoever
// serves a request is the cluster whose API server accepted the request's token.
func TestPropReviewsFollowRouting(t *testing.T) {
	sub := stats.NewSub("reviews-follow-routing", "rapid: the real handler chain with the gateway's real multi-cluster token-review authenticator (no caching) in front of two clusters, each with its own stub API server, alias server name and table of accepted bearer tokens (a token may be accepted by one, both or neither, under different user names); 3-8 requests, each with a Host naming one of the clusters (name or alias, any case, with or without port), a token from the pool and - as if the connection were TLS - a handshake server name that is absent, equal to the Host, the OTHER cluster's name, or unknown; oracle: a request that is served was served by the stub of a cluster whose API server accepts its token, and that stub is told to act as the user ITS API server names for the token; a request whose token the cluster of its Host does not accept is answered 401 and forwarded nowhere; a token a cluster accepts is served when addressed to it; non-trivial = a request whose handshake server name names another cluster than its Host, or a token that only one cluster accepts presented to the other; distinct by FNV-64 of the plan")
	stats.Check(t, stats.N(150, 1500), func(t *rapid.T) {
		g := gwbox.NewGatewayWithTokenReviews()
		defer g.Close()
		names := [2]string{"alpha", "beta"}
		alias := [2]string{"alpha-alias.example.com", "beta-alias.example.com"}
		tokens := []string{"t1", "t2", "t3"}
		var tables [2]map[string]string
		for c := 0; c < 2; c++ {
			tables[c] = map[string]string{}
			for _, tk := range tokens {
				if rapid.Bool().Draw(t, fmt.Sprintf("accepts[%d][%s]", c, tk)) {
					tables[c][tk] = fmt.Sprintf("user-of-%s@%s", tk, names[c])
				}
			}
			chainPool.Upstreams[c].SetHealth(200)
			chainPool.Upstreams[c].SetTokens(tables[c])
			obj := gwbox.ClusterObject(names[c], "gateway-secret-token", chainPool.Upstreams[c])
			obj.Spec.SecureServing.ServerNames = []string{alias[c]}
			if res, err := g.Box.Apply(obj); err != nil || res.RequeueAfter > 0 {
				t.Fatalf("harness: %v %v", err, res)
			}
		}
		for c := 0; c < 2; c++ {
			if !g.WaitReady(names[c], func(string) bool { return true }, 10*time.Second) {
				sub.Inconclusive()
				t.Skip("upstreams did not become ready")
			}
		}
		sub.Eval()
		plan := fmt.Sprintf("alpha accepts %v, beta accepts %v;", tables[0], tables[1])
		nt := false
		for i, n := 0, rapid.IntRange(3, 8).Draw(t, "requests"); i < n; i++ {
			c := rapid.IntRange(0, 1).Draw(t, fmt.Sprintf("req[%d].cluster", i))
			host := rapid.SampledFrom([]string{names[c], alias[c], strings.ToUpper(alias[c]), names[c] + ":6443"}).Draw(t, fmt.Sprintf("req[%d].host", i))
			tk := rapid.SampledFrom(tokens).Draw(t, fmt.Sprintf("req[%d].token", i))
			sni := rapid.SampledFrom([]string{"", "same", "other", "other-alias", "unknown.example.com"}).Draw(t, fmt.Sprintf("req[%d].sni", i))
			switch sni {
			case "same":
				sni = strings.TrimSuffix(host, ":6443")
			case "other":
				sni = names[1-c]
			case "other-alias":
				sni = alias[1-c]
			}
			id := fmt.Sprintf("c12c-%d", atomic.AddInt64(&chainSeq, 1))
			hdr := [][2]string{{gwbox.IDHeader, id}, {"Authorization", "Bearer " + tk}}
			if sni != "" {
				hdr = append(hdr, [2]string{gwbox.SNIHeader, sni})
			}
			ctx, cancel := context.WithTimeout(context.Background(), 20*time.Second)
			resp := g.Do(ctx, gwbox.RawRequest{Method: "GET", Target: "/api/v1/namespaces/default/pods", Host: host, Headers: hdr})
			cancel()
			seen := chainPool.Find(id)
			chainPool.Forget(id)
			plan += fmt.Sprintf(" GET Host=%s sni=%q token=%s -> %d", host, sni, tk, resp.Status)
			if resp.Err != nil {
				t.Fatalf("harness: request failed: %v\nplan: %s", resp.Err, plan)
			}
			if len(seen) > 1 {
				t.Fatalf("the request was seen by %d upstreams\nplan: %s", len(seen), plan)
			}
			_, hostAccepts := tables[c][tk]
			if sni != "" && !strings.EqualFold(sni, strings.TrimSuffix(host, ":6443")) && (sni == names[1-c] || sni == alias[1-c]) {
				nt = true
			}
			if _, other := tables[1-c][tk]; other != hostAccepts {
				nt = true
			}
			if len(seen) == 1 {
				u := seen[0].Upstream
				plan += fmt.Sprintf("@%s;", names[u])
				user, ok := tables[u][tk]
				if !ok {
					t.Fatalf("the request was served by cluster %s, whose API server does not accept its token %s (answer %d)\nplan: %s", names[u], tk, resp.Status, plan)
				}
				if got := seen[0].Header.Get("Impersonate-User"); got != user {
					t.Fatalf("cluster %s is told to act as %q, its own API server names %q for token %s\nplan: %s", names[u], got, user, tk, plan)
				}
				if u != c && !(sni == names[u] || sni == alias[u]) {
					t.Fatalf("the request for Host %s was served by cluster %s\nplan: %s", host, names[u], plan)
				}
				continue
			}
			plan += ";"
			if hostAccepts && sni == "" {
				// (with a handshake server name naming another cluster, which of the two decides is not this check's matter)
				t.Fatalf("cluster %s accepts token %s but the request addressed to it was answered %d and not forwarded\nplan: %s", names[c], tk, resp.Status, plan)
			}
			if !hostAccepts && resp.Status != 401 {
				t.Fatalf("the cluster of Host %s does not accept token %s; the request was not forwarded but answered %d, expected 401\nplan: %s", host, tk, resp.Status, plan)
			}
		}
		if nt {
			sub.NonTrivial(stats.HashString(plan))
			if sub.WantSample() {
				sub.Sample(plan)
			}
		}
	})
}
