//go:build verif

// C18 — quota of dead gateway instances is reclaimed; live instances are left alone.
package c18

import (
	"fmt"
	"regexp"
	"strconv"
	"strings"
	"testing"
	"time"

	metav1 "k8s.io/apimachinery/pkg/apis/meta/v1"
	"pgregory.net/rapid"

	proxyv1alpha1 "github.com/kubewharf/kubegateway/pkg/apis/proxy/v1alpha1"
	rlutil "github.com/kubewharf/kubegateway/pkg/ratelimiter/util"
	"verifharness/internal/limbox"
	"verifharness/internal/stats"
)

func TestMain(m *testing.M) {
	stats.Property("C18")
	stats.Assume(
		"one cleanup pass = cleanupTimeoutClient and cleanupUnknownCondition once each (driven by the verif hook instead of the 1 s / 30 s timers); the asynchronous deletions of the first are awaited before the next step",
		"an instance is made silent by moving its recorded heartbeat 4 s into the past (timeout 3 s); 'fresh' means a heartbeat less than 2.5 s of wall time before the pass, otherwise the case is discarded as inconclusive",
		"instances heartbeat before they report, as a gateway does",
		"Go runtime, pgregory.net/rapid v1.3.0, fake gateway clientset for the API-backed store",
	)
	stats.Main(m)
}

const gmax = 12

var upstreams = []string{"alpha", "alpha-2", "gamma"}

// identities and upstream names that are prefixes / extensions of each other, and one that is not a valid label value
var instancePool = []string{"gw-a", "gw-b", "gw-a-1", "gw", "10.0.0.1:443",
	// identities that differ only in their tail beyond 63 characters (a long pod FQDN with a per-incarnation suffix).
	// Pairs that differ only in ':' versus '-' are left out: the name of an instance's condition object is its identity
	// with ':' replaced by '-' by definition, such a pair is one instance to the server
	"kube-gateway-0.kube-gateway.kube-system.svc.cluster.local.example:6443-aaaa", "kube-gateway-0.kube-gateway.kube-system.svc.cluster.local.example:6443-bbbb"}

func cluster(name string) *proxyv1alpha1.UpstreamCluster {
	// token-bucket schemas sit next to the in-flight ones: the cleanup walks all flow controls of an upstream
	return limbox.Cluster(name,
		limbox.GlobalSchema("alloc", proxyv1alpha1.GlobalAllocateLimit, false, 2, 100, 0, 0),
		limbox.GlobalSchema("tb1", proxyv1alpha1.GlobalCountLimit, true, 5, 50, 5, 60),
		limbox.GlobalSchema("count", proxyv1alpha1.GlobalCountLimit, false, 2, gmax, 0, 0),
		limbox.GlobalSchema("tb2", proxyv1alpha1.GlobalAllocateLimit, true, 5, 50, 5, 60))
}

var detailRe = regexp.MustCompile(`\[([^\]]+): (-?\d+)\]`)
var countRe = regexp.MustCompile(`count=(-?\d+) total=(-?\d+)`)

type instModel struct {
	lastBeat time.Time
	silent   bool
	quota    map[string]int32 // upstream -> last answered quota (allocate)
	reports  map[string]int   // upstream -> number of reports
	lastUsed map[string]int32 // upstream -> usage of the previous report
	inflight map[string]int32 // upstream -> accepted in-flight count (count strategy)
	ids      int64
}

func TestPropReclaim(t *testing.T) {
	sub := stats.NewSub("reclaim-histories", "rapid state machine on the real limiter (2 shards, local / API-backed store, 3 upstreams; 4 instance identities per history from a pool of 7, always including a related pair: one a prefix of the other, or equal in their first 63 characters; one identity is not a valid label value): ops heartbeat, report (allocate; one in three reports of an instance the server has no heartbeat of comes without one: the instance is on record but not alive), acquire (count strategy), go silent, cleanup pass, comeback with the same identity; oracle after every pass: no condition and no in-flight count of a silent instance remains anywhere, running total == per-instance sum, everything of instances with a fresh heartbeat is unchanged; after the next survivor report the recorded sum excludes the dead instance and the freed in-flight capacity can be taken by a survivor; non-trivial = a pass reclaims >=1 instance that had state while >=1 other instance with state stays, or an instance comes back after being reclaimed; distinct by FNV-64 of the op trace")
	stats.Check(t, stats.N(8000, 30000), func(t *rapid.T) {
		// four identities per history: a pair of related ones (prefix / extension, or equal in their first 63 characters) and two more
		pairs := [][2]string{{"gw-a", "gw-a-1"}, {"gw", "gw-b"}, {"10.0.0.1:443", "gw-a"}, {instancePool[5], instancePool[6]}, {instancePool[5], instancePool[6]}}
		pr := rapid.SampledFrom(pairs).Draw(t, "relatedIdentities")
		instances := []string{pr[0], pr[1]}
		for _, n := range rapid.Permutation(instancePool).Draw(t, "otherIdentities") {
			if len(instances) < 4 && n != pr[0] && n != pr[1] {
				instances = append(instances, n)
			}
		}
		kind := rapid.SampledFrom([]string{"local", "k8s"}).Draw(t, "store")
		box := limbox.New(kind, 2, "srv")
		box.LeadAll()
		for _, u := range upstreams {
			if err := box.SetCluster(cluster(u)); err != nil {
				t.Fatalf("harness: %v", err)
			}
		}
		model := map[string]*instModel{}
		get := func(n string) *instModel {
			if model[n] == nil {
				model[n] = &instModel{quota: map[string]int32{}, reports: map[string]int{}, inflight: map[string]int32{}, lastUsed: map[string]int32{}}
			}
			return model[n]
		}
		trace := "store=" + kind + ";"
		nt := false
		reclaimedOnce := map[string]bool{}
		sub.Eval()
		beat := func(n string) {
			_ = box.Limiter.Heartbeat(n)
			m := get(n)
			m.lastBeat = time.Now()
			m.silent = false
		}
		storeOf := func(u string) interface {
			ListUpstream(string) []*proxyv1alpha1.RateLimitCondition
		} {
			return box.Limiter.VerifStore(rlutil.GetShardID(u, 2))
		}
		flowDebug := func(u string) (map[string]int64, int64, int64) {
			fc, err := box.Limiter.VerifStore(rlutil.GetShardID(u, 2)).GetFlowControl(u, "count")
			if err != nil {
				t.Fatalf("harness: no flow control for %s: %v", u, err)
			}
			info := fc.DebugInfo()
			d := map[string]int64{}
			for _, x := range detailRe.FindAllStringSubmatch(info, -1) {
				v, _ := strconv.ParseInt(x[2], 10, 64)
				d[x[1]] = v
			}
			m := countRe.FindStringSubmatch(info)
			c, _ := strconv.ParseInt(m[1], 10, 64)
			tot, _ := strconv.ParseInt(m[2], 10, 64)
			return d, c, tot
		}
		checkState := func(when string) {
			for _, u := range upstreams {
				have := map[string]int32{}
				for _, c := range storeOf(u).ListUpstream(u) {
					if strings.HasSuffix(c.Name, ".state") {
						continue
					}
					q := int32(-1)
					for _, it := range c.Spec.LimitItemConfigurations {
						if it.Name == "alloc" && it.MaxRequestsInflight != nil {
							q = it.MaxRequestsInflight.Max
						}
					}
					have[c.Spec.Instance] = q
				}
				det, count, total := flowDebug(u)
				var sum int64
				for _, n := range instances {
					m := model[n]
					wantQ, has := int32(0), false
					var wantIn int32
					if m != nil {
						wantQ, has = m.quota[u]
						wantIn = m.inflight[u]
					}
					gotQ, ok := have[n]
					if has != ok || (has && gotQ != wantQ) {
						t.Fatalf("%s: upstream %s instance %s: condition present=%v quota=%d, expected present=%v quota=%d\ntrace: %s", when, u, n, ok, gotQ, has, wantQ, trace)
					}
					if det[n] != int64(wantIn) {
						t.Fatalf("%s: upstream %s instance %s: in-flight count on record %d, expected %d\ntrace: %s", when, u, n, det[n], wantIn, trace)
					}
					sum += int64(wantIn)
				}
				if count != sum || total != sum {
					t.Fatalf("%s: upstream %s: running total %d, per-instance total %d, expected %d\ntrace: %s", when, u, count, total, sum, trace)
				}
			}
		}
		t.Repeat(map[string]func(*rapid.T){
			"heartbeat": func(t *rapid.T) {
				n := rapid.SampledFrom(instances).Draw(t, "instance")
				beat(n)
				trace += "hb(" + n + ");"
			},
			"report": func(t *rapid.T) {
				n := rapid.SampledFrom(instances).Draw(t, "instance")
				u := rapid.SampledFrom(upstreams).Draw(t, "upstream")
				m := get(n)
				if m.lastBeat.IsZero() && rapid.IntRange(0, 2).Draw(t, "withoutHeartbeat") == 0 {
					// a report of an instance this server has no heartbeat of (its heartbeats do not reach the server, or
					// it was reclaimed and its last report is answered late): it is on record without being alive, the
					// next cleanup pass reclaims it
					m.silent = true
					trace += "NO-HEARTBEAT-"
					sub.Class("report-of-an-instance-without-heartbeat")
				} else {
					beat(n)
				}
				cond := &proxyv1alpha1.RateLimitCondition{ObjectMeta: metav1.ObjectMeta{Name: limbox.ConditionName(u, n)}}
				cond.Spec.UpstreamCluster = u
				cond.Spec.Instance = n
				cfg := proxyv1alpha1.RateLimitItemConfiguration{Name: "alloc", Strategy: proxyv1alpha1.GlobalAllocateLimit}
				st := proxyv1alpha1.RateLimitItemStatus{Name: "alloc", LimitItemDetail: proxyv1alpha1.LimitItemDetail{MaxRequestsInflight: &proxyv1alpha1.MaxRequestsInflightFlowControlSchema{}}}
				if q, ok := m.quota[u]; ok {
					cfg.MaxRequestsInflight = &proxyv1alpha1.MaxRequestsInflightFlowControlSchema{Max: q}
					used := int32(rapid.IntRange(0, int(q)).Draw(t, "used"))
					if last, ok := m.lastUsed[u]; ok && last <= q && rapid.IntRange(0, 2).Draw(t, "sameAsLastTime") == 0 {
						used = last // a steady instance: the report is identical to its previous one if its quota did not move
						sub.Class("report-repeats-the-previous-usage")
					}
					m.lastUsed[u] = used
					st.MaxRequestsInflight.Max = used
					st.RequestLevel = used * 100 / q
				}
				cond.Spec.LimitItemConfigurations = []proxyv1alpha1.RateLimitItemConfiguration{cfg}
				cond.Status.LimitItemStatuses = []proxyv1alpha1.RateLimitItemStatus{st}
				out, err := box.Limiter.UpdateRateLimitConditionStatus(u, cond)
				if err != nil {
					t.Fatalf("report failed: %v\ntrace: %s", err, trace)
				}
				m.quota[u] = out.Spec.LimitItemConfigurations[0].MaxRequestsInflight.Max
				m.reports[u]++
				trace += fmt.Sprintf("report(%s,%s)=%d;", n, u, m.quota[u])
				if reclaimedOnce[n] {
					nt = true
					sub.Class("comeback")
				}
				// the recorded sum now covers exactly the instances on record
				state, err := box.Limiter.GetUpstreamStatus(u)
				if err != nil {
					t.Fatalf("GetUpstreamStatus: %v", err)
				}
				var want int32
				for _, x := range model {
					want += x.quota[u]
				}
				for _, it := range state.Status.LimitItemStatuses {
					if it.Name == "alloc" && it.MaxRequestsInflight != nil && it.MaxRequestsInflight.Max != want {
						t.Fatalf("recorded sum for %s is %d after a report, the instances on record hold %d (a reclaimed instance's quota was not freed?)\ntrace: %s", u, it.MaxRequestsInflight.Max, want, trace)
					}
				}
			},
			"acquire": func(t *rapid.T) {
				n := rapid.SampledFrom(instances).Draw(t, "instance")
				u := rapid.SampledFrom(upstreams).Draw(t, "upstream")
				beat(n)
				m := get(n)
				var others int32
				for name, x := range model {
					if name != n {
						others += x.inflight[u]
					}
				}
				want := int32(rapid.IntRange(0, gmax).Draw(t, "inflight"))
				m.ids++
				a := &proxyv1alpha1.RateLimitAcquire{ObjectMeta: metav1.ObjectMeta{Name: u}, Spec: proxyv1alpha1.RateLimitAcquireSpec{Instance: n, RequestID: m.ids,
					Requests: []proxyv1alpha1.RateLimitAcquireRequest{{FlowControl: "count", Tokens: want}}}}
				out, err := box.Limiter.DoAcquire(u, a)
				if err != nil || len(out.Status.Results) != 1 {
					t.Fatalf("acquire failed: %v\ntrace: %s", err, trace)
				}
				r := out.Status.Results[0]
				trace += fmt.Sprintf("acquire(%s,%s,%d)->(%v,%d);", n, u, want, r.Accept, r.Limit)
				fits := others+want <= gmax
				if fits || want <= m.inflight[u] {
					// capacity freed by reclaimed instances must be available: a report that fits is applied
					if r.Limit != want {
						t.Fatalf("in-flight report %d of %s for %s fits (others hold %d of %d) but was not applied (server says %d)\ntrace: %s", want, n, u, others, gmax, r.Limit, trace)
					}
					m.inflight[u] = want
				} else if r.Limit == want || r.Accept {
					t.Fatalf("in-flight report %d accepted although others hold %d of %d\ntrace: %s", want, others, gmax, trace)
				}
			},
			"silent": func(t *rapid.T) {
				n := rapid.SampledFrom(instances).Draw(t, "instance")
				m := model[n]
				if m == nil || m.lastBeat.IsZero() {
					t.Skip("never seen")
				}
				box.Limiter.VerifSetLastHeartbeat(n, time.Now().Add(-4*time.Second))
				m.silent = true
				trace += "silent(" + n + ");"
			},
			"pass": func(t *rapid.T) {
				start := time.Now()
				for n, m := range model {
					if !m.silent && !m.lastBeat.IsZero() && start.Sub(m.lastBeat) > 2500*time.Millisecond {
						sub.Inconclusive()
						t.Skipf("instance %s: heartbeat too old to call fresh (slow machine)", n)
					}
				}
				if !box.CleanupPass() {
					sub.Inconclusive()
					t.Skip("cleanup goroutines did not finish in time")
				}
				if time.Since(start) > 400*time.Millisecond {
					sub.Inconclusive()
					t.Skip("pass took too long to reason about freshness")
				}
				reclaimed, kept := 0, 0
				for n, m := range model {
					hasState := len(m.quota) > 0
					for _, v := range m.inflight {
						if v > 0 {
							hasState = true
						}
					}
					if m.silent {
						if hasState {
							reclaimed++
						}
						reclaimedOnce[n] = true
						m.quota = map[string]int32{}
						m.reports = map[string]int{}
						m.lastUsed = map[string]int32{}
						m.inflight = map[string]int32{}
						m.lastBeat = time.Time{}
						m.silent = false
						m.ids = 0
					} else if hasState {
						kept++
					}
				}
				trace += fmt.Sprintf("pass(reclaimed=%d,kept=%d);", reclaimed, kept)
				if reclaimed > 0 && kept > 0 {
					nt = true
					sub.Class("reclaim-while-others-stay")
				}
				checkState("after cleanup pass")
			},
			"": func(t *rapid.T) { checkState("invariant") },
		})
		if nt {
			sub.NonTrivial(stats.HashString(trace))
			if sub.WantSample() {
				sub.Sample(trace)
			}
		}
	})
}

// TestReplayColonIdentity: witness found by TestPropReclaim on the pinned tree — the timeout of an instance whose
// identity is not a valid label value ("ip:port") deleted the conditions of every other instance.
func TestReplayColonIdentity(t *testing.T) {
	for _, kind := range []string{"local", "k8s"} {
		box := limbox.New(kind, 1, "srv")
		box.LeadAll()
		if err := box.SetCluster(cluster("alpha")); err != nil {
			t.Fatal(err)
		}
		rep := func(n string) {
			_ = box.Limiter.Heartbeat(n)
			cond := &proxyv1alpha1.RateLimitCondition{ObjectMeta: metav1.ObjectMeta{Name: limbox.ConditionName("alpha", n)}}
			cond.Spec.UpstreamCluster = "alpha"
			cond.Spec.Instance = n
			cond.Spec.LimitItemConfigurations = []proxyv1alpha1.RateLimitItemConfiguration{{Name: "alloc", Strategy: proxyv1alpha1.GlobalAllocateLimit}}
			if _, err := box.Limiter.UpdateRateLimitConditionStatus("alpha", cond); err != nil {
				t.Fatal(err)
			}
		}
		rep("gw-a")
		rep("10.0.0.1:443")
		box.Limiter.VerifSetLastHeartbeat("10.0.0.1:443", time.Now().Add(-4*time.Second))
		box.CleanupPass()
		if _, err := box.Limiter.GetRateLimitCondition("alpha", limbox.ConditionName("alpha", "gw-a")); err != nil {
			t.Errorf("store %s: condition of live instance gw-a was removed when 10.0.0.1:443 timed out: %v", kind, err)
		}
		if _, err := box.Limiter.GetRateLimitCondition("alpha", limbox.ConditionName("alpha", "10.0.0.1:443")); err == nil {
			t.Errorf("store %s: condition of the silent instance was not removed", kind)
		}
	}
}
