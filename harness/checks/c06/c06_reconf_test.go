//go:build verif

package c06

import (
	"fmt"
	"testing"

	"pgregory.net/rapid"

	"verifharness/internal/stats"
)

// genReconfPlan: a history of reconfigurations of one token bucket followed by a measurement of the rate and burst in
// force: drain the bucket, stay idle for a measured time, count what is admitted at once.
func genReconfPlan(t *rapid.T) plan {
	p := plan{}
	small := func(label string) (int32, int32) {
		q := rapid.IntRange(1, 400).Draw(t, label+".qps")
		b := q
		switch rapid.IntRange(0, 2).Draw(t, label+".burstKind") {
		case 1:
			b = q + rapid.IntRange(0, 50).Draw(t, label+".burstExtra")
		case 2:
			if m := q * rapid.IntRange(2, 20).Draw(t, label+".burstFactor"); m <= 500 {
				b = m
			}
		}
		return int32(q), int32(b)
	}
	p.QPS, p.Burst = small("init")
	hist := [][2]int32{{p.QPS, p.Burst}}
	k := rapid.IntRange(1, 4).Draw(t, "reconfigurations")
	for i := 0; i < k; i++ {
		cur := hist[len(hist)-1]
		var nq, nb int32
		kind := rapid.IntRange(0, 4).Draw(t, fmt.Sprintf("reconf[%d].kind", i))
		if kind == 4 && len(hist) < 2 {
			kind = 1
		}
		switch kind {
		case 0:
			nq, nb = small(fmt.Sprintf("reconf[%d]", i))
		case 1, 2: // only the rate
			nq, nb = int32(rapid.IntRange(1, int(cur[1])).Draw(t, fmt.Sprintf("reconf[%d].qpsOnly", i))), cur[1]
		case 3: // only the burst
			nq, nb = cur[0], cur[0]+int32(rapid.IntRange(0, 100).Draw(t, fmt.Sprintf("reconf[%d].burstOnly", i)))
		default: // back to an earlier configuration
			e := hist[rapid.IntRange(0, len(hist)-2).Draw(t, fmt.Sprintf("reconf[%d].backTo", i))]
			nq, nb = e[0], e[1]
		}
		hist = append(hist, [2]int32{nq, nb})
		calls := rapid.IntRange(1, 30).Draw(t, fmt.Sprintf("reconf[%d].calls", i))
		if i == k-1 {
			calls = int(nb) + 20 // drain what the last configuration grants at once
		}
		ph := phase{NewQPS: nq, NewBurst: nb, Calls: calls, Workers: 1}
		if nq == cur[0] && nb == cur[1] {
			ph.NewQPS, ph.NewBurst = 0, 0
		}
		if rapid.IntRange(0, 3).Draw(t, fmt.Sprintf("reconf[%d].unrelated", i)) == 0 {
			ph.UnrelatedSyncs = 1
		}
		p.Phases = append(p.Phases, ph)
	}
	last := hist[len(hist)-1]
	// idle long enough for a few tokens of the configured rate, at most 150 ms
	idleUS := rapid.IntRange(10000, 40000).Draw(t, "idleUS")
	if need := 3 * 1000000 / int(last[0]); need > idleUS {
		idleUS = need
	}
	if idleUS > 150000 {
		idleUS = 150000
	}
	p.Phases = append(p.Phases, phase{Calls: int(last[1]) + 20, Workers: 1, PauseUS: idleUS})
	return p
}

// TestPropReconfigurationSequences: whatever sequence of edits led to the current (qps, burst), the limit in force is the current one.
func TestPropReconfigurationSequences(t *testing.T) {
	sub := stats.NewSub("reconfiguration-sequences", "rapid: a token bucket (qps 1..400, burst = qps, qps + 0..50 or a multiple up to 500) is reconfigured 1-4 times (fresh values, only the qps, only the burst, or back to an earlier configuration of the same history; a few calls in between; sometimes a spec update that only touches another schema), then measured: burst+20 sequential calls drain it, an idle time of 10-150 ms (long enough for >= 3 tokens of the configured rate where possible), then burst+20 sequential calls; executed against the real limiter with timestamps around every call; oracle as for token-bucket-plans (per configuration: #admitted in [before_i, after_j] <= burst + qps*T; after a measured idle time t the first min(burst, floor(qps*t)) sequential calls are admitted); non-trivial = at least two reconfigurations and the last one changes only one of the two values or returns to an earlier configuration; distinct by FNV-64 of the plan")
	stats.Check(t, stats.N(150, 1200), func(t *rapid.T) {
		p := genReconfPlan(t)
		ws := execute(p)
		sub.Eval()
		n := len(p.Phases)
		if n >= 3 {
			sub.NonTrivial(stats.Hash(p))
		}
		sub.ClassN("configurations", len(ws))
		if sub.WantSample() && n >= 3 {
			sub.Sample(map[string]interface{}{"plan": p})
		}
		for _, w := range ws {
			if msg := checkWindow(w); msg != "" {
				saveReplay(p, msg)
				t.Fatalf("%s\nplan: %+v", msg, p)
			}
		}
	})
}
