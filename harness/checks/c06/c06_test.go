//go:build verif

// C06 — local token bucket: admissions <= burst + qps*T, never stricter than set.
package c06

import (
	"context"
	"encoding/json"
	"fmt"
	"os"
	"sort"
	"sync"
	"sync/atomic"
	"testing"
	"time"

	"pgregory.net/rapid"

	proxyv1alpha1 "github.com/kubewharf/kubegateway/pkg/apis/proxy/v1alpha1"
	"github.com/kubewharf/kubegateway/pkg/flowcontrols"
	"verifharness/internal/stats"
)

func TestMain(m *testing.M) {
	stats.Property("C06")
	stats.Assume(
		"the bucket reads the real clock, so time is a measured input: every call is bracketed by monotonic timestamps; a window [a,b] only counts admitted calls that lie completely inside it, and T = b-a, so scheduling delays can only loosen the upper bound",
		"lower bound: the idle time is measured from after the previous call returned to before the next call started (never longer than what the bucket sees) and 1e-6 tokens are subtracted for floating-point rounding",
		"reconfigurations happen at quiescent points of the plan (no call in flight); every reconfiguration starts a new window",
		"calls go through UpstreamLimiter.GetOrDefault(name).TryAcquire(), the dispatcher's path",
		"Go runtime, pgregory.net/rapid v1.3.0",
	)
	stats.Main(m)
}

type phase struct {
	Calls   int `json:"calls"`
	Workers int `json:"workers"`
	PauseUS int `json:"pause_us"`
	// reconfigure before this phase (0 = keep)
	NewQPS   int32 `json:"new_qps"`
	NewBurst int32 `json:"new_burst"`
	// number of spec updates that only touch ANOTHER schema of the cluster, applied before this phase (they must not
	// start a new window for the observed schema)
	UnrelatedSyncs int `json:"unrelated_syncs"`
	// "exempt" / "mif": before this phase the schema is changed in place to that type and back to the token bucket
	// (with the new values, if any): a fresh bucket, so a new window starts
	ViaType string `json:"via_type,omitempty"`
}

type plan struct {
	QPS   int32 `json:"qps"`
	Burst int32 `json:"burst"`
	// "exempt" / "mif": the schema first exists with that type and is changed in place to the token bucket
	InitType string  `json:"init_type,omitempty"`
	Global   int32   `json:"global,omitempty"` // >0: the schema also carries a global token bucket of Global times the local values (local limiter mode: the local values stay in force)
	Phases   []phase `json:"phases"`
}

type call struct {
	before, after time.Duration // since start
	ok            bool
}

func genQB(t *rapid.T, label string) (int32, int32) {
	var q int
	switch rapid.IntRange(0, 2).Draw(t, label+".class") {
	case 0:
		q = rapid.IntRange(1, 20).Draw(t, label+".qps")
	case 1:
		q = rapid.IntRange(20, 500).Draw(t, label+".qps")
	default:
		q = rapid.IntRange(500, 5000).Draw(t, label+".qps")
	}
	extra := 0
	switch rapid.IntRange(0, 3).Draw(t, label+".extraBurst") {
	case 0, 1:
	case 2:
		extra = rapid.IntRange(0, 50).Draw(t, label+".burstExtra")
	default: // a burst that is a multiple of the rate (kept small enough to be drained by one phase)
		if b := q * rapid.IntRange(2, 20).Draw(t, label+".burstFactor"); b <= 400 {
			extra = b - q
		}
	}
	return int32(q), int32(q + extra)
}

func genPlan(t *rapid.T) plan {
	p := plan{}
	p.QPS, p.Burst = genQB(t, "init")
	p.InitType = rapid.SampledFrom([]string{"", "", "", "exempt", "mif"}).Draw(t, "initType")
	if rapid.IntRange(0, 3).Draw(t, "withGlobal") == 0 {
		p.Global = int32(rapid.SampledFrom([]int{1, 2, 3, 10, 25, 100}).Draw(t, "global"))
	}
	n := rapid.IntRange(1, 6).Draw(t, "phases")
	hist := [][2]int32{{p.QPS, p.Burst}}
	for i := 0; i < n; i++ {
		ph := phase{}
		ph.Calls = rapid.IntRange(1, 300).Draw(t, fmt.Sprintf("phase[%d].calls", i))
		if b := int(hist[len(hist)-1][1]); b <= 600 && rapid.IntRange(0, 2).Draw(t, fmt.Sprintf("phase[%d].drain", i)) == 0 {
			ph.Calls = b + 20 // enough calls to drain the burst in force when the phase was drawn
		}
		ph.Workers = rapid.IntRange(1, 8).Draw(t, fmt.Sprintf("phase[%d].workers", i))
		ph.PauseUS = rapid.IntRange(0, 40000).Draw(t, fmt.Sprintf("phase[%d].pauseUS", i))
		if i > 0 && rapid.Bool().Draw(t, fmt.Sprintf("phase[%d].reconf", i)) {
			// a reconfiguration: fresh values, only one of the two values changed, or back to an earlier configuration
			// of this history (an operator undoing an edit)
			cur := hist[len(hist)-1]
			kind := rapid.IntRange(0, 5).Draw(t, fmt.Sprintf("phase[%d].reconfKind", i))
			if kind >= 4 && len(hist) < 2 {
				kind = 2
			}
			switch kind {
			case 0, 1:
				ph.NewQPS, ph.NewBurst = genQB(t, fmt.Sprintf("phase[%d]", i))
			case 2: // only the rate changes, the burst stays
				ph.NewQPS, ph.NewBurst = int32(rapid.IntRange(1, int(cur[1])).Draw(t, fmt.Sprintf("phase[%d].qpsOnly", i))), cur[1]
			case 3: // only the burst changes
				ph.NewQPS, ph.NewBurst = cur[0], cur[0]+int32(rapid.IntRange(0, 50).Draw(t, fmt.Sprintf("phase[%d].burstOnly", i)))
			default: // back to an earlier configuration
				e := hist[rapid.IntRange(0, len(hist)-2).Draw(t, fmt.Sprintf("phase[%d].backTo", i))]
				ph.NewQPS, ph.NewBurst = e[0], e[1]
			}
			hist = append(hist, [2]int32{ph.NewQPS, ph.NewBurst})
		}
		if i > 0 && rapid.IntRange(0, 2).Draw(t, fmt.Sprintf("phase[%d].unrelated", i)) == 0 {
			ph.UnrelatedSyncs = rapid.IntRange(1, 3).Draw(t, fmt.Sprintf("phase[%d].unrelatedSyncs", i))
		}
		if i > 0 && rapid.IntRange(0, 5).Draw(t, fmt.Sprintf("phase[%d].via", i)) == 0 {
			ph.ViaType = rapid.SampledFrom([]string{"exempt", "mif"}).Draw(t, fmt.Sprintf("phase[%d].viaType", i))
		}
		p.Phases = append(p.Phases, ph)
	}
	return p
}

// schemaTyped is schemaGen with the observed schema "tb" of another type.
func schemaTyped(typ string, gen int32) proxyv1alpha1.FlowControl {
	fc := schemaGen(1, 1, gen)
	if typ == "exempt" {
		fc.Schemas[0].FlowControlSchemaConfiguration = proxyv1alpha1.FlowControlSchemaConfiguration{Exempt: &proxyv1alpha1.ExemptFlowControlSchema{}}
	} else {
		fc.Schemas[0].FlowControlSchemaConfiguration = proxyv1alpha1.FlowControlSchemaConfiguration{MaxRequestsInflight: &proxyv1alpha1.MaxRequestsInflightFlowControlSchema{Max: 3}}
	}
	return fc
}

// schema builds a fresh spec object (new pointers, as every informer delivery does): the observed token bucket "tb",
// a second token bucket and a max-in-flight schema whose values depend on gen (changing gen = an unrelated update).
func schemaGen(qps, burst int32, gen int32) proxyv1alpha1.FlowControl {
	return proxyv1alpha1.FlowControl{Schemas: []proxyv1alpha1.FlowControlSchema{
		{Name: "tb", FlowControlSchemaConfiguration: proxyv1alpha1.FlowControlSchemaConfiguration{TokenBucket: &proxyv1alpha1.TokenBucketFlowControlSchema{QPS: qps, Burst: burst}}},
		{Name: "other-tb", FlowControlSchemaConfiguration: proxyv1alpha1.FlowControlSchemaConfiguration{TokenBucket: &proxyv1alpha1.TokenBucketFlowControlSchema{QPS: 10 + gen, Burst: 20 + gen}}},
		{Name: "other-mif", FlowControlSchemaConfiguration: proxyv1alpha1.FlowControlSchemaConfiguration{MaxRequestsInflight: &proxyv1alpha1.MaxRequestsInflightFlowControlSchema{Max: 1 + gen%5}}},
	}}
}

func schema(qps, burst int32) proxyv1alpha1.FlowControl { return schemaGen(qps, burst, 0) }

type window struct {
	qps, burst int32
	calls      []call
	// lower-bound probes: idle time before a sequential run of calls, and how many of the first calls were admitted
	probes []probe
}

type probe struct {
	idle     time.Duration
	admitted int
	tried    int
}

// execute runs the plan against a real limiter and returns the windows (one per configuration).
func execute(p plan) []window {
	ctx, cancel := context.WithCancel(context.Background())
	defer cancel()
	ul := flowcontrols.NewUpstreamLimiter(ctx, "c1", "", nil)
	defer ul.Sync(proxyv1alpha1.FlowControl{})
	// g adds the global limits of a globally limited schema to the observed token bucket; this limiter runs in local
	// mode (no limiter server configured), where the schema's own qps and burst are the ones in force
	g := func(fc proxyv1alpha1.FlowControl) proxyv1alpha1.FlowControl {
		if s := &fc.Schemas[0]; p.Global > 0 && s.TokenBucket != nil {
			s.GlobalTokenBucket = &proxyv1alpha1.TokenBucketFlowControlSchema{QPS: s.TokenBucket.QPS * p.Global, Burst: s.TokenBucket.Burst * p.Global}
			s.Strategy = proxyv1alpha1.GlobalAllocateLimit
			if p.Global%2 == 1 {
				s.Strategy = proxyv1alpha1.GlobalCountLimit
			}
		}
		return fc
	}
	if p.InitType != "" {
		ul.Sync(g(schemaTyped(p.InitType, 0)))
	}
	start := time.Now()
	ul.Sync(g(schema(p.QPS, p.Burst)))
	var out []window
	cur := window{qps: p.QPS, burst: p.Burst}
	var lastAfter time.Duration = -1
	gen := int32(0)
	for _, ph := range p.Phases {
		for k := 0; k < ph.UnrelatedSyncs; k++ {
			gen++
			ul.Sync(g(schemaGen(cur.qps, cur.burst, gen))) // only the other schemas change: no new window for "tb"
		}
		if ph.ViaType != "" {
			out = append(out, cur)
			ul.Sync(g(schemaTyped(ph.ViaType, gen)))
			nq, nb := cur.qps, cur.burst
			if ph.NewQPS > 0 {
				nq, nb = ph.NewQPS, ph.NewBurst
			}
			ul.Sync(g(schemaGen(nq, nb, gen)))
			cur = window{qps: nq, burst: nb}
			lastAfter = -1
		} else if ph.NewQPS > 0 && (ph.NewQPS != cur.qps || ph.NewBurst != cur.burst) {
			out = append(out, cur)
			ul.Sync(g(schemaGen(ph.NewQPS, ph.NewBurst, gen)))
			cur = window{qps: ph.NewQPS, burst: ph.NewBurst}
			lastAfter = -1
		}
		if ph.PauseUS > 0 {
			time.Sleep(time.Duration(ph.PauseUS) * time.Microsecond)
		}
		if ph.Workers <= 1 {
			// sequential run: usable as a lower-bound probe
			first := true
			pr := probe{}
			counting := true
			for i := 0; i < ph.Calls; i++ {
				b := time.Since(start)
				ok := ul.GetOrDefault("tb").TryAcquire()
				a := time.Since(start)
				cur.calls = append(cur.calls, call{b, a, ok})
				if first {
					first = false
					if lastAfter >= 0 {
						pr.idle = b - lastAfter
					} else {
						counting = false
					}
				}
				if counting {
					pr.tried++
					if ok {
						pr.admitted++
					} else {
						counting = false
					}
				}
				lastAfter = a
			}
			if pr.tried > 0 {
				cur.probes = append(cur.probes, pr)
			}
			continue
		}
		var wg sync.WaitGroup
		var mu sync.Mutex
		per := ph.Calls/ph.Workers + 1
		for w := 0; w < ph.Workers; w++ {
			wg.Add(1)
			go func() {
				defer wg.Done()
				local := make([]call, 0, per)
				for i := 0; i < per; i++ {
					b := time.Since(start)
					ok := ul.GetOrDefault("tb").TryAcquire()
					a := time.Since(start)
					local = append(local, call{b, a, ok})
				}
				mu.Lock()
				cur.calls = append(cur.calls, local...)
				mu.Unlock()
			}()
		}
		wg.Wait()
		lastAfter = time.Since(start)
	}
	out = append(out, cur)
	return out
}

// checkWindow returns "" or a description of the violated bound.
func checkWindow(w window) string {
	var adm []call
	for _, c := range w.calls {
		if c.ok {
			adm = append(adm, c)
		}
	}
	sort.Slice(adm, func(i, j int) bool { return adm[i].before < adm[j].before })
	// for every start a = before_i: admitted calls with before >= a, ordered by 'after'
	for i := range adm {
		rest := append([]call{}, adm[i:]...)
		sort.Slice(rest, func(x, y int) bool { return rest[x].after < rest[y].after })
		for k, c := range rest {
			n := k + 1 // calls completely inside [adm[i].before, c.after]
			T := (c.after - adm[i].before).Seconds()
			if float64(n) > float64(w.burst)+float64(w.qps)*T+1e-6 {
				return fmt.Sprintf("%d requests admitted in a window of %.6f s under qps=%d burst=%d (bound %.3f)", n, T, w.qps, w.burst, float64(w.burst)+float64(w.qps)*T)
			}
		}
	}
	for _, p := range w.probes {
		want := int(float64(w.qps)*p.idle.Seconds() - 1e-6)
		if want > int(w.burst) {
			want = int(w.burst)
		}
		if want > p.tried {
			want = p.tried
		}
		if p.admitted < want {
			return fmt.Sprintf("after %.6f s idle only %d requests were admitted immediately, configured qps=%d burst=%d allow min(burst, floor(qps*t)) = %d", p.idle.Seconds(), p.admitted, w.qps, w.burst, want)
		}
	}
	return ""
}

func saveReplay(p plan, msg string) {
	b, _ := json.MarshalIndent(map[string]interface{}{"plan": p, "violation": msg}, "", " ")
	_ = os.WriteFile("replay-c06-plan.json", b, 0o644)
}

func TestPropTokenBucketBounds(t *testing.T) {
	sub := stats.NewSub("token-bucket-plans", "rapid: (qps 1..5000, burst >= qps) and a plan of 1-6 phases (n calls - one phase in three: enough calls to drain the burst - from 1-8 goroutines, pause 0-40 ms, optional reconfiguration (one phase in two: fresh (qps, burst), only the qps changed, only the burst changed, or back to an earlier configuration of the same history), optional 1-3 spec updates that only change OTHER schemas of the cluster and must not start a new window, optionally the schema first exists as exempt / max-in-flight and is changed in place to the token bucket, or is changed to such a type and back between phases; one plan in four: the schema also carries the global token bucket of a globally limited schema (1-100 times the local values, strategy allocate or count) while the limiter runs in local mode); executed against the real limiter with timestamps around every call; oracle: for every window [before_i, after_j] inside one configuration, #admitted calls completely inside <= burst + qps*T; after a measured idle time t the first min(burst, floor(qps*t)) sequential calls are admitted; non-trivial = the plan has >=1 pause and >=1 refused call; distinct by FNV-64 of the plan")
	stats.Check(t, stats.N(600, 2500), func(t *rapid.T) {
		p := genPlan(t)
		ws := execute(p)
		sub.Eval()
		refused, paused := false, false
		total := 0
		for _, w := range ws {
			for _, c := range w.calls {
				total++
				if !c.ok {
					refused = true
				}
			}
		}
		for _, ph := range p.Phases {
			if ph.PauseUS > 0 {
				paused = true
			}
		}
		if refused && paused {
			sub.NonTrivial(stats.Hash(p))
		}
		if refused {
			sub.Class("has-refusals")
		}
		if len(ws) > 1 {
			sub.Class("reconfigured")
		}
		sub.ClassN("calls", total)
		if sub.WantSample() && refused && paused {
			sub.Sample(map[string]interface{}{"plan": p, "calls": total})
		}
		for _, w := range ws {
			if msg := checkWindow(w); msg != "" {
				saveReplay(p, msg)
				t.Fatalf("%s\nplan: %+v", msg, p)
			}
		}
	})
}

// TestReplayFile re-executes a saved plan (./check replay C06 <file>).
func TestReplayFile(t *testing.T) {
	f := os.Getenv("VERIF_REPLAY_FILE")
	if f == "" {
		t.Skip("no replay file")
	}
	b, err := os.ReadFile(f)
	if err != nil {
		t.Skip(err)
	}
	var doc struct {
		Plan plan `json:"plan"`
	}
	if err := json.Unmarshal(b, &doc); err != nil {
		t.Skip(err)
	}
	for i := 0; i < 5; i++ {
		for _, w := range execute(doc.Plan) {
			if msg := checkWindow(w); msg != "" {
				t.Fatalf("%s\nplan: %+v", msg, doc.Plan)
			}
		}
	}
}

// TestReplayFixedPlans: a few fixed plans (burst then pause then burst), as a seconds-long regression tier.
func TestReplayFixedPlans(t *testing.T) {
	plans := []plan{
		{QPS: 100, Burst: 100, Phases: []phase{{Calls: 300, Workers: 1}, {Calls: 50, Workers: 1, PauseUS: 30000}, {Calls: 200, Workers: 4, PauseUS: 10000}}},
		{QPS: 5, Burst: 7, Phases: []phase{{Calls: 20, Workers: 3}, {Calls: 20, Workers: 1, PauseUS: 40000, NewQPS: 1000, NewBurst: 1000}, {Calls: 50, Workers: 1, PauseUS: 20000}}},
	}
	for _, p := range plans {
		for _, w := range execute(p) {
			if msg := checkWindow(w); msg != "" {
				t.Errorf("%s (plan %+v)", msg, p)
			}
		}
	}
}

// TestPropHotContention: many spinning callers on one bucket. The rate limiter reads the clock before it locks, so callers
// that are not ordered by the flow control itself hand out the tokens of the gap between two timestamps twice.
func TestPropHotContention(t *testing.T) {
	sub := stats.NewSub("hot-contention", "rapid: a token bucket (qps 2000..50000, burst = qps) hammered by 16-64 spinning goroutines for 100-250 ms through the real limiter; oracle: admitted calls <= burst + qps*T, T measured around the whole run; non-trivial = all; distinct by FNV-64 of the parameters")
	stats.Check(t, stats.N(3, 20), func(t *rapid.T) {
		qps := int32(rapid.IntRange(2000, 50000).Draw(t, "qps"))
		workers := rapid.IntRange(16, 64).Draw(t, "goroutines")
		dur := time.Duration(rapid.IntRange(100, 250).Draw(t, "ms")) * time.Millisecond
		ctx, cancel := context.WithCancel(context.Background())
		defer cancel()
		ul := flowcontrols.NewUpstreamLimiter(ctx, "c1", "", nil)
		defer ul.Sync(proxyv1alpha1.FlowControl{})
		ul.Sync(schema(qps, qps))
		var admitted int64
		var wg sync.WaitGroup
		stop := make(chan struct{})
		start := time.Now()
		for w := 0; w < workers; w++ {
			wg.Add(1)
			go func() {
				defer wg.Done()
				n := int64(0)
				for {
					select {
					case <-stop:
						atomic.AddInt64(&admitted, n)
						return
					default:
					}
					if ul.GetOrDefault("tb").TryAcquire() {
						n++
					}
				}
			}()
		}
		time.Sleep(dur)
		close(stop)
		wg.Wait()
		T := time.Since(start).Seconds()
		sub.Eval()
		bound := float64(qps) + float64(qps)*T
		desc := fmt.Sprintf("qps=burst=%d goroutines=%d T=%.3fs admitted=%d bound=%.0f", qps, workers, T, admitted, bound)
		if float64(admitted) > bound+1e-6 {
			t.Fatalf("%d requests admitted in %.3f s under qps=%d burst=%d (bound %.0f) with %d spinning callers", admitted, T, qps, qps, bound, workers)
		}
		sub.NonTrivial(stats.Hash(qps, workers, dur))
		sub.Note("%s", desc)
		if sub.WantSample() {
			sub.Sample(desc)
		}
	})
}
