//go:build verif

package c05

import (
	"fmt"
	"net/http"
	"net/http/httptest"
	"sync/atomic"
	"testing"
	"time"

	"k8s.io/apimachinery/pkg/util/sets"
	"k8s.io/apiserver/pkg/authentication/user"
	genericapirequest "k8s.io/apiserver/pkg/endpoints/request"
	"pgregory.net/rapid"

	proxyv1alpha1 "github.com/kubewharf/kubegateway/pkg/apis/proxy/v1alpha1"
	gwclusters "github.com/kubewharf/kubegateway/pkg/clusters"
	"github.com/kubewharf/kubegateway/pkg/gateway/endpoints/request"
	"github.com/kubewharf/kubegateway/pkg/gateway/proxy/dispatcher"
	"verifharness/internal/gwbox"
	"verifharness/internal/stats"
)

var dispRequestInfo = &genericapirequest.RequestInfoFactory{APIPrefixes: sets.NewString("api", "apis"), GrouplessAPIPrefixes: sets.NewString("api")}

// dispRequest builds the request the filter chain hands to the dispatcher.
func dispRequest(ci *gwclusters.ClusterInfo, target, id string) (*http.Request, error) {
	req := httptest.NewRequest(http.MethodGet, target, nil)
	req.Host = ci.Cluster
	req.Header.Set(gwbox.IDHeader, id)
	ri, err := dispRequestInfo.NewRequestInfo(req)
	if err != nil {
		return nil, err
	}
	ctx := genericapirequest.WithUser(req.Context(), &user.DefaultInfo{Name: "alice", Groups: []string{"system:authenticated"}})
	ctx = genericapirequest.WithRequestInfo(ctx, ri)
	ctx = request.WithExtraRequestInfo(ctx, &request.ExtraRequestInfo{Scheme: "https", Hostname: ci.Cluster, UpstreamCluster: ci, IsProxyRequest: true})
	ctx = request.WithProxyInfo(ctx, request.NewProxyInfo())
	return req.WithContext(ctx), nil
}

// TestPropDispatcherPanics: a panic that leaves dispatcher.ServeHTTP after the slot was taken. Through the whole handler
// chain the known way to provoke one (a watch on a resource name that is not valid UTF-8, which the watcher gauge
// refuses) already panics in an earlier filter, so this sub-check talks to the dispatcher directly.
func TestPropDispatcherPanics(t *testing.T) {
	sub := stats.NewSub("dispatcher-panic-exit-path", "rapid: the real dispatcher in front of a real ClusterInfo (max-in-flight M in 1..3) and a stub upstream; 1-6 requests run one after the other, each an ordinary GET or a watch on a resource name that is not valid UTF-8 (the watcher gauge of MonitorBeforeProxy panics after the slot was taken; the panic leaves ServeHTTP); oracle: afterwards exactly M requests are admitted concurrently (held open at the stub) and the next one is answered 429; non-trivial = at least one request ended with a panic; distinct by FNV-64 of the plan")
	stats.Check(t, stats.N(60, 500), func(t *rapid.T) {
		m := int32(rapid.IntRange(1, 3).Draw(t, "M"))
		n := rapid.IntRange(1, 6).Draw(t, "requests")
		plan := make([]bool, n) // true = ends with a panic
		for i := range plan {
			plan[i] = rapid.Bool().Draw(t, fmt.Sprintf("panic[%d]", i))
		}
		up := httpPool.Upstreams[0]
		up.SetHealth(200)
		c := gwbox.ClusterObject(fmt.Sprintf("disp%d", atomic.AddInt64(&httpSeq, 1)), "gateway-secret-token", up)
		c.Spec.FlowControl.Schemas = []proxyv1alpha1.FlowControlSchema{{Name: "lim", FlowControlSchemaConfiguration: proxyv1alpha1.FlowControlSchemaConfiguration{MaxRequestsInflight: &proxyv1alpha1.MaxRequestsInflightFlowControlSchema{Max: m}}}}
		c.Spec.DispatchPolicies[0].FlowControlSchemaName = "lim"
		ci, err := gwclusters.CreateClusterInfo(c, func(e *gwclusters.EndpointInfo) bool { e.UpdateStatus(true, "", ""); return false }, "", nil)
		if err != nil {
			t.Fatalf("harness: %v", err)
		}
		defer ci.Stop()
		deadline := time.Now().Add(5 * time.Second)
		for {
			if e, ok := ci.Endpoints.Load(up.URL); ok && e.IsReady() {
				break
			}
			if time.Now().After(deadline) {
				t.Fatalf("harness: endpoint did not become ready")
			}
			time.Sleep(time.Millisecond)
		}
		mgr := gwclusters.NewManager()
		mgr.Add(ci)
		d := dispatcher.NewDispatcher(mgr, false)
		serve := func(target, id string) (code int, panicked interface{}) {
			req, err := dispRequest(ci, target, id)
			if err != nil {
				t.Fatalf("harness: %v", err)
			}
			rec := httptest.NewRecorder()
			func() {
				defer func() { panicked = recover() }()
				d.ServeHTTP(rec, req)
			}()
			return rec.Code, panicked
		}
		sub.Eval()
		desc := fmt.Sprintf("M=%d requests(panic=true)=%v", m, plan)
		panics := 0
		for i, p := range plan {
			id := fmt.Sprintf("c05d-%d", atomic.AddInt64(&httpSeq, 1))
			if p {
				if _, pv := serve("/api/v1/%ff%fe?watch=true", id); pv != nil {
					panics++
				}
			} else if code, pv := serve("/api/v1/namespaces/default/pods", id); pv != nil || code != 200 {
				t.Fatalf("ordinary request %d: status %d panic %v\n%s", i, code, pv, desc)
			}
			httpPool.Forget(id)
		}
		// probe: hold requests open at the stub until one is refused
		type held struct {
			id   string
			hold chan struct{}
			done chan int
		}
		var hs []*held
		admitted := 0
		for i := 0; i < int(m)+2; i++ {
			h := &held{id: fmt.Sprintf("c05dp-%d", atomic.AddInt64(&httpSeq, 1)), hold: make(chan struct{}), done: make(chan int, 1)}
			httpPool.SetReply(h.id, &gwbox.Reply{Status: 200, Hold: h.hold, Body: []byte("ok")})
			hs = append(hs, h)
			go func() {
				code, _ := serve("/api/v1/namespaces/default/pods", h.id)
				h.done <- code
			}()
			refused := false
			select {
			case <-httpPool.Started(h.id):
				admitted++
			case code := <-h.done:
				h.done <- code
				if code != http.StatusTooManyRequests {
					t.Fatalf("probe request answered %d\n%s", code, desc)
				}
				refused = true
			case <-time.After(10 * time.Second):
				t.Fatalf("harness: probe request neither reached the stub nor was answered\n%s", desc)
			}
			if refused {
				break
			}
		}
		for _, h := range hs {
			close(h.hold)
		}
		for _, h := range hs {
			select {
			case <-h.done:
			case <-time.After(10 * time.Second):
			}
			httpPool.Forget(h.id)
		}
		if admitted != int(m) {
			t.Fatalf("after all requests ended (%d of them with a panic that left the dispatcher) %d requests are admitted concurrently, the limit is %d\n%s", panics, admitted, m, desc)
		}
		if panics > 0 {
			sub.NonTrivial(stats.HashString(desc))
			sub.ClassN("request-ended-with-a-panic-leaving-the-dispatcher", panics)
			if sub.WantSample() {
				sub.Sample(desc)
			}
		}
	})
}
