//go:build verif

package c05

import (
	"context"
	"fmt"
	"testing"

	golibmif "github.com/zoumo/golib/lock/maxinflight"
	"pgregory.net/rapid"

	proxyv1alpha1 "github.com/kubewharf/kubegateway/pkg/apis/proxy/v1alpha1"
	"github.com/kubewharf/kubegateway/pkg/flowcontrols"
	"github.com/kubewharf/kubegateway/pkg/flowcontrols/flowcontrol"
	"github.com/kubewharf/kubegateway/pkg/flowcontrols/remote"
	"verifharness/internal/stats"
	"verifharness/internal/vsched"
)

type span struct {
	start, end int // scheduler step numbers
	ok         bool
	worker     int
	relStart   int // step at which the release of this admission started (0 = not yet)
}

type resize struct {
	start, end int
	m          int32
}

// TestPropAcquireReleaseResizeSchedules: concurrent acquire / release / resize under a harness-owned schedule.
func TestPropAcquireReleaseResizeSchedules(t *testing.T) {
	sub := stats.NewSub("acquire-release-resize-schedules", "rapid + deterministic scheduler (schedule points and scheduler-aware mutexes inserted at check time into flowcontrol.go, flowcontrol_wrapper.go and the atomic bucket of github.com/zoumo/golib): 2-4 worker threads with scripts of acquire / release (a worker releases only what it acquired, exactly once) and optionally one configuration thread resizing the max-in-flight schema (M -> M'), through UpstreamLimiter.Sync and GetOrDefault(name).TryAcquire()/Release(); the interleaving is given by 0-5 rapid-drawn pre-emption points; oracle: for every successful TryAcquire, the requests whose admission completed before the call started and whose release had not started when it ended number fewer than the largest limit in force during the call; at quiescence exactly M' new acquisitions succeed (no leak, no over-release); deadlock or panic is a violation; non-trivial = at least one thread is pre-empted before its script ends and the limit is reached at least once or a resize is concurrent; distinct by FNV-64 of (scripts, schedule)")
	stats.Check(t, stats.N(6000, 50000), func(t *rapid.T) {
		m0 := int32(rapid.IntRange(1, 3).Draw(t, "M"))
		nWorkers := rapid.IntRange(2, 4).Draw(t, "workers")
		scripts := make([][]bool, nWorkers) // true = acquire, false = release
		for i := range scripts {
			n := rapid.IntRange(1, 4).Draw(t, fmt.Sprintf("worker[%d].ops", i))
			for j := 0; j < n; j++ {
				scripts[i] = append(scripts[i], rapid.IntRange(0, 2).Draw(t, fmt.Sprintf("worker[%d].op[%d]", i, j)) != 0)
			}
		}
		var resizes []int32
		if rapid.Bool().Draw(t, "configThread") {
			k := rapid.IntRange(1, 2).Draw(t, "nresizes")
			for i := 0; i < k; i++ {
				resizes = append(resizes, int32(rapid.IntRange(1, 3).Draw(t, fmt.Sprintf("resize[%d]", i))))
			}
		}
		ctx, cancel := context.WithCancel(context.Background())
		defer cancel()
		ul := flowcontrols.NewUpstreamLimiter(ctx, "c1", "", nil)
		defer ul.Sync(proxyv1alpha1.FlowControl{})
		ul.Sync(proxyv1alpha1.FlowControl{Schemas: []proxyv1alpha1.FlowControlSchema{cfg{Kind: "mif", M: m0}.schema("s")}})
		s := vsched.New()
		var spans []*span
		var rs []*resize
		now := func() int { return len(s.Trace) }
		bodies := make([]func(), 0, nWorkers+1)
		for i := range scripts {
			i := i
			bodies = append(bodies, func() {
				var held []*span
				var handles []flowcontrol.FlowControl
				for _, acq := range scripts[i] {
					if acq {
						fc := ul.GetOrDefault("s")
						sp := &span{start: now(), worker: i}
						sp.ok = fc.TryAcquire()
						sp.end = now()
						spans = append(spans, sp)
						if sp.ok {
							held = append(held, sp)
							handles = append(handles, fc)
						}
					} else if len(held) > 0 {
						held[0].relStart = now()
						handles[0].Release()
						held, handles = held[1:], handles[1:]
					}
				}
				for k := range held {
					held[k].relStart = now()
					handles[k].Release()
				}
			})
		}
		if len(resizes) > 0 {
			bodies = append(bodies, func() {
				for _, m := range resizes {
					r := &resize{start: now(), m: m}
					rs = append(rs, r)
					ul.Sync(proxyv1alpha1.FlowControl{Schemas: []proxyv1alpha1.FlowControlSchema{cfg{Kind: "mif", M: m}.schema("s")}})
					r.end = now()
				}
			})
		}
		flowcontrol.VerifPoint, remote.VerifPoint, golibmif.VerifPoint = s.Point, s.Point, s.Point
		flowcontrol.VerifLockHook, remote.VerifLockHook, golibmif.VerifLockHook = s.LockHook, s.LockHook, s.LockHook
		reset := func() {
			nop := func(int) {}
			flowcontrol.VerifPoint, remote.VerifPoint, golibmif.VerifPoint = nop, nop, nop
			flowcontrol.VerifLockHook, remote.VerifLockHook, golibmif.VerifLockHook = nil, nil, nil
		}
		defer reset()
		res := s.Run(bodies, vsched.PreemptionChooser(genPreemptions(t, 30, 250)))
		reset()
		sub.Eval()
		desc := fmt.Sprintf("M=%d scripts(acquire=true)=%v resizes=%v schedule(thread per step)=%v", m0, scripts, resizes, s.Trace)
		if res.Deadlock || res.Panic != nil || res.Overrun {
			t.Fatalf("deadlock=%v panic=%v overrun=%v\n%s", res.Deadlock, res.Panic, res.Overrun, desc)
		}
		// limit in force during [a,b]: the last resize completed before a (or M0), plus every resize overlapping [a,b]
		limitDuring := func(a, b int) int32 {
			cur := m0
			lastEnd := -1
			for _, r := range rs {
				if r.end != 0 && r.end <= a && r.end > lastEnd {
					cur, lastEnd = r.m, r.end
				}
			}
			max := cur
			for _, r := range rs {
				overlaps := r.start <= b && (r.end == 0 || r.end >= a)
				if overlaps && r.m > max {
					max = r.m
				}
				// a resize in progress at a may not have taken effect: the previous value may still be in force
			}
			return max
		}
		reached := false
		for _, sp := range spans {
			if !sp.ok {
				reached = true
				continue
			}
			definitely := 0
			for _, o := range spans {
				if o == sp || !o.ok {
					continue
				}
				if o.end <= sp.start && (o.relStart == 0 || o.relStart >= sp.end) {
					definitely++
				}
			}
			if lim := limitDuring(sp.start, sp.end); int32(definitely) >= lim {
				t.Fatalf("a request was admitted (steps %d-%d, worker %d) while %d requests admitted earlier were still unfinished during the whole call; largest limit in force: %d\n%s", sp.start, sp.end, sp.worker, definitely, lim, desc)
			}
		}
		// quiescence: everything was released; exactly M' are admitted again
		final := m0
		if len(resizes) > 0 {
			final = resizes[len(resizes)-1]
		}
		var hs []flowcontrol.FlowControl
		n := int32(0)
		for n <= final+1 {
			fc := ul.GetOrDefault("s")
			if !fc.TryAcquire() {
				break
			}
			hs = append(hs, fc)
			n++
		}
		for _, h := range hs {
			h.Release()
		}
		if n != final {
			t.Fatalf("after all requests finished %d new requests are admitted, the limit is %d (slot leaked or released twice)\n%s", n, final, desc)
		}
		switches := vsched.Switches(s.Trace)
		if switches >= 1 && (reached || len(resizes) > 0) {
			sub.NonTrivial(stats.HashString(desc))
			sub.Class("interleaved")
			if sub.WantSample() {
				sub.Sample(desc)
			}
		}
	})
}

func genPreemptions(t *rapid.T, early, max int) []vsched.Preempt {
	n := rapid.IntRange(0, 5).Draw(t, "npreemptions")
	var ps []vsched.Preempt
	for i := 0; i < n; i++ {
		hi := max
		if rapid.Bool().Draw(t, fmt.Sprintf("preempt[%d].early", i)) {
			hi = early
		}
		ps = append(ps, vsched.Preempt{At: rapid.IntRange(0, hi).Draw(t, fmt.Sprintf("preempt[%d].at", i)), Pick: rapid.IntRange(0, 2).Draw(t, fmt.Sprintf("preempt[%d].pick", i))})
	}
	return ps
}

// TestPropAcquireVsSchemaChangeSchedules: requests racing with the addition, removal and type change of their schema.
func TestPropAcquireVsSchemaChangeSchedules(t *testing.T) {
	sub := stats.NewSub("acquire-vs-schema-change-schedules", "rapid + deterministic scheduler (as above, plus schedule points in pkg/flowcontrols/limiter.go): 2-3 worker threads with scripts of acquire / release through GetOrDefault(name).TryAcquire()/Release() and one configuration thread that removes the max-in-flight schema, adds it again, or changes it to a token bucket and back (always with the same limit M), 1-3 steps, ending with the schema present; the interleaving is given by 0-5 rapid-drawn pre-emption points; oracle: no panic and no deadlock whatever the interleaving (a request that finds the schema half configured must be decided, not crash); for every successful TryAcquire on a max-in-flight incarnation, the requests admitted earlier on the SAME incarnation and unfinished during the whole call number fewer than M; at quiescence exactly M new acquisitions succeed; non-trivial = a worker is pre-empted and the configuration thread ran concurrently; distinct by FNV-64 of (scripts, steps, schedule)")
	stats.Check(t, stats.N(4000, 40000), func(t *rapid.T) {
		m0 := int32(rapid.IntRange(1, 3).Draw(t, "M"))
		nWorkers := rapid.IntRange(2, 3).Draw(t, "workers")
		scripts := make([][]bool, nWorkers)
		for i := range scripts {
			n := rapid.IntRange(1, 4).Draw(t, fmt.Sprintf("worker[%d].ops", i))
			for j := 0; j < n; j++ {
				scripts[i] = append(scripts[i], rapid.IntRange(0, 2).Draw(t, fmt.Sprintf("worker[%d].op[%d]", i, j)) != 0)
			}
		}
		present := rapid.Bool().Draw(t, "presentAtStart")
		var steps []string
		cur := present
		for i, k := 0, rapid.IntRange(1, 3).Draw(t, "nsteps"); i < k; i++ {
			var st string
			if cur {
				st = rapid.SampledFrom([]string{"remove", "to-token-bucket-and-back"}).Draw(t, fmt.Sprintf("step[%d]", i))
			} else {
				st = "add"
			}
			if st == "remove" {
				cur = false
			} else {
				cur = true
			}
			steps = append(steps, st)
		}
		if !cur {
			steps = append(steps, "add")
		}
		mif := proxyv1alpha1.FlowControl{Schemas: []proxyv1alpha1.FlowControlSchema{cfg{Kind: "mif", M: m0}.schema("s"), cfg{Kind: "mif", M: 1}.schema("other")}}
		none := proxyv1alpha1.FlowControl{Schemas: []proxyv1alpha1.FlowControlSchema{cfg{Kind: "mif", M: 1}.schema("other")}}
		tb := proxyv1alpha1.FlowControl{Schemas: []proxyv1alpha1.FlowControlSchema{cfg{Kind: "tb", M: 1000, Burst: 1000}.schema("s"), cfg{Kind: "mif", M: 1}.schema("other")}}
		ctx, cancel := context.WithCancel(context.Background())
		defer cancel()
		ul := flowcontrols.NewUpstreamLimiter(ctx, "c1", "", nil)
		defer ul.Sync(proxyv1alpha1.FlowControl{})
		if present {
			ul.Sync(mif)
		} else {
			ul.Sync(none)
		}
		s := vsched.New()
		type aspan struct {
			span
			fc flowcontrol.FlowControl
		}
		var spans []*aspan
		now := func() int { return len(s.Trace) }
		var bodies []func()
		for i := range scripts {
			i := i
			bodies = append(bodies, func() {
				var held []*aspan
				for _, acq := range scripts[i] {
					if acq {
						fc := ul.GetOrDefault("s")
						sp := &aspan{span: span{start: now(), worker: i}, fc: fc}
						sp.ok = fc.TryAcquire()
						sp.end = now()
						spans = append(spans, sp)
						if sp.ok {
							held = append(held, sp)
						}
					} else if len(held) > 0 {
						held[0].relStart = now()
						held[0].fc.Release()
						held = held[1:]
					}
				}
				for k := range held {
					held[k].relStart = now()
					held[k].fc.Release()
				}
			})
		}
		configStart, configEnd := 0, 0
		bodies = append(bodies, func() {
			configStart = now()
			for _, st := range steps {
				switch st {
				case "remove":
					ul.Sync(none)
				case "add":
					ul.Sync(mif)
				default:
					ul.Sync(tb)
					ul.Sync(mif)
				}
			}
			configEnd = now()
		})
		flowcontrol.VerifPoint, remote.VerifPoint, golibmif.VerifPoint, flowcontrols.VerifPoint = s.Point, s.Point, s.Point, s.Point
		flowcontrol.VerifLockHook, remote.VerifLockHook, golibmif.VerifLockHook, flowcontrols.VerifLockHook = s.LockHook, s.LockHook, s.LockHook, s.LockHook
		reset := func() {
			nop := func(int) {}
			flowcontrol.VerifPoint, remote.VerifPoint, golibmif.VerifPoint, flowcontrols.VerifPoint = nop, nop, nop, nop
			flowcontrol.VerifLockHook, remote.VerifLockHook, golibmif.VerifLockHook, flowcontrols.VerifLockHook = nil, nil, nil, nil
		}
		defer reset()
		res := s.Run(bodies, vsched.PreemptionChooser(genPreemptions(t, 40, 400)))
		reset()
		sub.Eval()
		desc := fmt.Sprintf("M=%d present at start=%v scripts(acquire=true)=%v configuration steps=%v schedule(thread per step)=%v", m0, present, scripts, steps, s.Trace)
		if res.Deadlock || res.Panic != nil || res.Overrun {
			t.Fatalf("deadlock=%v panic=%v overrun=%v while requests race with a schema change\n%s", res.Deadlock, res.Panic, res.Overrun, desc)
		}
		for _, sp := range spans {
			if !sp.ok || sp.fc.Type() != proxyv1alpha1.MaxRequestsInflight {
				continue
			}
			definitely := 0
			for _, o := range spans {
				if o == sp || !o.ok || o.fc != sp.fc {
					continue
				}
				if o.end <= sp.start && (o.relStart == 0 || o.relStart >= sp.end) {
					definitely++
				}
			}
			if int32(definitely) >= m0 {
				t.Fatalf("a request was admitted (steps %d-%d, worker %d) while %d requests admitted earlier under the same incarnation of the schema were still unfinished during the whole call; limit %d\n%s", sp.start, sp.end, sp.worker, definitely, m0, desc)
			}
		}
		var hs []flowcontrol.FlowControl
		n := int32(0)
		for n <= m0+1 {
			fc := ul.GetOrDefault("s")
			if !fc.TryAcquire() {
				break
			}
			hs = append(hs, fc)
			n++
		}
		for _, h := range hs {
			h.Release()
		}
		if n != m0 {
			t.Fatalf("after all requests finished %d new requests are admitted, the limit is %d\n%s", n, m0, desc)
		}
		concurrent := false
		for _, sp := range spans {
			if sp.start <= configEnd && sp.end >= configStart {
				concurrent = true
			}
		}
		if vsched.Switches(s.Trace) >= 1 && concurrent {
			sub.NonTrivial(stats.HashString(desc))
			sub.Class("request-concurrent-with-a-schema-change")
			if sub.WantSample() {
				sub.Sample(desc)
			}
		}
	})
}
