//go:build verif

package c05

import (
	"context"
	"fmt"
	"net/http"
	"sync"
	"sync/atomic"
	"testing"
	"time"

	"pgregory.net/rapid"

	proxyv1alpha1 "github.com/kubewharf/kubegateway/pkg/apis/proxy/v1alpha1"
	"verifharness/internal/gwbox"
	"verifharness/internal/stats"
)

var (
	httpPool = gwbox.NewPool(3) // 0: stable endpoint of lim1, 1: lim2, 2: the endpoint of lim1 that histories remove
	httpSeq  int64
)

func limitedCluster(name string, m int32, ups ...*gwbox.Upstream) *proxyv1alpha1.UpstreamCluster {
	c := gwbox.ClusterObject(name, "gateway-secret-token", ups...)
	c.Spec.FlowControl.Schemas = []proxyv1alpha1.FlowControlSchema{
		{Name: "lim", FlowControlSchemaConfiguration: proxyv1alpha1.FlowControlSchemaConfiguration{MaxRequestsInflight: &proxyv1alpha1.MaxRequestsInflightFlowControlSchema{Max: m}}},
		{Name: "other", FlowControlSchemaConfiguration: proxyv1alpha1.FlowControlSchemaConfiguration{MaxRequestsInflight: &proxyv1alpha1.MaxRequestsInflightFlowControlSchema{Max: 1}}},
	}
	pods := proxyv1alpha1.DispatchPolicy{Strategy: proxyv1alpha1.RoundRobin, FlowControlSchemaName: "lim", Rules: []proxyv1alpha1.DispatchPolicyRule{{Verbs: []string{"*"}, APIGroups: []string{"*"}, Resources: []string{"pods"}}}}
	rest := c.Spec.DispatchPolicies[0]
	rest.FlowControlSchemaName = "other"
	c.Spec.DispatchPolicies = []proxyv1alpha1.DispatchPolicy{pods, rest}
	return c
}

type held struct {
	id   string
	hold chan struct{}
	done chan int
}

func holdOpen(g *gwbox.Gateway, host, path string) *held {
	h := &held{id: fmt.Sprintf("c05h-%d", atomic.AddInt64(&httpSeq, 1)), hold: make(chan struct{}), done: make(chan int, 1)}
	httpPool.SetReply(h.id, &gwbox.Reply{Status: 200, Hold: h.hold, Body: []byte("ok")})
	go func() {
		ctx, cancel := context.WithTimeout(context.Background(), 30*time.Second)
		defer cancel()
		r := g.Do(ctx, gwbox.RawRequest{Method: "GET", Target: path, Host: host, Headers: [][2]string{{gwbox.IDHeader, h.id}, {"Authorization", "Bearer client-token"}}})
		h.done <- r.Status
	}()
	return h
}

// probe counts how many requests are admitted concurrently under (host, path): it holds admitted requests open at the
// stub until a request is answered 429 (or cap is reached), then releases them.
func probe(g *gwbox.Gateway, host, path string, cap int) (admitted int, err string) {
	var hs []*held
	defer func() {
		for _, h := range hs {
			close(h.hold)
		}
		for _, h := range hs {
			select {
			case <-h.done:
			case <-time.After(10 * time.Second):
			}
			httpPool.Forget(h.id)
		}
	}()
	for i := 0; i < cap; i++ {
		h := holdOpen(g, host, path)
		hs = append(hs, h)
		select {
		case <-httpPool.Started(h.id):
			admitted++
		case st := <-h.done:
			h.done <- st
			if st == http.StatusTooManyRequests {
				return admitted, ""
			}
			return admitted, fmt.Sprintf("probe request answered %d", st)
		case <-time.After(10 * time.Second):
			return admitted, "probe request neither reached the stub nor was answered"
		}
	}
	return admitted, ""
}

// TestPropSlotsReturnedOnEveryExitPath: the ledger at HTTP level.
func TestPropSlotsReturnedOnEveryExitPath(t *testing.T) {
	sub := stats.NewSub("http-exit-paths", "rapid: a max-in-flight(M in 1..3) schema on the 'pods' policy of a two-endpoint cluster behind the real chain + dispatcher; K in 0..M-1 requests are held open at the stable endpoint for the whole history (so that a slot returned twice is visible, the counter cannot go below zero); 1-8 further requests run to completion, each ending in a generated way (200; upstream 5xx; upstream resets the connection mid-body; no ready endpoint = 503 after the slot was taken; client aborts while the request waits in the authenticator, so that it is dispatched with a cancelled context; client aborts while the upstream holds the response; client aborts mid-stream; panic injected into the response writer; a panic before the proxy handler runs (watch on a resource name that is not valid UTF-8, which the watcher gauge refuses); the endpoint serving the request is removed from the cluster spec while it is in flight), up to M-K of them concurrently; oracle: afterwards exactly M-K more requests are admitted concurrently (held open at the stub) and the next one is answered 429, and after the K held requests finished exactly M; the 'other' schema of the cluster and a second cluster still admit their own limit; non-trivial = at least one abnormal ending; distinct by FNV-64 of the plan")
	endings := []string{"client-abort-authenticating", "ok", "upstream-5xx", "upstream-reset", "no-ready-endpoint", "client-abort-waiting", "client-abort-streaming", "writer-panic", "endpoint-removed", "endpoint-removed", "panic-before-proxying"}
	stats.Check(t, stats.N(80, 600), func(t *rapid.T) {
		m := int32(rapid.IntRange(1, 3).Draw(t, "M"))
		n := rapid.IntRange(1, 8).Draw(t, "requests")
		plan := make([]string, n)
		abnormal := false
		for i := range plan {
			plan[i] = rapid.SampledFrom(endings).Draw(t, fmt.Sprintf("ending[%d]", i))
			if plan[i] != "ok" {
				abnormal = true
			}
		}
		k := rapid.IntRange(0, int(m)-1).Draw(t, "heldForTheWholeHistory")
		conc := rapid.IntRange(1, int(m)-k).Draw(t, "concurrency")
		g := gwbox.NewGateway()
		defer g.Close()
		g.SetToken("client-token", gwbox.Identity{Name: "alice"})
		for _, u := range httpPool.Upstreams {
			u.SetHealth(200)
		}
		stable, victim := httpPool.Upstreams[0], httpPool.Upstreams[2]
		if _, err := g.Box.Apply(limitedCluster("lim1", m, stable)); err != nil {
			t.Fatalf("harness: %v", err)
		}
		if _, err := g.Box.Apply(limitedCluster("lim2", 2, httpPool.Upstreams[1])); err != nil {
			t.Fatalf("harness: %v", err)
		}
		ready := func(string) bool { return true }
		if !g.WaitReady("lim1", ready, 10*time.Second) || !g.WaitReady("lim2", ready, 10*time.Second) {
			sub.Inconclusive()
			t.Skip("upstreams not ready")
		}
		sub.Eval()
		desc := fmt.Sprintf("M=%d held=%d concurrency=%d endings=%v", m, k, conc, plan)
		// K requests stay in flight (at the stable endpoint) until the end
		var holders []*held
		releaseHolders := func() {
			for _, h := range holders {
				close(h.hold)
			}
			for _, h := range holders {
				select {
				case <-h.done:
				case <-time.After(10 * time.Second):
				}
				httpPool.Forget(h.id)
			}
			holders = nil
		}
		defer releaseHolders()
		for i := 0; i < k; i++ {
			h := holdOpen(g, "lim1", "/api/v1/namespaces/default/pods")
			holders = append(holders, h)
			select {
			case <-httpPool.Started(h.id):
			case st := <-h.done:
				h.done <- st
				t.Fatalf("request %d of %d <= M was answered %d instead of being admitted\n%s", i+1, k, st, desc)
			case <-time.After(10 * time.Second):
				t.Fatalf("harness: held request did not reach the stub\n%s", desc)
			}
		}
		if _, err := g.Box.Apply(limitedCluster("lim1", m, stable, victim)); err != nil {
			t.Fatalf("harness: %v", err)
		}
		if !g.WaitReady("lim1", ready, 10*time.Second) {
			sub.Inconclusive()
			t.Skip("second endpoint not ready")
		}
		sem := make(chan struct{}, conc)
		var wg sync.WaitGroup
		var mu sync.Mutex
		var problems []string
		for i, ending := range plan {
			sem <- struct{}{}
			wg.Add(1)
			go func(i int, ending string) {
				defer wg.Done()
				defer func() { <-sem }()
				id := fmt.Sprintf("c05e-%d", atomic.AddInt64(&httpSeq, 1))
				defer httpPool.Forget(id)
				hdr := [][2]string{{gwbox.IDHeader, id}, {"Authorization", "Bearer client-token"}}
				req := gwbox.RawRequest{Method: "GET", Target: "/api/v1/namespaces/default/pods", Host: "lim1", Headers: hdr}
				ctx, cancel := context.WithTimeout(context.Background(), 20*time.Second)
				defer cancel()
				switch ending {
				case "ok":
					httpPool.SetReply(id, &gwbox.Reply{Status: 200, Body: []byte("fine")})
					g.Do(ctx, req)
				case "upstream-5xx":
					httpPool.SetReply(id, &gwbox.Reply{Status: 503, Body: []byte("upstream down")})
					g.Do(ctx, req)
				case "upstream-reset":
					httpPool.SetReply(id, &gwbox.Reply{Status: 200, Body: make([]byte, 4000), Reset: true})
					g.Do(ctx, req)
				case "no-ready-endpoint":
					// the slot is taken before the endpoint is picked; make the only endpoint unhealthy for this request
					mu.Lock()
					stable.SetHealth(500)
					victim.SetHealth(500)
					g.WaitReady("lim1", func(string) bool { return false }, 10*time.Second)
					r := g.Do(ctx, req)
					stable.SetHealth(200)
					victim.SetHealth(200)
					g.WaitReady("lim1", ready, 10*time.Second)
					mu.Unlock()
					if r.Status != 503 && r.Status != 429 {
						mu.Lock()
						problems = append(problems, fmt.Sprintf("request without ready endpoint answered %d", r.Status))
						mu.Unlock()
					}
				case "client-abort-authenticating":
					// the client goes away while the request waits in the authenticator (a slow token review): the
					// request reaches the dispatcher with a context that is already cancelled
					httpPool.SetReply(id, &gwbox.Reply{Status: 200, Body: []byte("fine")})
					parked, release := g.ParkInAuthn(id)
					actx, abort := context.WithCancel(ctx)
					done := make(chan struct{})
					go func() { g.Do(actx, req); close(done) }()
					select {
					case <-parked:
						time.Sleep(5 * time.Millisecond)
					case <-done:
					case <-time.After(10 * time.Second):
					}
					abort()
					<-done
					time.Sleep(30 * time.Millisecond) // the server notices the closed connection and cancels the request
					release()
				case "client-abort-waiting", "client-abort-streaming":
					hold := make(chan struct{})
					httpPool.SetReply(id, &gwbox.Reply{Status: 200, Hold: hold, Stream: ending == "client-abort-streaming", Every: 5 * time.Millisecond, Body: []byte("late")})
					actx, abort := context.WithCancel(ctx)
					done := make(chan struct{})
					go func() { g.Do(actx, req); close(done) }()
					select {
					case <-httpPool.Started(id):
						time.Sleep(15 * time.Millisecond)
					case <-done:
					case <-time.After(10 * time.Second):
					}
					abort() // the client goes away
					<-done
					// the gateway must notice and finish the proxied request
					deadline := time.Now().Add(5 * time.Second)
					for time.Now().Before(deadline) {
						seen := httpPool.Find(id)
						if len(seen) == 0 || !seen[0].CtxDoneAt.IsZero() || !seen[0].FinishedAt.IsZero() {
							break
						}
						time.Sleep(2 * time.Millisecond)
					}
					close(hold)
				case "endpoint-removed":
					// the upstream holds the response; if the request was routed to the second endpoint, that endpoint is
					// removed from the cluster spec (its in-flight requests are cancelled) and added again
					hold := make(chan struct{})
					httpPool.SetReply(id, &gwbox.Reply{Status: 200, Hold: hold, Body: []byte("late")})
					done := make(chan struct{})
					go func() { g.Do(ctx, req); close(done) }()
					select {
					case <-httpPool.Started(id):
						if seen := httpPool.Find(id); len(seen) == 1 && seen[0].Upstream == victim.Index {
							mu.Lock()
							_, err1 := g.Box.Apply(limitedCluster("lim1", m, stable))
							select {
							case <-done: // answered (502) because the endpoint went away
							case <-time.After(10 * time.Second):
							}
							_, err2 := g.Box.Apply(limitedCluster("lim1", m, stable, victim))
							g.WaitReady("lim1", ready, 10*time.Second)
							if err1 != nil || err2 != nil {
								problems = append(problems, fmt.Sprintf("harness: re-applying the cluster failed: %v %v", err1, err2))
							}
							mu.Unlock()
							sub.Class("endpoint-removed-under-a-request-in-flight")
						}
					case <-done:
					case <-time.After(10 * time.Second):
					}
					close(hold)
					<-done
				case "panic-before-proxying":
					// a watch on a resource whose name is not valid UTF-8: the watcher gauge refuses the label value and
					// panics after the slot (of the catch-all policy's schema) was taken, before the proxy handler runs
					g.Do(ctx, gwbox.RawRequest{Method: "GET", Target: "/api/v1/%ff%fe?watch=true", Host: "lim1", Headers: hdr})
				case "writer-panic":
					httpPool.SetReply(id, &gwbox.Reply{Status: 200, Body: []byte("will not arrive")})
					req.Headers = append(req.Headers, [2]string{"X-Verif-Panic", "1"})
					g.Do(ctx, req)
				}
			}(i, ending)
		}
		wg.Wait()
		if len(problems) > 0 {
			t.Fatalf("%v\n%s", problems, desc)
		}
		// give the gateway a moment to finish handler goroutines of aborted requests
		time.Sleep(30 * time.Millisecond)
		for _, h := range holders {
			select {
			case st := <-h.done:
				h.done <- st
				t.Fatalf("a request held open at the endpoint that was never removed was answered %d during the history\n%s", st, desc)
			default:
			}
		}
		if k > 0 {
			got, perr := probe(g, "lim1", "/api/v1/namespaces/default/pods", int(m)+2)
			if perr != "" {
				t.Fatalf("harness/probe: %s\n%s", perr, desc)
			}
			if got != int(m)-k {
				t.Fatalf("with %d requests still in flight %d more are admitted concurrently under the schema, the limit is %d (slot leaked or returned twice)\n%s", k, got, m, desc)
			}
		}
		releaseHolders()
		time.Sleep(10 * time.Millisecond)
		got, perr := probe(g, "lim1", "/api/v1/namespaces/default/pods", int(m)+2)
		if perr != "" {
			t.Fatalf("harness/probe: %s\n%s", perr, desc)
		}
		if got != int(m) {
			t.Fatalf("after all requests ended %d requests are admitted concurrently under the schema, the limit is %d (slot leaked or returned twice)\n%s", got, m, desc)
		}
		if o, perr := probe(g, "lim1", "/healthz/x", 3); perr != "" || o != 1 {
			t.Fatalf("the other schema of the cluster admits %d concurrently, its limit is 1 (%s)\n%s", o, perr, desc)
		}
		if o, perr := probe(g, "lim2", "/api/v1/namespaces/default/pods", 4); perr != "" || o != 2 {
			t.Fatalf("the other cluster admits %d concurrently, its limit is 2 (%s)\n%s", o, perr, desc)
		}
		if abnormal {
			sub.NonTrivial(stats.HashString(desc))
			if sub.WantSample() {
				sub.Sample(desc)
			}
		}
		for _, e := range plan {
			sub.Class("ending=" + e)
		}
	})
}
