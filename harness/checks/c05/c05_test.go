//go:build verif

// C05 — local max-in-flight: never more than M admitted and unfinished; slots never leak.
package c05

import (
	"context"
	"fmt"
	"testing"

	"pgregory.net/rapid"

	proxyv1alpha1 "github.com/kubewharf/kubegateway/pkg/apis/proxy/v1alpha1"
	"github.com/kubewharf/kubegateway/pkg/flowcontrols"
	"github.com/kubewharf/kubegateway/pkg/flowcontrols/flowcontrol"
	"verifharness/internal/stats"
)

func TestMain(m *testing.M) {
	stats.Property("C05")
	stats.Assume(
		"requests are modelled as the dispatcher uses the limiter: fc := UpstreamLimiter.GetOrDefault(name); fc.TryAcquire(); later fc.Release() on the same object, exactly once",
		"an 'incarnation' of a max-in-flight schema starts when the schema is created or its type becomes max-in-flight; only requests admitted under the current incarnation count against M",
		"admission with room to spare is only demanded at quiescence (all requests finished), as the statement does; mid-history refusals with room are counted, not alarmed",
		"Go runtime, pgregory.net/rapid v1.3.0",
	)
	stats.Main(m)
}

type cfg struct {
	Kind  string // mif, tb, exempt, absent
	M     int32
	Burst int32
	// Strat: "" = local strategy; "count" / "allocate" = the schema is globally limited (it carries global limits of
	// Factor times the local ones and that strategy). These limiters run without a limiter server, where the local
	// limits stay the ones in force, so the strategy must not matter for the bound.
	Strat  string
	Factor int32
}

func (c cfg) String() string {
	switch c.Kind {
	case "mif":
		return fmt.Sprintf("mif(%d)%s", c.M, c.strat())
	case "tb":
		return fmt.Sprintf("tb(%d,%d)%s", c.M, c.Burst, c.strat())
	}
	return c.Kind
}

func (c cfg) strat() string {
	if c.Strat == "" {
		return ""
	}
	return fmt.Sprintf("/%s*%d", c.Strat, c.Factor)
}

func (c cfg) schema(name string) proxyv1alpha1.FlowControlSchema {
	s := proxyv1alpha1.FlowControlSchema{Name: name}
	switch c.Kind {
	case "mif":
		s.MaxRequestsInflight = &proxyv1alpha1.MaxRequestsInflightFlowControlSchema{Max: c.M}
	case "tb":
		s.TokenBucket = &proxyv1alpha1.TokenBucketFlowControlSchema{QPS: c.M, Burst: c.Burst}
	case "exempt":
		s.Exempt = &proxyv1alpha1.ExemptFlowControlSchema{}
	}
	if c.Strat != "" {
		s.Strategy = proxyv1alpha1.GlobalCountLimit
		if c.Strat == "allocate" {
			s.Strategy = proxyv1alpha1.GlobalAllocateLimit
		}
		switch c.Kind {
		case "mif":
			g := c.M
			if g < 1 {
				g = 1
			}
			s.GlobalMaxRequestsInflight = &proxyv1alpha1.MaxRequestsInflightFlowControlSchema{Max: g * c.Factor}
		case "tb":
			s.GlobalTokenBucket = &proxyv1alpha1.TokenBucketFlowControlSchema{QPS: c.M * c.Factor, Burst: c.Burst * c.Factor}
		}
	}
	return s
}

func genStrat(t *rapid.T, label string, c cfg) cfg {
	if c.Kind != "mif" && c.Kind != "tb" {
		return c
	}
	c.Strat = rapid.SampledFrom([]string{"", "", "", "count", "allocate"}).Draw(t, label+".strategy")
	c.Factor = 0
	if c.Strat != "" {
		c.Factor = int32(rapid.IntRange(1, 3).Draw(t, label+".globalFactor"))
	}
	return c
}

func genCfg(t *rapid.T, label string) cfg {
	switch rapid.IntRange(0, 9).Draw(t, label+".kind") {
	case 0:
		return cfg{Kind: "absent"}
	case 1:
		return cfg{Kind: "exempt"}
	case 2, 3:
		q := int32(rapid.IntRange(1000, 100000).Draw(t, label+".qps"))
		return genStrat(t, label, cfg{Kind: "tb", M: q, Burst: q})
	default:
		return genStrat(t, label, cfg{Kind: "mif", M: int32(rapid.IntRange(0, 4).Draw(t, label+".M"))}) // 0 is a valid limit: it closes the schema
	}
}

type handle struct {
	fc      flowcontrol.FlowControl
	key     string
	incarn  int
	counted bool // admitted under a max-in-flight incarnation
}

type schemaModel struct {
	cur    cfg
	incarn int
}

type world struct {
	limiters map[string]flowcontrols.UpstreamLimiter
	cancel   map[string]context.CancelFunc
	model    map[string]*schemaModel // key cluster/schema
	handles  []*handle
}

var clusters = []string{"c1", "c2"}
var schemas = []string{"s1", "s2"}

func (w *world) sync(cluster string) {
	var fc proxyv1alpha1.FlowControl
	for _, s := range schemas {
		m := w.model[cluster+"/"+s]
		if m.cur.Kind != "absent" {
			fc.Schemas = append(fc.Schemas, m.cur.schema(s))
		}
	}
	w.limiters[cluster].Sync(fc)
}

func (w *world) outstanding(key string, incarn int) int32 {
	var n int32
	for _, h := range w.handles {
		if h.key == key && h.counted && h.incarn == incarn {
			n++
		}
	}
	return n
}

func (w *world) close() {
	for _, c := range clusters {
		w.limiters[c].Sync(proxyv1alpha1.FlowControl{}) // stops the meters of every schema
		w.cancel[c]()
	}
}

// TestPropReconfigurationHistories: acquire / release / reconfigure histories against the ledger.
func TestPropReconfigurationHistories(t *testing.T) {
	sub := stats.NewSub("reconfiguration-histories", "rapid state machine on two real UpstreamLimiters x two schemas: ops acquire (GetOrDefault+TryAcquire), release (of any outstanding request, exactly once), reconfigure one schema (max-in-flight M in 0..4, token bucket, exempt, delete, re-add; two schemas in five are globally limited - strategy count or allocate with global limits of 1-3 times the local ones - which changes nothing without a limiter server; one reconfiguration in four edits only that strategy), drain (release everything, then probe); oracle: an admission under a max-in-flight schema happens only while fewer than M requests of the current incarnation are unfinished; after a drain exactly M probes are admitted and the (M+1)-th is refused; other schemas / the other cluster never influence the answer; non-trivial = a reconfiguration happens while requests are in flight and a later acquire is decided; distinct by FNV-64 of the op trace")
	stats.Check(t, stats.N(15000, 100000), func(t *rapid.T) {
		w := &world{limiters: map[string]flowcontrols.UpstreamLimiter{}, cancel: map[string]context.CancelFunc{}, model: map[string]*schemaModel{}}
		for _, c := range clusters {
			ctx, cancel := context.WithCancel(context.Background())
			w.cancel[c] = cancel
			w.limiters[c] = flowcontrols.NewUpstreamLimiter(ctx, c, "", nil)
			for _, s := range schemas {
				m := &schemaModel{cur: genCfg(t, "init."+c+"/"+s)}
				if m.cur.Kind == "mif" {
					m.incarn = 1
				}
				w.model[c+"/"+s] = m
			}
			w.sync(c)
		}
		defer w.close()
		trace := ""
		for _, c := range clusters {
			for _, s := range schemas {
				trace += fmt.Sprintf("%s/%s=%s;", c, s, w.model[c+"/"+s].cur)
			}
		}
		reconfInFlight := false
		nt := false
		sub.Eval()
		pickKey := func(t *rapid.T) (string, string, string) {
			c := rapid.SampledFrom(clusters).Draw(t, "cluster")
			s := rapid.SampledFrom(schemas).Draw(t, "schema")
			return c, s, c + "/" + s
		}
		acquire := func(t *rapid.T, c, s, key string, probe bool) bool {
			m := w.model[key]
			fc := w.limiters[c].GetOrDefault(s)
			before := w.outstanding(key, m.incarn)
			ok := fc.TryAcquire()
			trace += fmt.Sprintf("acq(%s)=%v;", key, ok)
			if m.cur.Kind == "mif" {
				if ok && before >= m.cur.M {
					t.Fatalf("request admitted under %s (limit %d) while %d requests admitted under it are still unfinished\ntrace: %s", key, m.cur.M, before, trace)
				}
				if !ok && before < m.cur.M {
					sub.Class("refused-with-room")
					if probe {
						t.Fatalf("all requests have finished but only %d of %d new requests are admitted under %s (a slot leaked)\ntrace: %s", before, m.cur.M, key, trace)
					}
				}
				if reconfInFlight {
					nt = true
				}
			} else if !ok && m.cur.Kind != "tb" {
				t.Fatalf("request refused under %s which is %s\ntrace: %s", key, m.cur, trace)
			}
			if ok {
				w.handles = append(w.handles, &handle{fc: fc, key: key, incarn: m.incarn, counted: m.cur.Kind == "mif"})
			}
			return ok
		}
		t.Repeat(map[string]func(*rapid.T){
			"acquire": func(t *rapid.T) {
				c, s, key := pickKey(t)
				acquire(t, c, s, key, false)
			},
			"acquire2": func(t *rapid.T) {
				c, s, key := pickKey(t)
				acquire(t, c, s, key, false)
			},
			"release": func(t *rapid.T) {
				if len(w.handles) == 0 {
					t.Skip("nothing in flight")
				}
				i := rapid.IntRange(0, len(w.handles)-1).Draw(t, "which")
				h := w.handles[i]
				h.fc.Release()
				w.handles = append(w.handles[:i], w.handles[i+1:]...)
				trace += fmt.Sprintf("rel(%s#%d);", h.key, h.incarn)
			},
			"reconfigure": func(t *rapid.T) {
				c, _, key := pickKey(t)
				m := w.model[key]
				var n cfg
				if (m.cur.Kind == "mif" || m.cur.Kind == "tb") && rapid.IntRange(0, 3).Draw(t, "onlyStrategy") == 0 {
					// an edit of the limit strategy alone: same type, same limit, the limiter in force stays
					n = genStrat(t, "new", m.cur)
					if n != m.cur {
						sub.Class("strategy-edit")
					}
				} else {
					n = genCfg(t, "new")
				}
				if n.Kind == "mif" && m.cur.Kind != "mif" {
					m.incarn++
				}
				if len(w.handles) > 0 {
					reconfInFlight = true
				}
				trace += fmt.Sprintf("conf(%s:%s->%s);", key, m.cur, n)
				if m.cur.Kind != n.Kind {
					sub.Class("type-change:" + m.cur.Kind + "->" + n.Kind)
				} else if m.cur.Kind == "mif" && m.cur.M != n.M {
					sub.Class("resize")
				}
				m.cur = n
				w.sync(c)
			},
			"drain": func(t *rapid.T) {
				for _, h := range w.handles {
					h.fc.Release()
				}
				w.handles = nil
				trace += "drain;"
				for _, c := range clusters {
					for _, s := range schemas {
						key := c + "/" + s
						m := w.model[key]
						if m.cur.Kind != "mif" {
							continue
						}
						for i := int32(0); i < m.cur.M; i++ {
							if !acquire(t, c, s, key, true) {
								t.Fatalf("unreachable")
							}
						}
						if acquire(t, c, s, key, true) {
							t.Fatalf("unreachable")
						}
					}
				}
				for _, h := range w.handles {
					h.fc.Release()
				}
				w.handles = nil
				sub.Class("drain-and-probe")
			},
		})
		if nt {
			sub.NonTrivial(stats.HashString(trace))
			if sub.WantSample() {
				sub.Sample(trace)
			}
		}
	})
}

// TestReplayStaleReleaseAfterTypeChange: the history found on the pinned tree during design.
func TestReplayStaleReleaseAfterTypeChange(t *testing.T) {
	ctx, cancel := context.WithCancel(context.Background())
	defer cancel()
	ul := flowcontrols.NewUpstreamLimiter(ctx, "c1", "", nil)
	defer ul.Sync(proxyv1alpha1.FlowControl{})
	ul.Sync(proxyv1alpha1.FlowControl{Schemas: []proxyv1alpha1.FlowControlSchema{cfg{Kind: "tb", M: 1000, Burst: 1000}.schema("s")}})
	a := ul.GetOrDefault("s")
	if !a.TryAcquire() {
		t.Fatal("harness: token bucket refused")
	}
	ul.Sync(proxyv1alpha1.FlowControl{Schemas: []proxyv1alpha1.FlowControlSchema{cfg{Kind: "mif", M: 1}.schema("s")}})
	b := ul.GetOrDefault("s")
	if !b.TryAcquire() {
		t.Fatal("first request under max-in-flight(1) refused")
	}
	a.Release() // the request admitted under the token bucket finishes
	c := ul.GetOrDefault("s")
	if c.TryAcquire() {
		t.Errorf("a second request was admitted under max-in-flight(1) while the first is unfinished (stale release of a request admitted before the type change freed its slot)")
	}
}

// TestReplayRequestRacingWithSchemaAdd: regression for the fixed finding C05-request-racing-with-schema-add-panics,
// without the scheduler: requests hammer GetOrDefault(name).TryAcquire() while the schema is added.
func TestReplayRequestRacingWithSchemaAdd(t *testing.T) {
	for round := 0; round < 300; round++ {
		ctx, cancel := context.WithCancel(context.Background())
		ul := flowcontrols.NewUpstreamLimiter(ctx, "c1", "", nil)
		ul.Sync(proxyv1alpha1.FlowControl{Schemas: []proxyv1alpha1.FlowControlSchema{cfg{Kind: "mif", M: 1}.schema("other")}})
		done := make(chan struct{})
		panicked := make(chan interface{}, 1)
		go func() {
			defer func() {
				if r := recover(); r != nil {
					panicked <- r
				} else {
					panicked <- nil
				}
			}()
			for {
				select {
				case <-done:
					return
				default:
				}
				fc := ul.GetOrDefault("s")
				if fc.TryAcquire() {
					fc.Release()
				}
			}
		}()
		ul.Sync(proxyv1alpha1.FlowControl{Schemas: []proxyv1alpha1.FlowControlSchema{cfg{Kind: "mif", M: 2}.schema("s"), cfg{Kind: "mif", M: 1}.schema("other")}})
		close(done)
		r := <-panicked
		ul.Sync(proxyv1alpha1.FlowControl{})
		cancel()
		if r != nil {
			t.Fatalf("round %d: a request racing with the addition of its schema panicked: %v", round, r)
		}
	}
}
