//go:build verif

package c05

import (
	"fmt"
	"net/http"
	"net/http/httptest"
	"sync/atomic"
	"testing"
	"time"

	"pgregory.net/rapid"

	proxyv1alpha1 "github.com/kubewharf/kubegateway/pkg/apis/proxy/v1alpha1"
	gwclusters "github.com/kubewharf/kubegateway/pkg/clusters"
	"github.com/kubewharf/kubegateway/pkg/gateway/proxy/dispatcher"
	"verifharness/internal/gwbox"
	"verifharness/internal/stats"
)

// TestPropDispatcherAcrossReconfigurations: requests that are in flight in the real dispatcher while the schema they were
// admitted under is resized, changed to another type and back. The limiter-level histories hand a request the very
// limiter object it acquired; here the dispatcher decides where a finishing request gives its slot back.
func TestPropDispatcherAcrossReconfigurations(t *testing.T) {
	sub := stats.NewSub("dispatcher-requests-across-reconfigurations", "rapid state machine on the real dispatcher in front of a real ClusterInfo and a stub upstream that holds every forwarded request open: ops start (a request is sent; it reaches the stub = admitted, or is answered 429), finish (one held request is let go and awaited), resize (the max-in-flight schema gets a new limit M' in 1..3 in place), to-token-bucket / to-max-in-flight (the schema changes type through ClusterInfo.Sync; becoming max-in-flight again starts a new incarnation); oracle: a request is admitted under the max-in-flight schema only while fewer than M of the requests admitted since the schema last became max-in-flight are unfinished (whatever older requests do when they finish), a refused request is answered 429, and after every held request finished exactly M requests are admitted concurrently; non-trivial = a request admitted under an earlier incarnation finishes while requests of the current one are in flight; distinct by FNV-64 of the op trace")
	stats.Check(t, stats.N(80, 600), func(t *rapid.T) {
		m := int32(rapid.IntRange(1, 3).Draw(t, "M"))
		up := httpPool.Upstreams[0]
		up.SetHealth(200)
		name := fmt.Sprintf("disph%d", atomic.AddInt64(&httpSeq, 1))
		spec := func(mif bool, m int32) *proxyv1alpha1.UpstreamCluster {
			c := gwbox.ClusterObject(name, "gateway-secret-token", up)
			cfg := proxyv1alpha1.FlowControlSchemaConfiguration{TokenBucket: &proxyv1alpha1.TokenBucketFlowControlSchema{QPS: 10000, Burst: 10000}}
			if mif {
				cfg = proxyv1alpha1.FlowControlSchemaConfiguration{MaxRequestsInflight: &proxyv1alpha1.MaxRequestsInflightFlowControlSchema{Max: m}}
			}
			c.Spec.FlowControl.Schemas = []proxyv1alpha1.FlowControlSchema{{Name: "lim", FlowControlSchemaConfiguration: cfg}}
			c.Spec.DispatchPolicies[0].FlowControlSchemaName = "lim"
			return c
		}
		ci, err := gwclusters.CreateClusterInfo(spec(true, m), func(e *gwclusters.EndpointInfo) bool { e.UpdateStatus(true, "", ""); return false }, "", nil)
		if err != nil {
			t.Fatalf("harness: %v", err)
		}
		defer ci.Stop()
		deadline := time.Now().Add(5 * time.Second)
		for {
			if e, ok := ci.Endpoints.Load(up.URL); ok && e.IsReady() {
				break
			}
			if time.Now().After(deadline) {
				t.Fatalf("harness: endpoint did not become ready")
			}
			time.Sleep(time.Millisecond)
		}
		mgr := gwclusters.NewManager()
		mgr.Add(ci)
		d := dispatcher.NewDispatcher(mgr, false)
		type held struct {
			id   string
			inc  int // incarnation of the max-in-flight schema it was admitted under (0 = admitted under the token bucket)
			hold chan struct{}
			done chan int
		}
		var hs []*held
		defer func() {
			for _, h := range hs {
				close(h.hold)
			}
			for _, h := range hs {
				select {
				case <-h.done:
				case <-time.After(10 * time.Second):
				}
				httpPool.Forget(h.id)
			}
		}()
		inc, mif := 1, true
		trace := fmt.Sprintf("M=%d;", m)
		nt := false
		sub.Eval()
		unfinished := func() int {
			n := 0
			for _, h := range hs {
				if h.inc == inc {
					n++
				}
			}
			return n
		}
		// start sends one request and reports whether it was admitted (then it is held at the stub)
		start := func(t *rapid.T) bool {
			h := &held{id: fmt.Sprintf("c05dh-%d", atomic.AddInt64(&httpSeq, 1)), hold: make(chan struct{}), done: make(chan int, 1)}
			httpPool.SetReply(h.id, &gwbox.Reply{Status: 200, Hold: h.hold, Body: []byte("ok")})
			req, err := dispRequest(ci, "/api/v1/namespaces/default/pods", h.id)
			if err != nil {
				t.Fatalf("harness: %v", err)
			}
			go func() {
				rec := httptest.NewRecorder()
				func() {
					defer func() {
						if recover() != nil {
							rec.Code = -1
						}
					}()
					d.ServeHTTP(rec, req)
				}()
				h.done <- rec.Code
			}()
			select {
			case <-httpPool.Started(h.id):
				before := unfinished()
				if mif {
					h.inc = inc
				}
				hs = append(hs, h)
				trace += "start=admitted;"
				if mif && before >= int(m) {
					t.Fatalf("a request was admitted while %d requests admitted since the schema last became max-in-flight are unfinished, the limit is %d\ntrace: %s", before, m, trace)
				}
				return true
			case code := <-h.done:
				httpPool.Forget(h.id)
				trace += fmt.Sprintf("start=%d;", code)
				if code != http.StatusTooManyRequests {
					t.Fatalf("a request that was not forwarded was answered %d, expected 429\ntrace: %s", code, trace)
				}
				if !mif {
					t.Fatalf("a request was refused under the token bucket (qps 10000)\ntrace: %s", trace)
				}
				return false
			case <-time.After(10 * time.Second):
				t.Fatalf("harness: request neither reached the stub nor was answered\ntrace: %s", trace)
			}
			return false
		}
		finish := func(t *rapid.T, i int) {
			h := hs[i]
			hs = append(hs[:i], hs[i+1:]...)
			close(h.hold)
			select {
			case code := <-h.done:
				if code != 200 {
					t.Fatalf("held request ended with %d\ntrace: %s", code, trace)
				}
			case <-time.After(10 * time.Second):
				t.Fatalf("harness: held request did not finish\ntrace: %s", trace)
			}
			httpPool.Forget(h.id)
			trace += fmt.Sprintf("finish(inc=%d);", h.inc)
			if h.inc != inc && unfinished() > 0 {
				nt = true
				sub.Class("older-request-finishes-while-the-current-incarnation-has-requests-in-flight")
			}
		}
		sync := func(t *rapid.T) {
			if err := ci.Sync(spec(mif, m)); err != nil {
				t.Fatalf("harness: sync: %v", err)
			}
		}
		t.Repeat(map[string]func(*rapid.T){
			"start": func(t *rapid.T) {
				if len(hs) > 8 {
					t.Skip("enough in flight")
				}
				start(t)
			},
			"finish": func(t *rapid.T) {
				if len(hs) == 0 {
					t.Skip("nothing in flight")
				}
				finish(t, rapid.IntRange(0, len(hs)-1).Draw(t, "which"))
			},
			"resize": func(t *rapid.T) {
				if !mif {
					t.Skip("token bucket")
				}
				m = int32(rapid.IntRange(1, 3).Draw(t, "newM"))
				sync(t)
				trace += fmt.Sprintf("resize(%d);", m)
			},
			"retype": func(t *rapid.T) {
				mif = !mif
				if mif {
					inc++
					m = int32(rapid.IntRange(1, 3).Draw(t, "newM"))
				}
				sync(t)
				trace += fmt.Sprintf("retype(mif=%v,M=%d);", mif, m)
			},
		})
		// quiescence: everything finishes, the schema is (made) max-in-flight, exactly M requests fit
		for len(hs) > 0 {
			finish(t, 0)
		}
		if !mif {
			mif = true
			inc++
			sync(t)
			trace += fmt.Sprintf("retype(mif=true,M=%d);", m)
		}
		admitted := 0
		for i := 0; i < int(m)+2; i++ {
			if !start(t) {
				break
			}
			admitted++
		}
		if admitted != int(m) {
			t.Fatalf("after every request finished %d requests are admitted concurrently, the limit is %d\ntrace: %s", admitted, m, trace)
		}
		if nt {
			sub.NonTrivial(stats.HashString(trace))
			if sub.WantSample() {
				sub.Sample(trace)
			}
		}
	})
}
