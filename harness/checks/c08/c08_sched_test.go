//go:build verif

package c08

import (
	"fmt"
	"testing"

	"pgregory.net/rapid"

	proxyv1alpha1 "github.com/kubewharf/kubegateway/pkg/apis/proxy/v1alpha1"
	sfc "github.com/kubewharf/kubegateway/pkg/ratelimiter/store/flowcontrol"
	"verifharness/internal/stats"
	"verifharness/internal/vsched"
)

type sop struct {
	Inst   string
	ID     int64
	N      int32 // <0: removal
	Resize int32 // >=0 with Inst=="": resize
}

func (o sop) String() string {
	if o.Inst == "" {
		return fmt.Sprintf("resize(%d)", o.Resize)
	}
	if o.N < 0 {
		return fmt.Sprintf("remove(%s)", o.Inst)
	}
	return fmt.Sprintf("set(%s,id=%d,n=%d)", o.Inst, o.ID, o.N)
}

type sres struct {
	accept bool
	latest int32
	err    error
}

// TestPropSetStateSchedules: racing reports / removals / resizes under a harness-owned schedule.
func TestPropSetStateSchedules(t *testing.T) {
	sub := stats.NewSub("setstate-schedules", "rapid + deterministic scheduler (statement-level schedule points and scheduler-aware mutexes inserted into maxinflight.go by AST rewriting at check time): 2-3 logical threads, each a script of 1-3 ops (report n, removal, resize) on one global max-in-flight flow control, over 1-2 instances so that threads collide, after 0-2 reports processed beforehand; one report in two repeats the count last reported for its instance (a resync); the interleaving is given by 0-5 rapid-drawn pre-emption points (shrinks like any input); oracle at quiescence: running total == per-instance total == sum of details, nothing negative, sum <= limit when the limit was never lowered, each instance's final count is 0 (removed / never reported) or the value of one of its applied reports, a sequential probe with the largest id used is refused; deadlock or panic is a violation; non-trivial = at least one thread is pre-empted before its script ends; distinct by FNV-64 of (scripts, schedule)")
	stats.Check(t, stats.N(20000, 80000), func(t *rapid.T) {
		max := int32(rapid.IntRange(1, 8).Draw(t, "max"))
		nThreads := rapid.IntRange(2, 3).Draw(t, "threads")
		insts := []string{"i1", "i2"}
		if rapid.Bool().Draw(t, "oneInstance") {
			insts = []string{"i1"}
		}
		scripts := make([][]sop, nThreads)
		resized := false
		nextID := int64(0)
		// counts already on record when the threads start (reports processed one after the other), and reports that
		// repeat the count on record - what a gateway's periodic resync sends
		lastN := map[string]int32{}
		var prefix []sop
		for i, n := 0, rapid.IntRange(0, 2).Draw(t, "reportsBefore"); i < n; i++ {
			nextID++
			o := sop{Inst: rapid.SampledFrom(insts).Draw(t, fmt.Sprintf("before[%d].inst", i)), ID: nextID, N: int32(rapid.IntRange(0, 4).Draw(t, fmt.Sprintf("before[%d].n", i))), Resize: -1}
			prefix = append(prefix, o)
			lastN[o.Inst] = o.N
		}
		for i := range scripts {
			n := rapid.IntRange(1, 3).Draw(t, fmt.Sprintf("thread[%d].ops", i))
			for j := 0; j < n; j++ {
				l := fmt.Sprintf("thread[%d].op[%d]", i, j)
				switch rapid.IntRange(0, 9).Draw(t, l+".kind") {
				case 0:
					scripts[i] = append(scripts[i], sop{Resize: int32(rapid.IntRange(0, 8).Draw(t, l+".resize"))})
					resized = true
				case 1, 2, 3:
					scripts[i] = append(scripts[i], sop{Inst: rapid.SampledFrom(insts).Draw(t, l+".inst"), N: -1, Resize: -1})
				default:
					nextID++
					id := nextID
					if rapid.IntRange(0, 3).Draw(t, l+".noID") == 0 {
						id = 0
					}
					o := sop{Inst: rapid.SampledFrom(insts).Draw(t, l+".inst"), ID: id, N: int32(rapid.IntRange(0, 6).Draw(t, l+".n")), Resize: -1}
					if last, ok := lastN[o.Inst]; ok && rapid.Bool().Draw(t, l+".repeatsTheCountOnRecord") {
						o.N = last
					}
					lastN[o.Inst] = o.N
					scripts[i] = append(scripts[i], o)
				}
			}
		}
		fc := sfc.NewGlobalFlowControl(proxyv1alpha1.FlowControlSchema{Name: "s", FlowControlSchemaConfiguration: proxyv1alpha1.FlowControlSchemaConfiguration{
			GlobalMaxRequestsInflight: &proxyv1alpha1.MaxRequestsInflightFlowControlSchema{Max: max}}})
		prefixAccepted := map[string]int32{} // count on record per instance when the threads start
		for _, o := range prefix {
			if _, l, e := fc.SetState(o.Inst, o.ID, o.N); e == nil {
				prefixAccepted[o.Inst] = l
			}
		}
		results := make([][]sres, nThreads)
		bodies := make([]func(), nThreads)
		for i := range scripts {
			i := i
			bodies[i] = func() {
				for _, o := range scripts[i] {
					if o.Inst == "" {
						fc.Resize(o.Resize, 0)
						results[i] = append(results[i], sres{})
						continue
					}
					a, l, e := fc.SetState(o.Inst, o.ID, o.N)
					results[i] = append(results[i], sres{a, l, e})
				}
			}
		}
		s := vsched.New()
		sfc.VerifPoint = s.Point
		sfc.VerifLockHook = s.LockHook
		defer func() {
			sfc.VerifPoint = func(int) {}
			sfc.VerifLockHook = nil
		}()
		res := s.Run(bodies, vsched.PreemptionChooser(genPreemptions(t, 25, 150)))
		sfc.VerifPoint = func(int) {}
		sfc.VerifLockHook = nil
		sub.Eval()
		desc := fmt.Sprintf("max=%d reports before=%v scripts=%v schedule(thread per step)=%v", max, prefix, scripts, s.Trace)
		if res.Deadlock {
			t.Fatalf("deadlock\n%s", desc)
		}
		if res.Panic != nil {
			t.Fatalf("panic: %v\n%s", res.Panic, desc)
		}
		if res.Overrun {
			t.Fatalf("harness: schedule did not terminate\n%s", desc)
		}
		switches := vsched.Switches(s.Trace)
		if switches >= 1 {
			sub.NonTrivial(stats.HashString(desc))
			sub.Class("interleaved")
		} else {
			sub.Class("serial")
		}
		d, err := parseDebug(fc.DebugInfo())
		if err != nil {
			t.Fatalf("harness: %v", err)
		}
		var sum int64
		for inst, v := range d.details {
			if v < 0 {
				t.Fatalf("instance %s has a negative count %d on record\n%s\ndebug: %s results %v", inst, v, desc, fc.DebugInfo(), results)
			}
			sum += v
		}
		if d.count != sum || d.total != sum {
			t.Fatalf("running total %d, per-instance total %d, sum of details %d: the accounting is not exact after racing operations\n%s\ndebug: %s results %v", d.count, d.total, sum, desc, fc.DebugInfo(), results)
		}
		if !resized && sum > int64(max) {
			t.Fatalf("accepted counts sum to %d > limit %d\n%s\nresults %v", sum, max, desc, results)
		}
		for _, inst := range insts {
			final := d.details[inst]
			ok := final == 0 || final == int64(prefixAccepted[inst])
			var largest int64
			for i := range scripts {
				for j, o := range scripts[i] {
					if o.Inst != inst || o.N < 0 {
						continue
					}
					if o.ID > largest {
						largest = o.ID
					}
					r := results[i][j]
					if r.err == nil && r.latest == o.N && int64(o.N) == final {
						ok = true
					}
				}
			}
			if !ok {
				t.Fatalf("instance %s ends with count %d, which none of its applied reports set\n%s\nresults %v", inst, final, desc, results)
			}
			if _, present := d.details[inst]; present && largest > 0 {
				// the instance is still on record: its id history must refuse the largest id used
				stale := false
				for i := range scripts {
					for j, o := range scripts[i] {
						if o.Inst == inst && o.ID == largest && results[i][j].err == nil {
							stale = true
						}
					}
				}
				if stale {
					if _, _, err := fc.SetState(inst, largest, 0); err != sfc.RequestIDTooOld {
						// only meaningful if no removal came after the report with the largest id; detect via a second probe
						removedAfter := false
						for i := range scripts {
							for _, o := range scripts[i] {
								if o.Inst == inst && o.N < 0 {
									removedAfter = true
								}
							}
						}
						if !removedAfter {
							t.Fatalf("a report with request id %d (already processed for %s) was not refused after the run\n%s", largest, inst, desc)
						}
					}
				}
			}
		}
		if sub.WantSample() && switches >= 1 {
			sub.Sample(desc)
		}
	})
}

func genPreemptions(t *rapid.T, early, max int) []vsched.Preempt {
	n := rapid.IntRange(0, 5).Draw(t, "npreemptions")
	var ps []vsched.Preempt
	for i := 0; i < n; i++ {
		hi := max
		if rapid.Bool().Draw(t, fmt.Sprintf("preempt[%d].early", i)) {
			hi = early
		}
		ps = append(ps, vsched.Preempt{At: rapid.IntRange(0, hi).Draw(t, fmt.Sprintf("preempt[%d].at", i)), Pick: rapid.IntRange(0, 2).Draw(t, fmt.Sprintf("preempt[%d].pick", i))})
	}
	return ps
}
