//go:build verif

// C08 — global count: the server never grants beyond the global limit; accounting is exact.
package c08

import (
	"fmt"
	"math"
	"regexp"
	"strconv"
	"testing"
	"time"

	metav1 "k8s.io/apimachinery/pkg/apis/meta/v1"
	"pgregory.net/rapid"

	proxyv1alpha1 "github.com/kubewharf/kubegateway/pkg/apis/proxy/v1alpha1"
	sfc "github.com/kubewharf/kubegateway/pkg/ratelimiter/store/flowcontrol"
	"verifharness/internal/limbox"
	"verifharness/internal/stats"
)

func TestMain(m *testing.M) {
	stats.Property("C08")
	stats.Assume(
		"model of the accounting: per instance the latest accepted count and newest processed request id; the count the server applied is read from the value it returns (the previous count when the report was refused)",
		"a refused increase that would have fitted is not treated as a violation (the property is a safety bound); it is counted in the class 'refused-though-fits'",
		"after an instance was removed its request-id history may or may not be forgotten; both are accepted",
		"token-bucket window bound uses timestamps taken before the first and after the last call of the window, which can only loosen the bound",
		"Go runtime, pgregory.net/rapid v1.3.0, golang.org/x/time/rate",
	)
	stats.Main(m)
}

var debugRe = regexp.MustCompile(`max=(-?\d+) count=(-?\d+) total=(-?\d+) details=(.*)$`)
var detailRe = regexp.MustCompile(`\[([^:\]]+): (-?\d+)\]`)

type debug struct {
	max, count, total int64
	details           map[string]int64
}

func parseDebug(s string) (debug, error) {
	m := debugRe.FindStringSubmatch(s)
	if m == nil {
		return debug{}, fmt.Errorf("cannot parse DebugInfo %q", s)
	}
	d := debug{details: map[string]int64{}}
	d.max, _ = strconv.ParseInt(m[1], 10, 64)
	d.count, _ = strconv.ParseInt(m[2], 10, 64)
	d.total, _ = strconv.ParseInt(m[3], 10, 64)
	for _, x := range detailRe.FindAllStringSubmatch(m[4], -1) {
		v, _ := strconv.ParseInt(x[2], 10, 64)
		d.details[x[1]] = v
	}
	return d, nil
}

type instModel struct {
	present   bool
	count     int32
	lastID    int64
	forgotten int64 // newest id processed before the last removal (may or may not still be remembered)
}

// TestPropSetStateModel: sequential histories of reports / removals / resizes against the accounting model.
func TestPropSetStateModel(t *testing.T) {
	sub := stats.NewSub("setstate-model", "rapid state machine on NewGlobalFlowControl(max-in-flight): ops SetState(instance, id, n>=0), removal (n<0), Resize; after every step DebugInfo count == total == sum of the model, per-instance details == model, returned count == model, sum <= max(limit, sum before), decreases applied, stale ids refused; non-trivial = history has a resize below the current sum, a removal, or a refused report; distinct by FNV-64 of the op trace")
	stats.Check(t, stats.N(40000, 300000), func(t *rapid.T) {
		max := int32(rapid.IntRange(0, 12).Draw(t, "max"))
		fc := sfc.NewGlobalFlowControl(proxyv1alpha1.FlowControlSchema{Name: "s", FlowControlSchemaConfiguration: proxyv1alpha1.FlowControlSchemaConfiguration{
			GlobalMaxRequestsInflight: &proxyv1alpha1.MaxRequestsInflightFlowControlSchema{Max: max}}})
		insts := map[string]*instModel{"i1": {}, "i2": {}, "i3": {}}
		names := []string{"i1", "i2", "i3"}
		trace := fmt.Sprintf("max=%d;", max)
		nt := false
		sum := func() int64 {
			var s int64
			for _, m := range insts {
				if m.present {
					s += int64(m.count)
				}
			}
			return s
		}
		sub.Eval()
		t.Repeat(map[string]func(*rapid.T){
			"report": func(t *rapid.T) {
				name := rapid.SampledFrom(names).Draw(t, "instance")
				m := insts[name]
				var id int64
				switch rapid.IntRange(0, 5).Draw(t, "idKind") {
				case 0:
					id = 0 // "no id"
				case 1:
					id = m.lastID // not newer
				case 2:
					id = m.lastID - int64(rapid.IntRange(0, 2).Draw(t, "older"))
				default:
					id = m.lastID + int64(rapid.IntRange(1, 3).Draw(t, "newer"))
				}
				n := int32(rapid.IntRange(0, 14).Draw(t, "count"))
				if rapid.IntRange(0, 19).Draw(t, "extreme") == 0 {
					n = rapid.SampledFrom([]int32{math.MaxInt32, math.MaxInt32 - 1, 1 << 30, 1<<31 - 10}).Draw(t, "extremeCount")
				}
				before := sum()
				accept, latest, err := fc.SetState(name, id, n)
				trace += fmt.Sprintf("set(%s,id=%d,n=%d)->(%v,%d,%v);", name, id, n, accept, latest, err)
				stale := id > 0 && m.present && id <= m.lastID
				if stale {
					if err != sfc.RequestIDTooOld {
						t.Fatalf("report with request id %d not newer than %d already processed for %s was not refused (accept=%v latest=%d err=%v)\ntrace: %s", id, m.lastID, name, accept, latest, err, trace)
					}
					nt = true
					sub.Class("stale-id-refused")
					return
				}
				if err == sfc.RequestIDTooOld {
					if !m.present && id > 0 && id <= m.forgotten {
						// the id history survived the removal: allowed
						m.lastID = m.forgotten
						sub.Class("id-remembered-across-removal")
						return
					}
					t.Fatalf("report with a newer request id (%d > %d) for %s was refused as too old\ntrace: %s", id, m.lastID, name, trace)
				}
				if err != nil {
					t.Fatalf("unexpected error %v\ntrace: %s", err, trace)
				}
				old := int32(0)
				if m.present {
					old = m.count
				}
				if !m.present {
					m.present = true
					m.count = 0
					m.lastID = 0
				}
				if id > 0 {
					m.lastID = id
				}
				switch {
				case latest == n:
					m.count = n // applied
				case latest == old:
					// refused, previous count kept
					if n <= old {
						t.Fatalf("a report lowering the count of %s from %d to %d was not applied (sum %d, limit %d)\ntrace: %s", name, old, n, before, max, trace)
					}
					nt = true
					if before-int64(old)+int64(n) <= int64(max) {
						sub.Class("refused-though-fits")
					} else {
						sub.Class("refused-over-limit")
					}
				default:
					t.Fatalf("SetState returned count %d which is neither the reported %d nor the previous %d\ntrace: %s", latest, n, old, trace)
				}
				if accept && latest != n {
					t.Fatalf("accepted but the returned count %d differs from the reported %d\ntrace: %s", latest, n, trace)
				}
				after := sum()
				lim := int64(max)
				if before > lim {
					lim = before
				}
				if after > lim {
					t.Fatalf("accepted counts sum to %d > limit %d (sum before %d)\ntrace: %s", after, max, before, trace)
				}
			},
			"remove": func(t *rapid.T) {
				name := rapid.SampledFrom(names).Draw(t, "instance")
				m := insts[name]
				_, _, err := fc.SetState(name, -1, -1)
				if err != nil {
					t.Fatalf("removal returned %v", err)
				}
				trace += fmt.Sprintf("remove(%s);", name)
				if m.present {
					m.forgotten = m.lastID
					nt = true
				}
				m.present, m.count, m.lastID = false, 0, 0
				sub.Class("removal")
			},
			"resize": func(t *rapid.T) {
				nm := int32(rapid.IntRange(0, 12).Draw(t, "newMax"))
				fc.Resize(nm, 0)
				trace += fmt.Sprintf("resize(%d);", nm)
				if int64(nm) < sum() {
					nt = true
					sub.Class("resize-below-sum")
				}
				max = nm
			},
			"": func(t *rapid.T) {
				d, err := parseDebug(fc.DebugInfo())
				if err != nil {
					t.Fatalf("harness: %v", err)
				}
				s := sum()
				if d.count != s || d.total != s {
					t.Fatalf("running total %d / per-instance total %d, model sum %d\ntrace: %s\ndebug: %s", d.count, d.total, s, trace, fc.DebugInfo())
				}
				if d.max != int64(max) {
					t.Fatalf("limit %d, expected %d", d.max, max)
				}
				for name, m := range insts {
					got, ok := d.details[name]
					if m.present {
						if !ok || got != int64(m.count) {
							t.Fatalf("instance %s recorded %d (present=%v), model %d\ntrace: %s", name, got, ok, m.count, trace)
						}
					} else if ok && got != 0 {
						t.Fatalf("removed instance %s still has %d on record\ntrace: %s", name, got, trace)
					}
				}
			},
		})
		if nt {
			sub.NonTrivial(stats.HashString(trace))
			if sub.WantSample() {
				sub.Sample(trace)
			}
		}
	})
}

// ---- DoAcquire through the real limiter -----------------------------------------------------------

func acquire(inst string, id int64, reqs ...proxyv1alpha1.RateLimitAcquireRequest) *proxyv1alpha1.RateLimitAcquire {
	return &proxyv1alpha1.RateLimitAcquire{ObjectMeta: metav1.ObjectMeta{Name: "up"}, Spec: proxyv1alpha1.RateLimitAcquireSpec{Instance: inst, RequestID: id, Requests: reqs}}
}

// TestPropDoAcquire: grants through RateLimiter.DoAcquire (both schema types).
func TestPropDoAcquire(t *testing.T) {
	sub := stats.NewSub("doacquire", "rapid: one upstream with a global-count max-in-flight schema and a token-bucket schema on the real limiter; a sequence of DoAcquire calls from 3 instances with amounts in [-3, 2*limit], interleaved with cluster updates that resize the token bucket (a new window segment starts) or change only an unrelated third schema of the same cluster (the token bucket must not notice); oracle: negative ask => error result and no state change; max-in-flight accepted sum <= limit (ledger of accepted reports); token bucket: each grant in {n, n/2, n/4, n/8} and <= asked, never negative, and the sum of grants in every window of the run <= burst + qps*T (T from timestamps bracketing the window); non-trivial = the sequence contains a negative ask, a partial grant or a refusal; distinct by FNV-64 of the op trace")
	stats.Check(t, stats.N(3000, 20000), func(t *rapid.T) {
		box := limbox.New("local", 1, "srv")
		box.LeadAll()
		mif := int32(rapid.IntRange(1, 20).Draw(t, "mifMax"))
		qps := int32(rapid.IntRange(1, 200).Draw(t, "qps"))
		burst := qps + int32(rapid.IntRange(0, 50).Draw(t, "burstExtra"))
		cl := limbox.Cluster("up",
			limbox.GlobalSchema("mif", proxyv1alpha1.GlobalCountLimit, false, 1, mif, 0, 0),
			limbox.GlobalSchema("tb", proxyv1alpha1.GlobalCountLimit, true, 1, qps, 1, burst))
		if err := box.SetCluster(cl); err != nil {
			t.Fatalf("harness: %v", err)
		}
		extra := int32(0) // limit of the unrelated third schema (0 = absent)
		apply := func() {
			schemas := []proxyv1alpha1.FlowControlSchema{
				limbox.GlobalSchema("mif", proxyv1alpha1.GlobalCountLimit, false, 1, mif, 0, 0),
				limbox.GlobalSchema("tb", proxyv1alpha1.GlobalCountLimit, true, 1, qps, 1, burst)}
			if extra > 0 {
				schemas = append(schemas, limbox.GlobalSchema("extra", proxyv1alpha1.GlobalCountLimit, extra%2 == 0, 1, extra, 1, extra+1))
			}
			if err := box.SetCluster(limbox.Cluster("up", schemas...)); err != nil {
				t.Fatalf("harness: %v", err)
			}
		}
		type grant struct {
			before, after time.Time
			n             int32
		}
		var grants []grant
		accepted := map[string]int32{}
		ids := map[string]int64{}
		trace := fmt.Sprintf("mif=%d qps=%d burst=%d;", mif, qps, burst)
		nt := false
		steps := rapid.IntRange(1, 30).Draw(t, "steps")
		sub.Eval()
		// token bucket: every window of consecutive grants under one (qps, burst)
		checkWindows := func() {
			for i := range grants {
				var sum int64
				for j := i; j < len(grants); j++ {
					sum += int64(grants[j].n)
					T := grants[j].after.Sub(grants[i].before).Seconds()
					if float64(sum) > float64(burst)+float64(qps)*T+1e-6 {
						t.Fatalf("tokens granted in a window of %.6fs total %d > burst %d + qps %d * T\ntrace: %s", T, sum, burst, qps, trace)
					}
				}
			}
		}
		for i := 0; i < steps; i++ {
			inst := rapid.SampledFrom([]string{"i1", "i2", "i3"}).Draw(t, "instance")
			switch rapid.IntRange(0, 9).Draw(t, "clusterUpdate") {
			case 0:
				// the token bucket is genuinely resized: judge what was granted so far, then a new segment starts
				checkWindows()
				grants = nil
				qps = int32(rapid.IntRange(1, 200).Draw(t, "newQps"))
				burst = qps + int32(rapid.IntRange(0, 50).Draw(t, "newBurstExtra"))
				apply()
				trace += fmt.Sprintf("resize-tb(qps=%d,burst=%d);", qps, burst)
				nt = true
				sub.Class("token-bucket-resized")
				continue
			case 1:
				// only an unrelated schema of the cluster changes: no effect on the bucket
				extra = int32(rapid.IntRange(0, 6).Draw(t, "extraSchemaLimit"))
				apply()
				trace += fmt.Sprintf("unrelated-schema(%d);", extra)
				nt = true
				sub.Class("unrelated-schema-changed")
				continue
			}
			if rapid.Bool().Draw(t, "tokenBucket") {
				n := int32(rapid.IntRange(-3, int(2*burst)).Draw(t, "tokens"))
				b := time.Now()
				out, err := box.Limiter.DoAcquire("up", acquire(inst, 0, proxyv1alpha1.RateLimitAcquireRequest{FlowControl: "tb", Tokens: n}))
				a := time.Now()
				if err != nil || len(out.Status.Results) != 1 {
					t.Fatalf("DoAcquire: %v %+v", err, out)
				}
				r := out.Status.Results[0]
				trace += fmt.Sprintf("tb(%s,%d)->(%v,%d,%q);", inst, n, r.Accept, r.Limit, r.Error)
				if n < 0 {
					nt = true
					if r.Accept || r.Error == "" || r.Limit != 0 {
						t.Fatalf("negative ask %d was not refused with an error: %+v\ntrace: %s", n, r, trace)
					}
					continue
				}
				if r.Accept {
					ok := false
					for _, d := range []int32{1, 2, 4, 8} {
						if r.Limit == n/d {
							ok = true
						}
					}
					if !ok || r.Limit > n || r.Limit < 0 {
						t.Fatalf("grant %d for an ask of %d is not one of n, n/2, n/4, n/8\ntrace: %s", r.Limit, n, trace)
					}
					if r.Limit < n {
						nt = true
						sub.Class("partial-grant")
					}
					grants = append(grants, grant{b, a, r.Limit})
				} else {
					nt = true
					sub.Class("tb-refused")
					if r.Limit != 0 {
						t.Fatalf("refused ask reports a grant of %d\ntrace: %s", r.Limit, trace)
					}
				}
			} else {
				n := int32(rapid.IntRange(-2, int(mif)+4).Draw(t, "inflight"))
				ids[inst]++
				out, err := box.Limiter.DoAcquire("up", acquire(inst, ids[inst], proxyv1alpha1.RateLimitAcquireRequest{FlowControl: "mif", Tokens: n}))
				if err != nil || len(out.Status.Results) != 1 {
					t.Fatalf("DoAcquire: %v %+v", err, out)
				}
				r := out.Status.Results[0]
				trace += fmt.Sprintf("mif(%s,%d)->(%v,%d,%q);", inst, n, r.Accept, r.Limit, r.Error)
				if n < 0 {
					nt = true
					if r.Accept || r.Error == "" {
						t.Fatalf("negative in-flight report %d was not refused with an error: %+v\ntrace: %s", n, r, trace)
					}
					continue // and must not have changed anything: checked through the ledger below
				}
				if r.Error != "" {
					t.Fatalf("unexpected error result %+v\ntrace: %s", r, trace)
				}
				if r.Accept {
					if r.Limit != n {
						t.Fatalf("accepted report of %d answered limit %d\ntrace: %s", n, r.Limit, trace)
					}
					accepted[inst] = n
				} else {
					nt = true
					sub.Class("mif-not-accepted")
					// not accepted: the server tells the count it has on record for the instance
					if r.Limit == n {
						accepted[inst] = n
					} else if r.Limit != accepted[inst] {
						t.Fatalf("refused report answered count %d, the instance's accepted count is %d\ntrace: %s", r.Limit, accepted[inst], trace)
					}
				}
				var s int32
				for _, v := range accepted {
					s += v
				}
				if s > mif {
					t.Fatalf("accepted in-flight counts sum to %d > global limit %d\ntrace: %s", s, mif, trace)
				}
				store := box.Limiter.VerifStore(0)
				fc, err := store.GetFlowControl("up", "mif")
				if err != nil {
					t.Fatalf("harness: %v", err)
				}
				d, err := parseDebug(fc.DebugInfo())
				if err != nil {
					t.Fatalf("harness: %v", err)
				}
				if d.count != int64(s) || d.total != int64(s) {
					t.Fatalf("server total %d/%d, ledger of accepted reports %d\ntrace: %s", d.count, d.total, s, trace)
				}
			}
		}
		checkWindows()
		if nt {
			sub.NonTrivial(stats.HashString(trace))
			if sub.WantSample() {
				sub.Sample(trace)
			}
		}
	})
}

// TestReplayDecreaseAboveLoweredLimit: witness from the property file — after the limit is lowered below the
// recorded total a decrease must still be applied.
func TestReplayDecreaseAboveLoweredLimit(t *testing.T) {
	fc := sfc.NewGlobalFlowControl(proxyv1alpha1.FlowControlSchema{Name: "s", FlowControlSchemaConfiguration: proxyv1alpha1.FlowControlSchemaConfiguration{
		GlobalMaxRequestsInflight: &proxyv1alpha1.MaxRequestsInflightFlowControlSchema{Max: 10}}})
	fc.SetState("i1", 1, 5)
	fc.SetState("i2", 1, 5)
	fc.Resize(4, 0)
	_, latest, err := fc.SetState("i1", 2, 3)
	if err != nil || latest != 3 {
		t.Errorf("decrease 5 -> 3 with total 10 above the lowered limit 4 was not applied: latest=%d err=%v (%s)", latest, err, fc.DebugInfo())
	}
	d, _ := parseDebug(fc.DebugInfo())
	if d.count != 8 || d.total != 8 {
		t.Errorf("after the decrease count=%d total=%d, want 8", d.count, d.total)
	}
}
