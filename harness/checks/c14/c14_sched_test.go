//go:build verif

package c14

import (
	"fmt"
	"testing"

	"pgregory.net/rapid"

	"github.com/kubewharf/kubegateway/pkg/clusters"
	"verifharness/internal/stats"
	"verifharness/internal/vsched"
)

// TestPropPickSchedules: concurrent pickers under a harness-owned schedule (engine E4). clusterinfo.go is rewritten at
// check time (a schedule point before every statement), 2-3 logical threads route and pick the way the dispatcher does,
// the interleaving is a rapid-drawn value. Whatever the interleaving, the picks of a stable ready list are a
// rotation: the totals per endpoint differ by at most one, and the rotation goes on afterwards.
func TestPropPickSchedules(t *testing.T) {
	sub := stats.NewSub("pick-schedules", "rapid + deterministic scheduler (schedule points inserted into pkg/clusters/clusterinfo.go at check time): a cluster with 2-5 ready endpoints and one policy with an explicit subset; W sequential warm-up picks (none half of the time: the concurrent picks are then the first ones of the ready set), then 2-3 logical threads make 1-3 picks each (MatchAttributes + Pop, as the dispatcher does) under 0-5 rapid-drawn pre-emption points; oracle at quiescence: every pick is an endpoint of the ready list, over warm-up + concurrent picks every endpoint was picked floor(T/k) or ceil(T/k) times (whatever the interleaving, the picks of a stable ready list are consecutive positions of one rotation), and k further sequential picks visit every endpoint exactly once; deadlock or panic is a violation; non-trivial = at least one real pre-emption; distinct by FNV-64 of (setup, schedule)")
	stats.Check(t, stats.N(3000, 40000), func(t *rapid.T) {
		k := rapid.IntRange(2, 5).Draw(t, "k")
		s := setup{K: k, Unready: make([]bool, k), Disabled: make([]bool, k)}
		s.Subset = rapid.Permutation(seq(k)).Draw(t, "subsetOrder")
		ci, ready, _ := build(t, s)
		defer ci.Stop()
		if len(ready) != k {
			t.Fatalf("harness: ready list %v", ready)
		}
		counts := map[string]int{}
		warm := 0 // the concurrent picks are the first ones of the ready set (no cursor exists yet) half of the time
		if rapid.Bool().Draw(t, "warmedUp") {
			warm = rapid.IntRange(1, k).Draw(t, "warmup")
		}
		for i := 0; i < warm; i++ {
			e, err := pick(ci)
			if err != nil {
				t.Fatalf("warm-up pick: %v", err)
			}
			counts[e]++
		}
		nthreads := rapid.IntRange(2, 3).Draw(t, "threads")
		per := make([]int, nthreads)
		picked := make([][]string, nthreads)
		errs := make([]error, nthreads)
		total := warm
		var bodies []func()
		for i := 0; i < nthreads; i++ {
			i := i
			per[i] = rapid.IntRange(1, 3).Draw(t, fmt.Sprintf("picks[%d]", i))
			total += per[i]
			bodies = append(bodies, func() {
				for j := 0; j < per[i]; j++ {
					e, err := pick(ci)
					if err != nil {
						errs[i] = err
						return
					}
					picked[i] = append(picked[i], e)
				}
			})
		}
		sc := vsched.New()
		clusters.VerifPoint, clusters.VerifLockHook = sc.Point, sc.LockHook
		reset := func() { clusters.VerifPoint, clusters.VerifLockHook = func(int) {}, nil }
		defer reset()
		res := sc.Run(bodies, vsched.PreemptionChooser(genPreemptions(t, 40, 60*nthreads*3)))
		reset()
		sub.Eval()
		desc := fmt.Sprintf("k=%d subset=%v warmup=%d picks per thread=%v picked=%v schedule=%v", k, s.Subset, warm, per, picked, rle(sc.Trace))
		if res.Deadlock || res.Panic != nil || res.Overrun {
			t.Fatalf("deadlock=%v panic=%v overrun=%v\n%s", res.Deadlock, res.Panic, res.Overrun, desc)
		}
		isReady := map[string]bool{}
		for _, e := range ready {
			isReady[e] = true
		}
		for i := range picked {
			if errs[i] != nil {
				t.Fatalf("thread %d: pick failed with all endpoints ready: %v\n%s", i, errs[i], desc)
			}
			for _, e := range picked[i] {
				if !isReady[e] {
					t.Fatalf("thread %d picked %s, which is not in the ready list %v\n%s", i, e, ready, desc)
				}
				counts[e]++
			}
		}
		lo, hi := total/k, (total+k-1)/k
		for _, e := range ready {
			if c := counts[e]; c < lo || c > hi {
				t.Fatalf("after %d picks over %d ready endpoints (%d of them by %d concurrent pickers) endpoint %s was picked %d times, expected %d..%d: concurrent picks are not consecutive positions of one rotation\ncounts=%v\n%s", total, k, total-warm, nthreads, e, c, lo, hi, counts, desc)
			}
		}
		// the rotation goes on: k further picks visit every endpoint once
		after := map[string]int{}
		for i := 0; i < k; i++ {
			e, err := pick(ci)
			if err != nil {
				t.Fatalf("pick after the concurrent phase: %v\n%s", err, desc)
			}
			after[e]++
		}
		for _, e := range ready {
			if after[e] != 1 {
				t.Fatalf("after the concurrent phase %d sequential picks visited %s %d times (expected once each): %v\n%s", k, e, after[e], after, desc)
			}
		}
		if vsched.Switches(sc.Trace) >= 1 {
			sub.NonTrivial(stats.HashString(desc))
			sub.Class("pre-empted")
			if sub.WantSample() {
				sub.Sample(desc)
			}
		}
	})
}

func genPreemptions(t *rapid.T, early, max int) []vsched.Preempt {
	n := rapid.IntRange(0, 5).Draw(t, "npreemptions")
	var ps []vsched.Preempt
	for i := 0; i < n; i++ {
		hi := max
		if rapid.Bool().Draw(t, fmt.Sprintf("preempt[%d].early", i)) {
			hi = early
		}
		ps = append(ps, vsched.Preempt{At: rapid.IntRange(0, hi).Draw(t, fmt.Sprintf("preempt[%d].at", i)), Pick: rapid.IntRange(0, 2).Draw(t, fmt.Sprintf("preempt[%d].pick", i))})
	}
	return ps
}

// rle renders a schedule as runs: thread x steps.
func rle(trace []int) string {
	out := ""
	for i := 0; i < len(trace); {
		j := i
		for j < len(trace) && trace[j] == trace[i] {
			j++
		}
		out += fmt.Sprintf("t%dx%d ", trace[i], j-i)
		i = j
	}
	return out
}
