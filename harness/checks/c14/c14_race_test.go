//go:build verif

package c14

import (
	"fmt"
	"sync"
	"sync/atomic"
	"testing"
	"time"

	"pgregory.net/rapid"

	proxyv1alpha1 "github.com/kubewharf/kubegateway/pkg/apis/proxy/v1alpha1"
	"verifharness/internal/stats"
)

// TestPropPicksRacingServerSetChanges: requests keep arriving while the cluster's server list changes. Whatever a
// racing request sees, once the update is applied the rotation is over the ready endpoints of the NEW list.
func TestPropPicksRacingServerSetChanges(t *testing.T) {
	sub := stats.NewSub("picks-racing-server-set-changes", "rapid: a cluster of k in 1..6 healthy endpoints with a policy without upstream subset; 1-4 rounds, each a Sync to a new non-empty server list drawn from a pool of 8 endpoints (adds and removals) while 3 goroutines pick continuously (MatchAttributes + Pop; their results are only required to lie in the union of the old and the new list); after the Sync returned, the pickers stopped and the probes of the new endpoints were processed, 400 x r sequential picks are made; oracle: only endpoints of the new list are picked and every one of its r endpoints gets 400 +- 64 of them (the constant of no-subset-bounded-deviation: without a subset the rotation runs over the endpoint map, whose order is not fixed); non-trivial = a round adds an endpoint and at least 100 picks ran during its Sync; distinct by FNV-64 of the lists")
	stats.Check(t, stats.N(60, 600), func(t *rapid.T) {
		k := rapid.IntRange(1, 6).Draw(t, "k")
		s := setup{K: k, Unready: make([]bool, 8), Disabled: make([]bool, 8)}
		ci, _, obj := build(t, s)
		defer stop(ci)
		cur := seq(k)
		rounds := rapid.IntRange(1, 4).Draw(t, "rounds")
		desc := fmt.Sprintf("start=%v", cur)
		nt := false
		sub.Eval()
		for r := 0; r < rounds; r++ {
			perm := rapid.Permutation(seq(8)).Draw(t, fmt.Sprintf("round[%d].order", r))
			next := perm[:rapid.IntRange(1, 6).Draw(t, fmt.Sprintf("round[%d].len", r))]
			allowed := map[string]bool{}
			added := false
			inCur := map[int]bool{}
			for _, i := range cur {
				allowed[endpoint(i)] = true
				inCur[i] = true
			}
			for _, i := range next {
				allowed[endpoint(i)] = true
				if !inCur[i] {
					added = true
				}
			}
			upd := obj.DeepCopy()
			upd.Spec.Servers = nil
			for _, i := range next {
				upd.Spec.Servers = append(upd.Spec.Servers, proxyv1alpha1.UpstreamClusterServer{Endpoint: endpoint(i)})
			}
			var stopPick int32
			var during int64
			var mu sync.Mutex
			bad := ""
			var wg sync.WaitGroup
			for g := 0; g < 3; g++ {
				wg.Add(1)
				go func() {
					defer wg.Done()
					for atomic.LoadInt32(&stopPick) == 0 {
						e, err := pick(ci)
						atomic.AddInt64(&during, 1)
						if err == nil && !allowed[e] {
							mu.Lock()
							bad = e
							mu.Unlock()
							return
						}
					}
				}()
			}
			time.Sleep(200 * time.Microsecond)
			if err := ci.Sync(upd); err != nil {
				atomic.StoreInt32(&stopPick, 1)
				wg.Wait()
				t.Fatalf("harness: sync: %v", err)
			}
			atomic.StoreInt32(&stopPick, 1)
			wg.Wait()
			desc += fmt.Sprintf(" -> %v", next)
			if bad != "" {
				t.Fatalf("a request racing with the update was sent to %s, which is in neither the old nor the new server list\n%s", bad, desc)
			}
			// the scripted probes of the new endpoints
			deadline := time.Now().Add(5 * time.Second)
			for {
				n := 0
				for _, i := range next {
					if info, ok := ci.Endpoints.Load(endpoint(i)); ok && info.IsReady() {
						n++
					}
				}
				if n == len(next) {
					break
				}
				if time.Now().After(deadline) {
					t.Fatalf("harness: endpoints of the new list did not become ready\n%s", desc)
				}
				time.Sleep(time.Millisecond)
			}
			want := map[string]bool{}
			for _, i := range next {
				want[endpoint(i)] = true
			}
			counts := map[string]int{}
			for i := 0; i < 400*len(next); i++ {
				e, err := pick(ci)
				if err != nil {
					t.Fatalf("pick after the update failed: %v\n%s", err, desc)
				}
				if !want[e] {
					t.Fatalf("after the update was applied a request was sent to %s, which is not in the new server list\n%s", e, desc)
				}
				counts[e]++
			}
			for e := range want {
				if d := counts[e] - 400; d > 64 || d < -64 {
					t.Fatalf("after the update was applied endpoint %s of the new server list (ready) received %d of %d requests over %d endpoints (deviation from the even share above 64): %v\n%s", e, counts[e], 400*len(next), len(next), counts, desc)
				}
			}
			if added && atomic.LoadInt64(&during) >= 100 {
				nt = true
				sub.Class("endpoint-added-while-requests-arrive")
			}
			cur = next
			obj = upd
		}
		if nt {
			sub.NonTrivial(stats.HashString(desc))
			if sub.WantSample() {
				sub.Sample(desc)
			}
		}
	})
}
