//go:build verif

package c14

import (
	"fmt"
	"os"
	"os/exec"
	"strings"
	"sync"
	"sync/atomic"
	"testing"
	"time"

	"pgregory.net/rapid"

	proxyv1alpha1 "github.com/kubewharf/kubegateway/pkg/apis/proxy/v1alpha1"
	"verifharness/internal/stats"
)

// TestPropPicksRacingRotationResets: the cluster's rotations are reset whenever the server list changes. Requests
// picking at that moment - in particular the first picks of a ready set that has no rotation yet - must neither fail
// nor hang (regression for the fixed finding C14-rotation-reset-corrupts-the-cursor-map).
func TestPropPicksRacingRotationResets(t *testing.T) {
	sub := stats.NewSub("picks-racing-rotation-resets", "rapid-drawn stress plan on the real scheduler, executed in a child process (the test binary re-executed) so that a runtime fatal error or a deadlock becomes a verdict: a cluster of k in 3..8 endpoints without upstream subset; g in 2..8 goroutines pick continuously (MatchAttributes + Pop) while one goroutine keeps changing the readiness of the endpoints (so that picks keep meeting ready sets that have no rotation yet) and the spec alternates for 0.7 s between the list and the list plus 1-2 further servers (every such update resets the rotations); oracle: the child neither crashes nor times out, no pick panics, every picker returns within 5 s after being told to stop (nothing is wedged), picks are endpoints of the cluster, and afterwards, with every endpoint ready, k sequential picks succeed; schedule dependent (the interleavings are those the Go scheduler produces under this load); non-trivial = at least 50 updates and 1000 picks happened; distinct by FNV-64 of the plan")
	stats.Check(t, stats.N(4, 40), func(t *rapid.T) {
		k := rapid.IntRange(3, 8).Draw(t, "k")
		pickers := rapid.IntRange(2, 8).Draw(t, "pickers")
		extra := rapid.IntRange(1, 2).Draw(t, "extraServers")
		plan := fmt.Sprintf("k=%d pickers=%d extra servers=%d", k, pickers, extra)
		// the stress runs in a child process (this test binary, re-executed): a corrupted sync.Map ends in a panic, in a
		// fatal error of the runtime ("unlock of unlocked mutex") or in a deadlock, and the last two cannot be
		// recovered in-process
		cmd := exec.Command(os.Args[0], "-test.run", "^TestHelperRotationResetStress$", "-test.timeout", "60s")
		cmd.Env = append(os.Environ(), fmt.Sprintf("VERIF_C14_STRESS=%d,%d,%d", k, pickers, extra), "VERIF_PARTIAL=")
		out, err := cmd.CombinedOutput()
		sub.Eval()
		text := string(out)
		var syncs, picks int
		if i := strings.Index(text, "STRESS-OK"); i >= 0 && err == nil {
			fmt.Sscanf(text[i:], "STRESS-OK %d %d", &syncs, &picks)
		} else {
			if len(text) > 3000 {
				// keep the head: the runtime prints the reason first
				text = text[:3000]
			}
			t.Fatalf("requests picking endpoints while the server list of their cluster changes crashed or wedged the process (%v)\nplan: %s\n%s", err, plan, text)
		}
		sub.ClassN("server-list-changes", syncs)
		sub.ClassN("picks", picks)
		if syncs >= 50 && picks >= 1000 {
			sub.NonTrivial(stats.HashString(plan))
			if sub.WantSample() {
				sub.Sample(fmt.Sprintf("%s: %d changes of the server list, %d picks", plan, syncs, picks))
			}
		}
	})
}

// TestHelperRotationResetStress is the child process of TestPropPicksRacingRotationResets (not a check of its own).
func TestHelperRotationResetStress(t *testing.T) {
	var k, pickers, extra int
	if n, _ := fmt.Sscanf(os.Getenv("VERIF_C14_STRESS"), "%d,%d,%d", &k, &pickers, &extra); n != 3 {
		t.Skip("helper of TestPropPicksRacingRotationResets")
	}
	syncs, picks, problem := rotationResetStress(t, k, pickers, extra)
	if problem != "" {
		t.Fatalf("%s", problem)
	}
	fmt.Printf("STRESS-OK %d %d\n", syncs, picks)
}

func rotationResetStress(t *testing.T, k, pickers, extra int) (int, int, string) {
	s := setup{K: k, Unready: make([]bool, k), Disabled: make([]bool, k)}
	ci, _, obj := build(t, s)
	defer ci.Stop()
	valid := map[string]bool{}
	for i := 0; i < k; i++ {
		valid[endpoint(i)] = true
	}
	with := obj.DeepCopy()
	for i := 0; i < extra; i++ {
		e := fmt.Sprintf("http://127.0.0.1:%d", 1990+i)
		with.Spec.Servers = append(with.Spec.Servers, proxyv1alpha1.UpstreamClusterServer{Endpoint: e})
		valid[e] = true // the scripted health function reports it ready while it is listed
	}
	var stop int32
	var picks int64
	var mu sync.Mutex
	var problems []string
	note := func(format string, a ...interface{}) {
		mu.Lock()
		problems = append(problems, fmt.Sprintf(format, a...))
		mu.Unlock()
	}
	var wg sync.WaitGroup
	wg.Add(1)
	go func() {
		defer wg.Done()
		for i := 0; atomic.LoadInt32(&stop) == 0; i++ {
			if info, ok := ci.Endpoints.Load(endpoint(i % k)); ok {
				info.UpdateStatus(i%3 != 0, "flap", "")
			}
		}
	}()
	for g := 0; g < pickers; g++ {
		wg.Add(1)
		go func() {
			defer wg.Done()
			defer func() {
				if r := recover(); r != nil {
					note("a pick racing with a change of the server list panicked: %v", r)
				}
			}()
			for atomic.LoadInt32(&stop) == 0 {
				e, err := pick(ci)
				atomic.AddInt64(&picks, 1)
				if err == nil && !valid[e] {
					note("picked %q, which is not an endpoint of the cluster", e)
					return
				}
			}
		}()
	}
	syncs := 0
	var syncPanic interface{}
	func() {
		defer func() { syncPanic = recover() }()
		for deadline := time.Now().Add(700 * time.Millisecond); time.Now().Before(deadline); syncs += 2 {
			_ = ci.Sync(with)
			_ = ci.Sync(obj)
		}
	}()
	atomic.StoreInt32(&stop, 1)
	done := make(chan struct{})
	go func() { wg.Wait(); close(done) }()
	select {
	case <-done:
	case <-time.After(5 * time.Second):
		return syncs, int(atomic.LoadInt64(&picks)), fmt.Sprintf("5 s after being told to stop, pickers are still inside a pick: the cluster's rotation map is wedged after %d changes of the server list (%d picks)", syncs, atomic.LoadInt64(&picks))
	}
	if syncPanic != nil {
		return syncs, int(picks), fmt.Sprintf("the spec update panicked: %v", syncPanic)
	}
	if len(problems) > 0 {
		return syncs, int(picks), fmt.Sprintf("%s (after %d changes of the server list, %d picks)", problems[0], syncs, picks)
	}
	// afterwards the cluster serves as usual
	for i := 0; i < k; i++ {
		if info, ok := ci.Endpoints.Load(endpoint(i)); ok {
			info.UpdateStatus(true, "", "")
		}
	}
	okc := make(chan string, 1)
	go func() {
		defer func() {
			if r := recover(); r != nil {
				okc <- fmt.Sprintf("panic: %v", r)
			}
		}()
		for i := 0; i < k; i++ {
			if _, err := pick(ci); err != nil {
				okc <- err.Error()
				return
			}
		}
		okc <- ""
	}()
	select {
	case msg := <-okc:
		if msg != "" {
			return syncs, int(picks), "after the updates, with every endpoint ready, a pick fails: " + msg
		}
	case <-time.After(5 * time.Second):
		return syncs, int(picks), "after the updates a pick hangs"
	}
	return syncs, int(picks), ""
}

// TestReplayRotationResetStress: regression for the fixed finding C14-rotation-reset-corrupts-the-cursor-map: one fixed
// stress plan in a child process (against the pre-fix tree: 'fatal error: sync: unlock of unlocked mutex' within 1 s).
func TestReplayRotationResetStress(t *testing.T) {
	cmd := exec.Command(os.Args[0], "-test.run", "^TestHelperRotationResetStress$", "-test.timeout", "60s")
	cmd.Env = append(os.Environ(), "VERIF_C14_STRESS=6,8,1", "VERIF_PARTIAL=")
	out, err := cmd.CombinedOutput()
	if text := string(out); err != nil || !strings.Contains(text, "STRESS-OK") {
		if len(text) > 3000 {
			text = text[:3000]
		}
		t.Fatalf("requests picking endpoints while the server list of their cluster changes crashed or wedged the process (%v)\n%s", err, text)
	}
}
