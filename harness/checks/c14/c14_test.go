//go:build verif

// C14 — round-robin: ready endpoints of a policy share its traffic evenly.
package c14

import (
	"fmt"
	"sync"
	"testing"
	"time"

	metav1 "k8s.io/apimachinery/pkg/apis/meta/v1"
	"k8s.io/apiserver/pkg/authorization/authorizer"
	"pgregory.net/rapid"

	proxyv1alpha1 "github.com/kubewharf/kubegateway/pkg/apis/proxy/v1alpha1"
	"github.com/kubewharf/kubegateway/pkg/clusters"
	"verifharness/internal/gen"
	"verifharness/internal/stats"
)

func TestMain(m *testing.M) {
	stats.Property("C14")
	stats.Assume(
		"picks are made the way the dispatcher makes them: ClusterInfo.MatchAttributes(request) then Pop() once, per request",
		"readiness is scripted through the exported EndpointHealthCheck parameter of CreateClusterInfo; the ready set is stable while picks are made",
		"without an explicit subset the constant is taken as 64 picks for k <= 12 endpoints at N = 4e5 (the code keeps one strict round-robin cursor per observed ordering of the ready set; measured deviation on the pinned tree <= 6.1; a uniformly random picker deviates by ~180-450 there)",
		"Go runtime (map iteration order influences the no-subset constant; the toolchain is pinned), pgregory.net/rapid v1.3.0",
	)
	stats.Main(m)
}

type setup struct {
	K        int    // endpoints in the cluster
	Unready  []bool // per endpoint: unhealthy
	Disabled []bool
	Subset   []int // indices, in order; nil = no explicit subset
	Subset2  []int // explicit subset of a second policy (non-resource requests); nil = no second policy
	// Noise: explicit two-endpoint subsets of many further policies (resource "noise<j>"), all distinct: a cluster
	// with many dispatch policies keeps many rotations at once
	Noise [][2]int
}

func endpoint(i int) string { return fmt.Sprintf("http://127.0.0.1:%d", 1000+i) }

func build(t interface{ Fatalf(string, ...interface{}) }, s setup) (*clusters.ClusterInfo, []string, *proxyv1alpha1.UpstreamCluster) {
	unready := map[string]bool{}
	for i := 0; i < s.K; i++ {
		if s.Unready[i] {
			unready[endpoint(i)] = true
		}
	}
	health := func(e *clusters.EndpointInfo) bool {
		e.UpdateStatus(!unready[e.Endpoint], "scripted", "")
		return false
	}
	c := &proxyv1alpha1.UpstreamCluster{ObjectMeta: metav1.ObjectMeta{Name: "c14"}}
	for i := 0; i < s.K; i++ {
		srv := proxyv1alpha1.UpstreamClusterServer{Endpoint: endpoint(i)}
		if s.Disabled[i] {
			b := true
			srv.Disabled = &b
		}
		c.Spec.Servers = append(c.Spec.Servers, srv)
	}
	p := proxyv1alpha1.DispatchPolicy{Strategy: proxyv1alpha1.RoundRobin, Rules: []proxyv1alpha1.DispatchPolicyRule{{Verbs: []string{"*"}, APIGroups: []string{"*"}, Resources: []string{"*"}, NonResourceURLs: []string{"*"}}}}
	for _, i := range s.Subset {
		p.UpstreamSubset = append(p.UpstreamSubset, endpoint(i))
	}
	c.Spec.DispatchPolicies = []proxyv1alpha1.DispatchPolicy{p}
	if s.Subset2 != nil {
		// a second policy for the non-resource requests, in front of the first one
		p2 := proxyv1alpha1.DispatchPolicy{Strategy: proxyv1alpha1.RoundRobin, Rules: []proxyv1alpha1.DispatchPolicyRule{{Verbs: []string{"*"}, NonResourceURLs: []string{"*"}}}}
		for _, i := range s.Subset2 {
			p2.UpstreamSubset = append(p2.UpstreamSubset, endpoint(i))
		}
		c.Spec.DispatchPolicies = []proxyv1alpha1.DispatchPolicy{p2, p}
	}
	for j := len(s.Noise) - 1; j >= 0; j-- {
		pn := proxyv1alpha1.DispatchPolicy{Strategy: proxyv1alpha1.RoundRobin, Rules: []proxyv1alpha1.DispatchPolicyRule{{Verbs: []string{"*"}, APIGroups: []string{"*"}, Resources: []string{fmt.Sprintf("noise%d", j)}}},
			UpstreamSubset: []string{endpoint(s.Noise[j][0]), endpoint(s.Noise[j][1])}}
		c.Spec.DispatchPolicies = append([]proxyv1alpha1.DispatchPolicy{pn}, c.Spec.DispatchPolicies...)
	}
	ci, err := clusters.CreateClusterInfo(c, health, "", nil)
	if err != nil {
		t.Fatalf("harness: CreateClusterInfo: %v", err)
	}
	// expected ready set of the policy
	var ready []string
	inPolicy := func(i int) bool {
		if s.Subset == nil {
			return true
		}
		for _, j := range s.Subset {
			if j == i {
				return true
			}
		}
		return false
	}
	for i := 0; i < s.K; i++ {
		if !s.Unready[i] && !s.Disabled[i] && inPolicy(i) {
			ready = append(ready, endpoint(i))
		}
	}
	// wait until the scripted probes have been processed
	deadline := time.Now().Add(5 * time.Second)
	for {
		n := 0
		for i := 0; i < s.K; i++ {
			info, ok := ci.Endpoints.Load(endpoint(i))
			if ok && info.IsReady() {
				n++
			}
		}
		want := 0
		for i := 0; i < s.K; i++ {
			if !s.Unready[i] && !s.Disabled[i] {
				want++
			}
		}
		if n == want {
			break
		}
		if time.Now().After(deadline) {
			t.Fatalf("harness: endpoints did not become ready")
		}
		time.Sleep(time.Millisecond)
	}
	return ci, ready, c
}

var req = gen.Request{Resource: true, Verb: "get", Res: "pods", User: "u"}.Attributes()
var req2 = gen.Request{Verb: "get", Path: "/healthz", User: "u"}.Attributes()

func pick(ci *clusters.ClusterInfo) (string, error) { return pickFor(ci, req) }

func pickFor(ci *clusters.ClusterInfo, req authorizer.Attributes) (string, error) {
	p, err := ci.MatchAttributes(req)
	if err != nil {
		return "", err
	}
	e, err := p.Pop()
	if err != nil {
		return "", err
	}
	return e.Endpoint, nil
}

func genSetup(t *rapid.T, explicit bool) setup {
	k := rapid.IntRange(1, 12).Draw(t, "k")
	s := setup{K: k, Unready: make([]bool, k), Disabled: make([]bool, k)}
	for i := 0; i < k; i++ {
		switch rapid.IntRange(0, 7).Draw(t, fmt.Sprintf("state[%d]", i)) {
		case 0:
			s.Unready[i] = true
		case 1:
			s.Disabled[i] = true
		}
	}
	if explicit {
		perm := rapid.Permutation(seq(k)).Draw(t, "subsetOrder")
		s.Subset = perm[:rapid.IntRange(1, k).Draw(t, "subsetLen")]
		if rapid.IntRange(0, 2).Draw(t, "secondPolicy") != 0 {
			perm2 := rapid.Permutation(seq(k)).Draw(t, "subset2Order")
			n2 := len(s.Subset) // same size as the first subset, so that both policies have ready sets of equal size often
			if rapid.Bool().Draw(t, "subset2OtherLen") {
				n2 = rapid.IntRange(1, k).Draw(t, "subset2Len")
			}
			s.Subset2 = perm2[:n2]
		}
		// many further policies, each with its own ordered pair of ready endpoints
		var readyIdx []int
		for i := 0; i < k; i++ {
			if !s.Unready[i] && !s.Disabled[i] {
				readyIdx = append(readyIdx, i)
			}
		}
		if len(readyIdx) >= 5 && rapid.IntRange(0, 2).Draw(t, "manyPolicies") == 0 {
			// (a pair equal to the ready list of an observed policy would share that policy's rotation by design)
			readyOf := func(subset []int) []int {
				var out []int
				for _, i := range subset {
					if !s.Unready[i] && !s.Disabled[i] {
						out = append(out, i)
					}
				}
				return out
			}
			r1, r2 := readyOf(s.Subset), readyOf(s.Subset2)
			var pairs [][2]int
			for _, a := range readyIdx {
				for _, b := range readyIdx {
					if a == b || (len(r1) == 2 && r1[0] == a && r1[1] == b) || (len(r2) == 2 && r2[0] == a && r2[1] == b) {
						continue
					}
					pairs = append(pairs, [2]int{a, b})
				}
			}
			pairs = rapid.Permutation(pairs).Draw(t, "noisePairs")
			s.Noise = pairs[:rapid.IntRange(17, min(24, len(pairs))).Draw(t, "noisePolicies")]
		}
	}
	return s
}

func seq(n int) []int {
	out := make([]int, n)
	for i := range out {
		out[i] = i
	}
	return out
}

func stop(ci *clusters.ClusterInfo) { ci.Stop() }

// TestPropExplicitSubsetStrict: with an explicit subset every window of N consecutive picks is balanced to floor/ceil.
func TestPropExplicitSubsetStrict(t *testing.T) {
	sub := stats.NewSub("explicit-subset-strict", "rapid: k in 1..12 endpoints, each healthy / unhealthy / disabled, policy with an explicit upstream subset in any order, two times in three a second policy (for non-resource requests) with its own explicit subset - often of the same size - whose picks are interleaved following a generated pattern and judged on their own, and - with >= 5 ready endpoints, one time in three - 17-24 further policies with distinct two-endpoint subsets that all pick in rounds between the observed picks; L = 1..400 sequential picks (MatchAttributes + Pop per pick) with 0-4 spec deliveries (ClusterInfo.Sync) at generated positions in between that leave the server list and every policy's ready set as they are (the unchanged object, a server that no policy lists switched off or on, the logging mode edited, a flow-control schema added), then G goroutines x P picks; oracle: every pick is a ready endpoint of the subset; in every window of N consecutive sequential picks each of the r ready endpoints appears floor(N/r) or ceil(N/r) times; the totals over all picks (sequential + concurrent) are balanced to floor/ceil; no ready endpoint => error and no pick; non-trivial = >= 2 ready endpoints in the policy and L >= r; distinct by FNV-64 of (setup, L)")
	stats.Check(t, stats.N(800, 6000), func(t *rapid.T) {
		s := genSetup(t, true)
		ci, ready, obj := build(t, s)
		defer stop(ci)
		L := rapid.IntRange(1, 400).Draw(t, "L")
		// the informer re-delivers the unchanged object now and then (resync, edits of unrelated fields): the ready set stays
		// the same, so the windows below span these deliveries
		resyncAt := map[int]bool{}
		resyncKind := map[int]int{}
		for i, n := 0, rapid.IntRange(0, 4).Draw(t, "resyncs"); i < n; i++ {
			at := rapid.IntRange(0, L-1).Draw(t, "resyncBeforePick")
			resyncAt[at] = true
			resyncKind[at] = rapid.IntRange(0, 3).Draw(t, "resyncKind")
		}
		// servers that no policy of this setup lists: switching one of them off or on is an edit that leaves every
		// policy's ready set as it is
		inSomePolicy := map[int]bool{}
		for _, i := range s.Subset {
			inSomePolicy[i] = true
		}
		for _, i := range s.Subset2 {
			inSomePolicy[i] = true
		}
		for _, pr := range s.Noise {
			inSomePolicy[pr[0]], inSomePolicy[pr[1]] = true, true
		}
		var outside []int
		for i := 0; i < s.K; i++ {
			if !inSomePolicy[i] {
				outside = append(outside, i)
			}
		}
		cur := obj.DeepCopy() // the latest version of the object
		r := len(ready)
		sub.Eval()
		isReady := map[string]bool{}
		for _, e := range ready {
			isReady[e] = true
		}
		// the second policy (if any) picks in between, following a generated pattern; its own picks obey the same law
		var ready2 []string
		isReady2 := map[string]bool{}
		for _, i := range s.Subset2 {
			if !s.Unready[i] && !s.Disabled[i] {
				ready2 = append(ready2, endpoint(i))
				isReady2[endpoint(i)] = true
			}
		}
		pattern := []bool{false}
		if s.Subset2 != nil {
			pattern = rapid.SliceOfN(rapid.Bool(), 1, 6).Draw(t, "secondPolicyPicksPattern")
		}
		// two policies whose ready lists are identical (same endpoints, same order) share one rotation by design: their
		// picks form ONE round-robin sequence (every endpoint still gets its share of the traffic), so they are judged together
		var ready1 []string // in the order of the policy's subset, as the picker sees it
		for _, i := range s.Subset {
			if !s.Unready[i] && !s.Disabled[i] {
				ready1 = append(ready1, endpoint(i))
			}
		}
		shared := fmt.Sprint(ready1) == fmt.Sprint(ready2) && r > 0
		noisePattern := []bool{false}
		if len(s.Noise) > 0 {
			noisePattern = rapid.SliceOfN(rapid.Bool(), 1, 4).Draw(t, "noiseRoundBeforePickPattern")
		}
		var seqPicks, seqPicks2 []string
		for i := 0; i < L; i++ {
			if noisePattern[i%len(noisePattern)] {
				// every one of the further policies picks once
				for j, pr := range s.Noise {
					e, err := pickFor(ci, gen.Request{Resource: true, Verb: "get", Res: fmt.Sprintf("noise%d", j), User: "u"}.Attributes())
					if err != nil || (e != endpoint(pr[0]) && e != endpoint(pr[1])) {
						t.Fatalf("policy noise%d (subset %v): picked %q, %v (setup %+v)", j, pr, e, err, s)
					}
				}
				sub.Class("round-of-picks-by-17-24-further-policies")
			}
			if resyncAt[i] {
				class := "resync-of-the-unchanged-object-between-picks"
				switch kind := resyncKind[i]; {
				case kind == 1 && len(outside) > 0:
					// a server that no policy lists is switched off / on again
					j := outside[i%len(outside)]
					d := !(cur.Spec.Servers[j].Disabled != nil && *cur.Spec.Servers[j].Disabled)
					cur.Spec.Servers[j].Disabled = &d
					class = "server-outside-every-policy-switched-off-or-on-between-picks"
				case kind == 2:
					if cur.Spec.Logging.Mode == proxyv1alpha1.LogOn {
						cur.Spec.Logging.Mode = proxyv1alpha1.LogOff
					} else {
						cur.Spec.Logging.Mode = proxyv1alpha1.LogOn
					}
					class = "logging-mode-edited-between-picks"
				case kind == 3:
					cur.Spec.FlowControl.Schemas = append(cur.Spec.FlowControl.Schemas, proxyv1alpha1.FlowControlSchema{Name: fmt.Sprintf("extra%d", len(cur.Spec.FlowControl.Schemas)),
						FlowControlSchemaConfiguration: proxyv1alpha1.FlowControlSchemaConfiguration{MaxRequestsInflight: &proxyv1alpha1.MaxRequestsInflightFlowControlSchema{Max: 5}}})
					class = "flow-control-schema-added-between-picks"
				}
				if err := ci.Sync(cur.DeepCopy()); err != nil {
					t.Fatalf("harness: sync of an edit that leaves servers and ready sets alone failed: %v", err)
				}
				sub.Class(class)
			}
			if pattern[i%len(pattern)] {
				e, err := pickFor(ci, req2)
				if len(ready2) == 0 {
					if err == nil {
						t.Fatalf("no ready endpoint in the second policy but %s was picked (setup %+v)", e, s)
					}
					continue
				}
				if err != nil || !isReady2[e] {
					t.Fatalf("second policy: picked %q, %v; ready endpoints of its subset %v (setup %+v)", e, err, ready2, s)
				}
				if shared {
					seqPicks = append(seqPicks, e)
					sub.Class("pick-of-a-second-policy-with-an-identical-ready-list")
				} else {
					seqPicks2 = append(seqPicks2, e)
				}
				continue
			}
			e, err := pick(ci)
			if r == 0 {
				if err == nil {
					t.Fatalf("no ready endpoint in the policy but %s was picked (setup %+v)", e, s)
				}
				continue
			}
			if err != nil {
				t.Fatalf("pick failed with %d ready endpoints: %v (setup %+v)", r, err, s)
			}
			if !isReady[e] {
				t.Fatalf("picked %s which is not a ready endpoint of the policy's subset (ready %v, setup %+v)", e, ready, s)
			}
			seqPicks = append(seqPicks, e)
		}
		// every window, per policy (the picks of the other policy in between do not count)
		checkWindows := func(which string, picks, ready []string) {
			r := len(ready)
			if r == 0 {
				return
			}
			for _, n := range []int{r, 2*r + 1, 7, len(picks)} {
				if n > len(picks) || n < 1 {
					continue
				}
				counts := map[string]int{}
				for i, e := range picks {
					counts[e]++
					if i >= n {
						counts[picks[i-n]]--
					}
					if i >= n-1 {
						for _, x := range ready {
							if c := counts[x]; c != n/r && c != (n+r-1)/r {
								t.Fatalf("%s: window of %d consecutive picks ending at pick %d: endpoint %s chosen %d times, expected %d or %d (r=%d ready, setup %+v, second policy picks at %v)\npicks: %v", which, n, i, x, c, n/r, (n+r-1)/r, r, s, pattern, picks[max(0, i-n+1):i+1])
							}
						}
					}
				}
			}
		}
		checkWindows("policy", seqPicks, ready)
		checkWindows("second policy", seqPicks2, ready2)
		if len(seqPicks2) > 0 && len(seqPicks) > 0 {
			sub.Class("two-policies-interleaved")
			if len(ready2) == r && r >= 2 {
				sub.Class("two-policies-interleaved-with-ready-sets-of-equal-size")
			}
		}
		if r == 0 {
			sub.Class("no-ready-endpoint")
			return
		}
		// concurrent pickers: totals stay balanced
		G := rapid.IntRange(2, 8).Draw(t, "goroutines")
		P := rapid.IntRange(1, 200).Draw(t, "picksEach")
		total := map[string]int{}
		for _, e := range seqPicks {
			total[e]++
		}
		var mu sync.Mutex
		var wg sync.WaitGroup
		var bad string
		for g := 0; g < G; g++ {
			wg.Add(1)
			go func() {
				defer wg.Done()
				local := map[string]int{}
				for i := 0; i < P; i++ {
					e, err := pick(ci)
					if err != nil || !isReady[e] {
						mu.Lock()
						bad = fmt.Sprintf("concurrent pick returned %q, %v", e, err)
						mu.Unlock()
						return
					}
					local[e]++
				}
				mu.Lock()
				for k, v := range local {
					total[k] += v
				}
				mu.Unlock()
			}()
		}
		wg.Wait()
		if bad != "" {
			t.Fatalf("%s (setup %+v)", bad, s)
		}
		n := len(seqPicks) + G*P
		for _, x := range ready {
			if c := total[x]; c != n/r && c != (n+r-1)/r {
				t.Fatalf("after %d picks (%d sequential + %d x %d concurrent) endpoint %s was chosen %d times, expected %d or %d (r=%d, setup %+v)", n, len(seqPicks), G, P, x, c, n/r, (n+r-1)/r, r, s)
			}
		}
		if r >= 2 && L >= r {
			sub.NonTrivial(stats.Hash(s, L))
			sub.Class(fmt.Sprintf("ready=%d", r))
			if sub.WantSample() {
				sub.Sample(map[string]interface{}{"setup": fmt.Sprintf("%+v", s), "ready": ready, "sequential_picks": L, "concurrent": fmt.Sprintf("%dx%d", G, P), "first_picks": seqPicks[:min(len(seqPicks), 12)]})
			}
		}
	})
}

// TestPropNoSubsetBounded: without a subset the deviation from N/k stays within a constant, independent of N.
func TestPropNoSubsetBounded(t *testing.T) {
	sub := stats.NewSub("no-subset-bounded-deviation", "rapid: k in 1..12 endpoints (healthy / unhealthy / disabled), policy without upstream subset; N = 4e5 picks, partly from 4 goroutines; oracle: only ready endpoints are picked and |count - N/r| <= 64 for every ready endpoint (no starvation, no favouring; constant independent of N); non-trivial = >= 2 ready endpoints; distinct by FNV-64 of the setup")
	const N = 400000
	stats.Check(t, stats.N(25, 300), func(t *rapid.T) {
		s := genSetup(t, false)
		ci, ready, _ := build(t, s)
		defer stop(ci)
		r := len(ready)
		sub.Eval()
		if r == 0 {
			if _, err := pick(ci); err == nil {
				t.Fatalf("no ready endpoint but a pick succeeded (setup %+v)", s)
			}
			return
		}
		isReady := map[string]bool{}
		for _, e := range ready {
			isReady[e] = true
		}
		counts := map[string]int{}
		var mu sync.Mutex
		var wg sync.WaitGroup
		var bad string
		for g := 0; g < 4; g++ {
			wg.Add(1)
			go func() {
				defer wg.Done()
				local := map[string]int{}
				for i := 0; i < N/4; i++ {
					e, err := pick(ci)
					if err != nil || !isReady[e] {
						mu.Lock()
						bad = fmt.Sprintf("pick returned %q, %v", e, err)
						mu.Unlock()
						return
					}
					local[e]++
				}
				mu.Lock()
				for k, v := range local {
					counts[k] += v
				}
				mu.Unlock()
			}()
		}
		wg.Wait()
		if bad != "" {
			t.Fatalf("%s (setup %+v)", bad, s)
		}
		maxDev := 0.0
		for _, x := range ready {
			d := float64(counts[x]) - float64(N)/float64(r)
			if d < 0 {
				d = -d
			}
			if d > maxDev {
				maxDev = d
			}
			if d > 64 {
				t.Fatalf("endpoint %s was chosen %d times in %d picks over %d ready endpoints (N/r = %.1f, deviation %.1f > 64) (setup %+v)", x, counts[x], N, r, float64(N)/float64(r), d, s)
			}
		}
		if r >= 2 {
			sub.NonTrivial(stats.Hash(s))
			sub.Class(fmt.Sprintf("ready=%d", r))
			sub.Note("k=%d ready=%d N=%d max deviation %.1f", s.K, r, N, maxDev)
			if sub.WantSample() {
				sub.Sample(map[string]interface{}{"setup": fmt.Sprintf("%+v", s), "ready": r, "N": N, "max_deviation": maxDev})
			}
		}
	})
}
