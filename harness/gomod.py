#!/usr/bin/env python3
"""Regenerate harness/go.mod from /repo/go.mod (replace block copied, local paths made absolute)."""
import os, re, shutil, sys

def generate(repo="/repo", harness=None):
    harness = harness or os.path.dirname(os.path.abspath(__file__))
    src = open(os.path.join(repo, "go.mod")).read()
    m = re.search(r"^replace \((.*?)^\)", src, re.S | re.M)
    block = m.group(1) if m else ""
    lines = []
    for ln in block.splitlines():
        ln = ln.rstrip()
        if not ln.strip():
            continue
        ln = re.sub(r"=> \./", "=> " + repo + "/", ln)
        lines.append(ln)
    # single-line replace directives
    for mm in re.finditer(r"^replace\s+(\S+.*=>.*)$", src, re.M):
        ln = "\t" + mm.group(1).strip()
        ln = re.sub(r"=> \./", "=> " + repo + "/", ln)
        lines.append(ln)
    out = []
    out.append("module verifharness\n")
    out.append("go 1.17\n")
    out.append("require (")
    out.append("\tgithub.com/kubewharf/kubegateway v0.0.0")
    out.append("\tpgregory.net/rapid v1.3.0")
    out.append(")\n")
    out.append("replace (")
    out.append("\tgithub.com/kubewharf/kubegateway => " + repo)
    out.extend(lines)
    out.append(")")
    text = "\n".join(out) + "\n"
    gm = os.path.join(harness, "go.mod")
    old = open(gm).read() if os.path.exists(gm) else None
    # keep the file produced by a previous `go mod tidy`-like resolution if the inputs did not change
    stamp = os.path.join(harness, ".gomod.stamp")
    key = text
    if old is not None and os.path.exists(stamp) and open(stamp).read() == key and os.path.exists(os.path.join(harness, "go.sum")):
        return False
    open(gm, "w").write(text)
    shutil.copyfile(os.path.join(repo, "go.sum"), os.path.join(harness, "go.sum"))
    open(stamp, "w").write(key)
    return True

if __name__ == "__main__":
    print("regenerated" if generate(*(sys.argv[1:2])) else "unchanged")
