// Command instrument rewrites Go source files for the deterministic scheduler (engine E4):
// it inserts a call VerifPoint(line) before every statement, replaces sync.Mutex / sync.RWMutex by
// scheduler-aware types and appends a prelude that declares those types and the hook variables.
// With the hooks unset the rewritten code behaves like the original.
//
//	instrument -overlay out.json -dir outdir file.go [file.go ...]
//
// writes outdir/<n>_<base> for every input and an overlay JSON mapping input -> rewritten file.
package main

import (
	"bytes"
	"encoding/json"
	"flag"
	"fmt"
	"go/ast"
	"go/format"
	"go/parser"
	"go/token"
	"os"
	"path/filepath"
	"strings"
)

const prelude = `

// ---- verif prelude (appended by harness/cmd/instrument; not part of the repository) ----

// VerifPoint is called before every statement of this file; nil-safe no-op unless a scheduler is attached.
var VerifPoint = func(line int) {}

// VerifLockHook, when set, takes over mutex operations: op is "lock", "unlock", "rlock", "runlock".
// It returns false if the scheduler is not active for the calling goroutine (then the real mutex is used).
var VerifLockHook func(m interface{}, op string) bool

type verifMutex struct{ real verifsync.Mutex }

func (m *verifMutex) Lock() {
	if VerifLockHook != nil && VerifLockHook(m, "lock") {
		return
	}
	m.real.Lock()
}

func (m *verifMutex) Unlock() {
	if VerifLockHook != nil && VerifLockHook(m, "unlock") {
		return
	}
	m.real.Unlock()
}

type verifRWMutex struct{ real verifsync.RWMutex }

func (m *verifRWMutex) Lock() {
	if VerifLockHook != nil && VerifLockHook(m, "lock") {
		return
	}
	m.real.Lock()
}

func (m *verifRWMutex) Unlock() {
	if VerifLockHook != nil && VerifLockHook(m, "unlock") {
		return
	}
	m.real.Unlock()
}

func (m *verifRWMutex) RLock() {
	if VerifLockHook != nil && VerifLockHook(m, "rlock") {
		return
	}
	m.real.RLock()
}

func (m *verifRWMutex) RUnlock() {
	if VerifLockHook != nil && VerifLockHook(m, "runlock") {
		return
	}
	m.real.RUnlock()
}
`

func main() {
	overlay := flag.String("overlay", "", "overlay JSON to write")
	dir := flag.String("dir", "", "output directory")
	flag.Parse()
	if *overlay == "" || *dir == "" || flag.NArg() == 0 {
		fmt.Fprintln(os.Stderr, "usage: instrument -overlay out.json -dir outdir file.go ...")
		os.Exit(2)
	}
	repl := map[string]string{}
	for i, in := range flag.Args() {
		// "@file.go": a further file of a package whose first file already carries the prelude
		withPrelude := true
		if strings.HasPrefix(in, "@") {
			in, withPrelude = in[1:], false
		}
		out := filepath.Join(*dir, fmt.Sprintf("%d_%s", i, filepath.Base(in)))
		if err := rewrite(in, out, withPrelude); err != nil {
			fmt.Fprintf(os.Stderr, "instrument %s: %v\n", in, err)
			os.Exit(1)
		}
		repl[in] = out
	}
	b, _ := json.MarshalIndent(map[string]interface{}{"Replace": repl}, "", " ")
	if err := os.WriteFile(*overlay, b, 0o644); err != nil {
		fmt.Fprintln(os.Stderr, err)
		os.Exit(1)
	}
}

func rewrite(in, out string, withPrelude bool) error {
	fset := token.NewFileSet()
	f, err := parser.ParseFile(fset, in, nil, parser.ParseComments)
	if err != nil {
		return err
	}
	point := func(pos token.Pos) ast.Stmt {
		return &ast.ExprStmt{X: &ast.CallExpr{Fun: ast.NewIdent("VerifPoint"), Args: []ast.Expr{&ast.BasicLit{Kind: token.INT, Value: fmt.Sprint(fset.Position(pos).Line)}}}}
	}
	instr := func(list []ast.Stmt) []ast.Stmt {
		var outl []ast.Stmt
		for _, s := range list {
			outl = append(outl, point(s.Pos()), s)
		}
		return outl
	}
	// the body of a switch / select is a block of clauses, not of statements
	clauseBlocks := map[*ast.BlockStmt]bool{}
	ast.Inspect(f, func(n ast.Node) bool {
		switch x := n.(type) {
		case *ast.SwitchStmt:
			clauseBlocks[x.Body] = true
		case *ast.TypeSwitchStmt:
			clauseBlocks[x.Body] = true
		case *ast.SelectStmt:
			clauseBlocks[x.Body] = true
		}
		return true
	})
	ast.Inspect(f, func(n ast.Node) bool {
		switch x := n.(type) {
		case *ast.BlockStmt:
			if !clauseBlocks[x] {
				x.List = instr(x.List)
			}
		case *ast.CaseClause:
			x.Body = instr(x.Body)
		case *ast.CommClause:
			x.Body = instr(x.Body)
		case *ast.SelectorExpr:
			if id, ok := x.X.(*ast.Ident); ok && id.Name == "sync" {
				switch x.Sel.Name {
				case "Mutex":
					id.Name, x.Sel.Name = "verifhere", "verifMutex"
				case "RWMutex":
					id.Name, x.Sel.Name = "verifhere", "verifRWMutex"
				}
			}
		}
		return true
	})
	var buf bytes.Buffer
	// comments are dropped: positions of inserted statements would otherwise scramble them
	f.Comments = nil
	if err := format.Node(&buf, fset, f); err != nil {
		return err
	}
	src := buf.String()
	// "verifhere.verifMutex" -> "verifMutex" (a selector cannot be turned into an identifier in place)
	src = strings.ReplaceAll(src, "verifhere.", "")
	// the prelude needs package sync under a private name
	if withPrelude {
		src = strings.Replace(src, "\nimport (", "\nimport verifsync \"sync\"\n\nimport (", 1)
		if !strings.Contains(src, "verifsync \"sync\"") {
			src = strings.Replace(src, "\nimport ", "\nimport verifsync \"sync\"\n\nimport ", 1)
		}
		src += prelude
	}
	// the original may no longer use package sync by name; keep the import alive
	if strings.Contains(src, "\t\"sync\"\n") || strings.Contains(src, "import \"sync\"\n") {
		src += "\nvar _ sync.Once\n"
	}
	if _, err := format.Source([]byte(src)); err != nil {
		return fmt.Errorf("rewritten source does not parse: %v", err)
	}
	return os.WriteFile(out, []byte(src), 0o644)
}
