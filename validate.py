#!/usr/bin/env python3-vt
"""Validate MANIFEST.json and evidence/*.json against the schemas (development helper)."""
import glob, json, sys
import jsonschema
ok = True
try:
    jsonschema.validate(json.load(open('/verif/MANIFEST.json')), json.load(open('/root/.vp/MANIFEST.schema.json')))
    print("MANIFEST ok")
except Exception as e:
    ok = False; print("MANIFEST INVALID", str(e)[:500])
sch = json.load(open('/root/.vp/EVIDENCE.schema.json'))
for f in sorted(glob.glob('/verif/evidence/*.json')):
    try:
        ev = json.load(open(f)); jsonschema.validate(ev, sch)
        c = ev['coverage']
        print(f.split('/')[-1], ev['tier'], 'evals', c['evaluations'], 'distinct', c['distinct_nontrivial'], 'wall', ev['wall_s'], 'viol', ev.get('violations'))
    except Exception as e:
        ok = False; print(f, "INVALID", str(e)[:500])
sys.exit(0 if ok else 1)
